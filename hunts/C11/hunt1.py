"""C11 hunt 1: pandas drop_invalid_rows on a MultiIndex whose labels do not
survive the str()/eval() round trip (Timestamp, NaN, ...)."""
import sys; sys.path.insert(0, "/repo")
import warnings; warnings.filterwarnings("ignore")
import numpy as np
import pandas as pd
from pandera import Check, Column, DataFrameSchema

schema = DataFrameSchema({"a": Column(int, Check.gt(0))}, drop_invalid_rows=True)
violated = False

# (a) the most common MultiIndex there is: (date, id)
mi = pd.MultiIndex.from_product(
    [pd.to_datetime(["2020-01-01", "2020-01-02"]), [1, 2]], names=["day", "id"]
)
df = pd.DataFrame({"a": [1, -2, 3, 4]}, index=mi)
expected = df[df["a"] > 0]
try:
    out = schema.validate(df, lazy=True)
    print("datetime level -> result:\n", out)
    if not out.equals(expected):
        violated = True
except Exception as exc:  # pylint: disable=broad-except
    print(f"datetime level -> {type(exc).__name__}: {exc}")
    violated = True

# (b) a (unique) MultiIndex with a missing label
mi = pd.MultiIndex.from_tuples([("x", 1.0), ("x", np.nan), ("y", 2.0)], names=["k", "v"])
df = pd.DataFrame({"a": [1, -2, 3]}, index=mi)
expected = df[df["a"] > 0]
try:
    out = schema.validate(df, lazy=True)
    print("NaN label -> result:\n", out)
    if not out.equals(expected):
        violated = True
except Exception as exc:  # pylint: disable=broad-except
    print(f"NaN label -> {type(exc).__name__}: {exc}")
    violated = True

# control: str/int labels work
mi = pd.MultiIndex.from_tuples([("x", 1), ("x", 2), ("y", 2)], names=["k", "v"])
df = pd.DataFrame({"a": [1, -2, 3]}, index=mi)
print("control (str,int labels) ok:", schema.validate(df, lazy=True).equals(df[df["a"] > 0]))

print("PROPERTY VIOLATED" if violated else "property held")
sys.exit(1 if violated else 0)
