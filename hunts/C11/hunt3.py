"""C11 hunt 3: polars drop_invalid_rows with a failing *scalar* (aggregate) check:
the violation is not attributable to rows, yet nothing is raised and EVERY row
is dropped (or ShapeError when a row-level check fails too)."""
import sys; sys.path.insert(0, "/repo")
import warnings; warnings.filterwarnings("ignore")
import polars as pl
import pandera.polars as pa
from pandera.errors import SchemaErrors

df = pl.DataFrame({"a": [1, -2, 3]})

def total_gt_100(data):
    """documented form: LazyFrame holding a single boolean scalar"""
    return data.lazyframe.select(pl.col(data.key).sum().gt(100))

violated = False

# without drop_invalid_rows the violation is reported
try:
    pa.DataFrameSchema({"a": pa.Column(int, pa.Check(total_gt_100))}).validate(df, lazy=True)
    print("baseline: no error?!")
except SchemaErrors:
    print("baseline (drop_invalid_rows=False): SchemaErrors raised, as expected")

# with drop_invalid_rows: every row satisfies all row-level constraints
schema = pa.DataFrameSchema({"a": pa.Column(int, pa.Check(total_gt_100))}, drop_invalid_rows=True)
try:
    out = schema.validate(df, lazy=True)
    print("scalar check only -> returned", out.height, "of", df.height, "rows:", out["a"].to_list())
    # expected: SchemaErrors (non-row violation still raised); at the very least
    # no valid row may be dropped
    violated = True
except SchemaErrors:
    print("scalar check only -> SchemaErrors raised (property held)")

# scalar check + row-level check failing together
schema = pa.DataFrameSchema(
    {"a": pa.Column(int, [pa.Check.gt(0), pa.Check(total_gt_100)])}, drop_invalid_rows=True
)
try:
    out = schema.validate(df, lazy=True)
    print("scalar + row-level ->", out["a"].to_list())
    violated = True
except SchemaErrors:
    print("scalar + row-level -> SchemaErrors raised (property held)")
except Exception as exc:  # pylint: disable=broad-except
    print(f"scalar + row-level -> {type(exc).__name__}: {exc}")
    violated = True

print("PROPERTY VIOLATED" if violated else "property held")
sys.exit(1 if violated else 0)
