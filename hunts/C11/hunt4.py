"""C11 hunt 4: polars, non-nullable regex Column matching several columns:
rows holding nulls survive drop_invalid_rows and nothing is raised."""
import sys; sys.path.insert(0, "/repo")
import warnings; warnings.filterwarnings("ignore")
import polars as pl
import pandera.polars as pa
from pandera.errors import SchemaErrors

df = pl.DataFrame({"x_1": [1.0, None, 3.0, 4.0], "x_2": [1.0, 2.0, None, 4.0]})
violated = False

# baseline: nulls are reported for both columns
try:
    pa.DataFrameSchema({"^x_\\d$": pa.Column(float, regex=True)}).validate(df, lazy=True)
except SchemaErrors as exc:
    print("baseline reports", len(exc.schema_errors), "null errors")

schema = pa.DataFrameSchema({"^x_\\d$": pa.Column(float, regex=True)}, drop_invalid_rows=True)
out = schema.validate(df, lazy=True)
print("regex column, nullable=False ->\n", out)
expected = df.drop_nulls()
if not out.equals(expected):
    print("expected rows:\n", expected)
    violated = True

# same schema written with one Column per name drops the rows
schema2 = pa.DataFrameSchema({"x_1": pa.Column(float), "x_2": pa.Column(float)}, drop_invalid_rows=True)
print("control (explicit columns) ok:", schema2.validate(df, lazy=True).equals(expected))

# pandas sibling
import pandas as pd
import pandera as ppa
pout = ppa.DataFrameSchema({"^x_\\d$": ppa.Column(float, regex=True)}, drop_invalid_rows=True).validate(df.to_pandas(), lazy=True)
print("pandas sibling keeps labels:", pout.index.tolist())

print("PROPERTY VIOLATED: rows with nulls in a non-nullable column survive" if violated else "property held")
sys.exit(1 if violated else 0)
