"""C11 hunt 2: Check(n_failure_cases=k) makes pandas drop_invalid_rows drop only
the first k failing rows of that check; the other invalid rows survive silently."""
import sys; sys.path.insert(0, "/repo")
import warnings; warnings.filterwarnings("ignore")
import pandas as pd
from pandera import Check, Column, DataFrameSchema, SeriesSchema

df = pd.DataFrame({"a": [1, -2, -3, 4, -5]})
expected_pos = [0, 3]
violated = False

s1 = DataFrameSchema({"a": Column(int, Check.gt(0, n_failure_cases=1))}, drop_invalid_rows=True)
out = s1.validate(df, lazy=True)
print("column check, n_failure_cases=1 ->", out["a"].tolist(), "labels", out.index.tolist())
violated |= out.index.tolist() != expected_pos

s2 = DataFrameSchema(
    {"a": Column(int)},
    checks=Check(lambda d: d["a"] > 0, n_failure_cases=1),
    drop_invalid_rows=True,
)
out = s2.validate(df, lazy=True)
print("dataframe check, n_failure_cases=1 ->", out["a"].tolist())
violated |= out.index.tolist() != expected_pos

s3 = SeriesSchema(int, Check.gt(0, n_failure_cases=2), drop_invalid_rows=True)
out = s3.validate(df["a"], lazy=True)
print("series check, n_failure_cases=2 ->", out.tolist())
violated |= out.index.tolist() != expected_pos

# control without n_failure_cases
s0 = DataFrameSchema({"a": Column(int, Check.gt(0))}, drop_invalid_rows=True)
print("control ->", s0.validate(df, lazy=True)["a"].tolist())

# polars sibling drops all failing rows for the same schema
import polars as pl
import pandera.polars as pap
ps = pap.DataFrameSchema({"a": pap.Column(int, pap.Check.gt(0, n_failure_cases=1))}, drop_invalid_rows=True)
print("polars, n_failure_cases=1 ->", ps.validate(pl.DataFrame(df), lazy=True)["a"].to_list())

print("PROPERTY VIOLATED: invalid rows (a <= 0) survive" if violated else "property held")
sys.exit(1 if violated else 0)
