"""C11 hunt 5: Column(drop_invalid_rows=True) used inside a DataFrameSchema:
the column's failures are swallowed - rows are NOT dropped and nothing is raised."""
import sys; sys.path.insert(0, "/repo")
import warnings; warnings.filterwarnings("ignore")
import pandas as pd
import pandera as pa
from pandera.errors import SchemaErrors

df = pd.DataFrame({"a": [1, -2, 3], "b": [1.0, None, 3.0]})
violated = False

col = pa.Column(int, pa.Check.gt(0), name="a", drop_invalid_rows=True)
print("Column.validate standalone ->", col.validate(df, lazy=True)["a"].tolist())

schema = pa.DataFrameSchema({"a": pa.Column(int, pa.Check.gt(0), drop_invalid_rows=True)})
try:
    out = schema.validate(df, lazy=True)
    print("pandas DataFrameSchema with that column ->", out["a"].tolist())
    if (out["a"] <= 0).any():
        violated = True   # invalid row survived AND no error raised
except SchemaErrors:
    print("pandas: SchemaErrors raised (acceptable)")

# nullability is swallowed as well
schema = pa.DataFrameSchema({"b": pa.Column(float, nullable=False, drop_invalid_rows=True)})
try:
    out = schema.validate(df, lazy=True)
    print("pandas non-nullable column ->", out["b"].tolist())
    if out["b"].isna().any():
        violated = True
except SchemaErrors:
    print("pandas: SchemaErrors raised (acceptable)")

# polars behaves the same way
import polars as pl
import pandera.polars as pap
pschema = pap.DataFrameSchema({"a": pap.Column(int, pap.Check.gt(0), drop_invalid_rows=True)})
try:
    pout = pschema.validate(pl.DataFrame({"a": [1, -2, 3]}), lazy=True)
    print("polars DataFrameSchema with that column ->", pout["a"].to_list())
    if (pout["a"] <= 0).any():
        violated = True
except SchemaErrors:
    print("polars: SchemaErrors raised (acceptable)")

# control: the same column without the flag is enforced
try:
    pa.DataFrameSchema({"a": pa.Column(int, pa.Check.gt(0))}).validate(df, lazy=True)
except SchemaErrors:
    print("control (flag off): SchemaErrors raised")

print("PROPERTY VIOLATED: invalid rows survive silently" if violated else "property held")
sys.exit(1 if violated else 0)
