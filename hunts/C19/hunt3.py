"""C19 / ignore_na x groupby: with the default ignore_na=True the null elements of the
column are still handed to the check function when `groupby` is set, and they make
the check fail."""
import sys; sys.path.insert(0, "/repo")
import numpy as np
import pandas as pd
import pandera as pa
from pandera import Check

df = pd.DataFrame({"v": [1.0, np.nan, 3.0, 4.0], "g": ["A", "A", "B", "B"]})

seen_nulls = []


def positive_in_A(groups):
    seen_nulls.append(int(groups["A"].isna().sum()))
    return groups["A"] > 0          # per-element verdict for group A


def positive(series):
    seen_nulls.append(int(series.isna().sum()))
    return series > 0


def outcome(check):
    schema = pa.DataFrameSchema(
        {"v": pa.Column(float, check, nullable=True), "g": pa.Column(str)}
    )
    try:
        schema.validate(df)
        return "PASS"
    except pa.errors.SchemaError as exc:
        return f"FAIL ({str(exc).splitlines()[0][:90]})"


plain = outcome(Check(positive, ignore_na=True))
nulls_plain = seen_nulls.pop()
grouped = outcome(Check(positive_in_A, groupby="g", ignore_na=True))
nulls_grouped = seen_nulls.pop()
grouped_groups = outcome(Check(positive_in_A, groupby="g", groups=["A"], ignore_na=True))

print(f"ignore_na=True, no groupby : {plain}; nulls shown to fn = {nulls_plain}")
print(f"ignore_na=True, groupby='g': {grouped}; nulls shown to fn = {nulls_grouped}")
print(f"ignore_na=True, groupby='g', groups=['A']: {grouped_groups}")

if plain == "PASS" and (grouped != "PASS" or nulls_grouped):
    print("VIOLATION: nulls are shown to the function and fail the check although ignore_na=True")
    sys.exit(1)
print("property held")
sys.exit(0)
