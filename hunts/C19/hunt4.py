"""C19 / ignore_na=False x element_wise: on pandas nullable dtypes (Int64, boolean, string...)
a vectorised check yields <NA> for null elements; postprocess_field reduces with
`check_output.all()` which SKIPS <NA>, so nulls can never fail the check even with
ignore_na=False.  The element-wise variant of the same predicate (and the same data
as float64) fails."""
import sys; sys.path.insert(0, "/repo")
import pandas as pd
import pandera as pa
from pandera import Check

s_nullable = pd.Series([1, None, 3], dtype="Int64")
s_float = s_nullable.astype("float64")


def verdict(series, check):
    dtype = series.dtype
    try:
        pa.SeriesSchema(dtype, check, nullable=True).validate(series)
        return "PASS"
    except pa.errors.SchemaError as exc:
        return f"FAIL ({str(exc).splitlines()[0][:80]})"


rows = {
    "Int64   Check.gt(0, ignore_na=False)": verdict(s_nullable, Check.gt(0, ignore_na=False)),
    "Int64   Check(lambda s: s > 0, ignore_na=False)": verdict(s_nullable, Check(lambda s: s > 0, ignore_na=False)),
    "Int64   Check(lambda x: x > 0, element_wise=True, ignore_na=False)": verdict(
        s_nullable, Check(lambda x: x > 0, element_wise=True, ignore_na=False)),
    "float64 Check.gt(0, ignore_na=False)": verdict(s_float, Check.gt(0, ignore_na=False)),
}
for k, v in rows.items():
    print(f"{k:70s} -> {v}")

pa.SeriesSchema(int).validate(pd.Series([1]))
res = Check.gt(0, ignore_na=False)(s_nullable)
print("check_output:", res.check_output.tolist(), "check_passed:", res.check_passed,
      "failure_cases:", res.failure_cases)

vals = list(rows.values())
vectorised_pass = vals[0] == "PASS" and vals[1] == "PASS"
others_fail = vals[2] != "PASS" and vals[3] != "PASS"
if vectorised_pass and others_fail:
    print("VIOLATION: element_wise=True and vectorised variants of `x > 0` disagree; "
          "ignore_na=False nulls do not fail on a nullable dtype")
    sys.exit(1)
print("property held")
sys.exit(0)
