"""C19 / "for any check function" + built-in names: a user-defined check whose *name*
(explicit `name=` or simply the function's __name__) equals a built-in check name is
silently replaced by the built-in at call time, so the verdict is not the one of the
user's function (or the call crashes)."""
import sys; sys.path.insert(0, "/repo")
import pandas as pd
import pandera as pa
from pandera import Check

s = pd.Series([-10, 1, 2])


def less_than(series, max_value):
    """user predicate: |x| < max_value  (-10 must FAIL for max_value=5)"""
    return series.abs() < max_value


def my_abs_bound(series, max_value):
    return series.abs() < max_value


def verdict(check):
    try:
        pa.SeriesSchema(int, check).validate(s)
        return "PASS"
    except pa.errors.SchemaError as exc:
        return f"FAIL ({str(exc).splitlines()[0][:100]})"


same_fn_other_name = verdict(Check(my_abs_bound, max_value=5))
builtin_named_fn = verdict(Check(less_than, max_value=5))
explicit_name = verdict(Check(lambda x: x.abs() < 5, name="greater_than"))

print("Check(my_abs_bound, max_value=5)                  :", same_fn_other_name)
print("Check(less_than,    max_value=5)  (same body)     :", builtin_named_fn)
print('Check(lambda x: x.abs() < 5, name="greater_than") :', explicit_name)

if same_fn_other_name.startswith("FAIL") and builtin_named_fn == "PASS":
    print("VIOLATION: the user's function was replaced by the built-in less_than "
          "(-10 < 5 is True), a failing column is accepted")
    sys.exit(1)
print("property held")
sys.exit(0)
