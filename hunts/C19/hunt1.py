"""C19 / raise_warning: a DataFrame-level check that returns a boolean DataFrame
crashes in postprocess_table when the validated frame has a MultiIndex, so
raise_warning=True raises a SchemaError instead of warning."""
import sys; sys.path.insert(0, "/repo")
import warnings
import pandas as pd
import pandera as pa
from pandera import Check

data = {"a": [1, -2], "b": [3, 4]}
flat = pd.DataFrame(data)
multi = pd.DataFrame(
    data, index=pd.MultiIndex.from_tuples([("x", 1), ("y", 2)], names=["k1", "k2"])
)
schema = pa.DataFrameSchema(checks=Check.gt(0, raise_warning=True))


def outcome(df):
    with warnings.catch_warnings(record=True) as caught:
        warnings.simplefilter("always")
        try:
            schema.validate(df)
        except Exception as exc:  # noqa
            return "RAISED", type(exc).__name__, str(exc).splitlines()[0][:120], getattr(exc, "reason_code", None)
        n = sum(issubclass(w.category, pa.errors.SchemaWarning) for w in caught)
        return "RETURNED", f"{n} SchemaWarning(s)"


flat_out = outcome(flat)
multi_out = outcome(multi)
print("default RangeIndex :", flat_out)
print("MultiIndex         :", multi_out)

violated = flat_out[0] == "RETURNED" and multi_out[0] == "RAISED"
if violated:
    print("VIOLATION: raise_warning=True check raised on a MultiIndex frame "
          "(same values only warn with a flat index)")
    sys.exit(1)
print("property held")
sys.exit(0)
