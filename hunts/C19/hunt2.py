"""C19 / groupby: a callable `groupby` (documented signature DataFrame -> DataFrameGroupBy)
that groups by ONE column whose keys are not strings (int, Timestamp, ...) crashes in
_format_groupby_input with `TypeError: object of type 'int' has no len()`.
The string form groupby="g" on the same data works."""
import sys; sys.path.insert(0, "/repo")
import pandas as pd
import pandera as pa
from pandera import Check

df = pd.DataFrame({"v": [1.0, 2.0, 3.0, 4.0], "g": [1, 1, 2, 2]})
fn = lambda groups: groups[1].mean() < groups[2].mean()  # true for this data


def outcome(groupby):
    schema = pa.DataFrameSchema(
        {"v": pa.Column(float, Check(fn, groupby=groupby)), "g": pa.Column(int)}
    )
    try:
        schema.validate(df)
        return "PASS"
    except Exception as exc:  # noqa
        return f"{type(exc).__name__}: {str(exc).splitlines()[0][:110]}"


by_name = outcome("g")
by_callable = outcome(lambda d: d.groupby("g"))
print('groupby="g"                     :', by_name)
print('groupby=lambda d: d.groupby("g"):', by_callable)

# Timestamp keys, direct Check call
pa.SeriesSchema(int).validate(pd.Series([1]))  # registers the pandas backends
df_ts = pd.DataFrame({"v": [1.0, 2.0], "g": pd.to_datetime(["2020-01-01", "2020-01-02"])})
try:
    Check(lambda groups: True, groupby=lambda d: d.groupby("g"))(df_ts, "v")
    ts = "PASS"
except Exception as exc:  # noqa
    ts = f"{type(exc).__name__}: {exc}"
print("Timestamp keys, callable groupby:", ts)

if by_name == "PASS" and by_callable != "PASS":
    print("VIOLATION: equivalent groupby specifications give different outcomes")
    sys.exit(1)
print("property held")
sys.exit(0)
