import sys; sys.path.insert(0, "/repo")
import polars as pl
import pandera.polars as pa
from pandera.errors import SchemaError, SchemaErrors

d = pl.DataFrame({"a": [-1, 2, -3, 4, -5, 6]})
schema = pa.DataFrameSchema(
    {"a": pa.Column(int, pa.Check.ge(0))}, drop_invalid_rows=True
)

def run(**kw):
    try:
        return schema.validate(d, lazy=True, **kw)["a"].to_list()
    except (SchemaError, SchemaErrors) as e:
        return "schema error: %s" % e
    except Exception as e:
        return "%s: %s" % (type(e).__name__, e)

full = run()
print("no subsampling ->", full)            # [2, 4, 6]
bad = False
for kw in ({"head": 2}, {"tail": 2}, {"head": 1, "tail": 1}):
    r = run(**kw)
    print(kw, "->", r)
    # expected: the whole frame minus the invalid rows among the selected ones,
    # e.g. head=2 -> [2, -3, 4, -5, 6]; never an internal polars exception
    if isinstance(r, str):
        bad = True

# selecting every row must behave like no subsampling
r = run(head=6)
print({"head": 6}, "->", r, "(expected %s)" % full)
if r != full:
    bad = True

print("VIOLATION" if bad else "property held")
sys.exit(1 if bad else 0)
