import sys; sys.path.insert(0, "/repo")
import pandas as pd
import pandera as pa

df = pd.DataFrame({"a": [-1, -2, -3, -4]})
schema = pa.DataFrameSchema(
    {"a": pa.Column(int, pa.Check.ge(0), parsers=pa.Parser(lambda s: s.abs()))}
)

full = schema.validate(df)["a"].tolist()
h2 = schema.validate(df, head=2)["a"].tolist()
h4 = schema.validate(df, head=4)["a"].tolist()
t1s = schema.validate(df, tail=1, sample=1, random_state=0)["a"].tolist()
print("no subsampling        ->", full)
print("head=2                ->", h2)
print("head=4 (= all rows)   ->", h4)
print("tail=1, sample=1      ->", t1s)

# the dataframe-level parser and the stand-alone Column do parse the whole frame
s_df = pa.DataFrameSchema({"a": pa.Column(int)}, parsers=pa.Parser(lambda d: d.abs()))
print("df-level parser head=2->", s_df.validate(df, head=2)["a"].tolist())
col = pa.Column(int, name="a", parsers=pa.Parser(lambda s: s.abs()))
print("Column.validate head=2->", col.validate(df, head=2)["a"].tolist())

bad = (h2 != full) or (h4 != full) or (t1s != full)
print("VIOLATION: column parser output is discarded when subsampling" if bad else "property held")
sys.exit(1 if bad else 0)
