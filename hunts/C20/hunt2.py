import sys; sys.path.insert(0, "/repo")
import polars as pl
import pandera.polars as pa
from pandera.errors import SchemaError, SchemaErrors

def verdict(f):
    try:
        r = f(); return "PASS (%d rows returned)" % r.height
    except (SchemaError, SchemaErrors) as e:
        return "FAIL: " + str(e).splitlines()[0][:100]

bad = False

# (a) uniqueness check is neutralised: duplicates in the data are removed
d = pl.DataFrame({"a": [1, 1, 2]})
schema = pa.DataFrameSchema({"a": pa.Column(int, unique=True)})
v_all = verdict(lambda: schema.validate(d))
v_head = verdict(lambda: schema.validate(d, head=3))
v_expl = verdict(lambda: schema.validate(d.head(3)))
print("(a) no subsampling     :", v_all)
print("(a) head=len(D)=3      :", v_head)
print("(a) explicit d.head(3) :", v_expl)
if v_head.startswith("PASS") and v_all.startswith("FAIL"):
    bad = True

# (b) a custom check that counts rows sees fewer rows than were selected
d2 = pl.DataFrame({"a": [7, 7, 7, 7]})
chk = pa.Check(lambda data: data.lazyframe.select(pl.col(data.key).len().eq(4)))
schema2 = pa.DataFrameSchema({"a": pa.Column(int, chk)})
w_all = verdict(lambda: schema2.validate(d2))
w_head = verdict(lambda: schema2.validate(d2, head=4))
print("(b) no subsampling     :", w_all)
print("(b) head=len(D)=4      :", w_head)
if w_all.startswith("PASS") and w_head.startswith("FAIL"):
    bad = True

# (c) .unique() does not keep row order: an order-dependent check on sorted
#     data is rejected although all rows are selected
n = 5000
d3 = pl.DataFrame({"a": list(range(n))})
inc = pa.Check(lambda data: data.lazyframe.select(
    pl.col(data.key).diff().fill_null(1).gt(0)), name="increasing")
schema3 = pa.DataFrameSchema({"a": pa.Column(int, inc)})
o_all = verdict(lambda: schema3.validate(d3))
o_head = verdict(lambda: schema3.validate(d3, head=n))
print("(c) no subsampling     :", o_all)
print("(c) head=len(D)=5000   :", o_head)
if o_all.startswith("PASS") and o_head.startswith("FAIL"):
    bad = True

print("VIOLATION" if bad else "property held")
sys.exit(1 if bad else 0)
