import sys; sys.path.insert(0, "/repo")
import pandas as pd
import pandera as pa

def verdict(f):
    try:
        r = f(); return "PASS (%d rows returned)" % len(r)
    except (pa.errors.SchemaError, pa.errors.SchemaErrors) as e:
        return "FAIL: " + str(e).splitlines()[0][:120]

bad = False

# (a) value check is skipped for rows whose index label repeats
df = pd.DataFrame({"a": [1, 2, -1]}, index=[0, 0, 0])
schema = pa.DataFrameSchema({"a": pa.Column(int, pa.Check.ge(0))})
v_all = verdict(lambda: schema.validate(df))
v_head = verdict(lambda: schema.validate(df, head=3))
v_expl = verdict(lambda: schema.validate(df.iloc[:3]))
print("(a) no subsampling      :", v_all)
print("(a) head=len(D)=3       :", v_head)
print("(a) explicit df.iloc[:3]:", v_expl)
if v_head.startswith("PASS") and v_all.startswith("FAIL"):
    bad = True

# (b) same root cause: Index(unique=True) can never fail under subsampling
df2 = pd.DataFrame({"a": [1, 2, 3]}, index=[0, 0, 1])
schema2 = pa.DataFrameSchema({"a": pa.Column(int)}, index=pa.Index(int, unique=True))
w_all = verdict(lambda: schema2.validate(df2))
w_head = verdict(lambda: schema2.validate(df2, head=3))
print("(b) no subsampling      :", w_all)
print("(b) head=len(D)=3       :", w_head)
if w_head.startswith("PASS") and w_all.startswith("FAIL"):
    bad = True

# (c) SeriesSchema, tail
s = pd.Series([5, -5], index=["x", "x"])
ss = pa.SeriesSchema(int, pa.Check.ge(0))
print("(c) series no subsample :", verdict(lambda: ss.validate(s)))
print("(c) series tail=2       :", verdict(lambda: ss.validate(s, tail=2)))

print("VIOLATION" if bad else "property held")
sys.exit(1 if bad else 0)
