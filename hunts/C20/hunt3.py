import sys; sys.path.insert(0, "/repo")
import polars as pl
import pandera.polars as pa
from pandera.errors import SchemaError, SchemaErrors

d = pl.DataFrame({"a": [1, 2, 3, 4]})
schema = pa.DataFrameSchema({"a": pa.Column(int, pa.Check.ge(0))})

print("no subsampling:", schema.validate(d).height, "rows, PASS")
bad = False
for label, obj in [("pl.DataFrame", d), ("pl.LazyFrame", d.lazy())]:
    try:
        out = schema.validate(obj, sample=2, random_state=0)
        print(label, "sample=2: PASS")
    except (SchemaError, SchemaErrors) as e:
        print(label, "sample=2: schema error", e)
    except Exception as e:  # not a validation verdict at all
        print(label, "sample=2 ->", type(e).__name__ + ":", e)
        bad = True

# the component API has the same problem
try:
    pa.Column(int, name="a").validate(d.lazy(), sample=2, random_state=0)
except Exception as e:
    print("Column.validate sample=2 ->", type(e).__name__ + ":", e)

print("VIOLATION" if bad else "property held")
sys.exit(1 if bad else 0)
