"""check_types: a single value captured by *args is neither validated nor
passed through unchanged (it arrives wrapped in an extra tuple)."""
import sys; sys.path.insert(0, "/repo")
import warnings; warnings.filterwarnings("ignore")
import pandas as pd
import pandera as pa
from pandera.typing import DataFrame


class S(pa.DataFrameModel):
    a: int = pa.Field(ge=0)


bad = pd.DataFrame({"a": [1, 2, -3]})
calls = []


def body(x, *frames: DataFrame[S]):
    calls.append(frames)
    return frames


decorated = pa.check_types(body)
violations = []

# (a) plain transparency, no dataframe involved at all
@pa.check_types
def plain(x, *rest):
    return rest

got, want = plain(1, 2), (2,)
print("plain(1, 2): decorated rest =", got, " undecorated rest =", want)
if got != want:
    violations.append("single *args value arrives as a nested tuple")

# (b) two invalid frames in *frames are rejected (reference behaviour) ...
try:
    decorated(0, bad, bad)
    print("two invalid frames: body ran (unexpected)")
except pa.errors.SchemaError:
    print("two invalid frames: SchemaError, body not run (correct)")

# ... but ONE invalid frame is let through unvalidated
calls.clear()
try:
    out = decorated(0, bad)
    print("one invalid frame: body ran, frames =", [type(f).__name__ for f in out])
    violations.append("body executed although the *args frame is invalid")
    if not isinstance(out[0], pd.DataFrame):
        violations.append("body received a tuple instead of the frame")
except pa.errors.SchemaError:
    print("one invalid frame: SchemaError (correct)")

print("VIOLATIONS:", violations)
sys.exit(1 if violations else 0)
