"""check_input / check_io with a *named* argument re-packs *args as one tuple."""
import sys; sys.path.insert(0, "/repo")
import warnings; warnings.filterwarnings("ignore")
import pandas as pd
import pandera as pa

schema = pa.DataFrameSchema({"a": pa.Column(int)})
df = pd.DataFrame({"a": [1, 2, 3]})


def body(df, *extra, flag=False):
    return extra


want = body(df, 1, 2)
violations = []
for label, dec in [
    ("check_input(schema, 'df')", pa.check_input(schema, "df")),
    ("check_io(df=schema)", pa.check_io(df=schema)),
    ("check_input(schema)        [default first arg]", pa.check_input(schema)),
    ("check_input(schema, 0)     [int]", pa.check_input(schema, 0)),
]:
    got = dec(body)(df, 1, 2)
    print(f"{label}: extra = {got!r}   (undecorated: {want!r})")
    if got != want:
        violations.append(label)

# keyword call shape is fine, so equivalent call shapes disagree too
print("by keyword:", pa.check_input(schema, "df")(body)(df=df))

print("VIOLATIONS:", violations)
sys.exit(1 if violations else 0)
