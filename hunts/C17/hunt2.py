"""check_types skips validation whenever frame.pandera.schema == schema, but
that marker is (1) attached BEFORE validation, (2) survives in-place
mutation and (3) is attached even when only head=n rows were checked."""
import sys; sys.path.insert(0, "/repo")
import warnings; warnings.filterwarnings("ignore")
import pandas as pd
import pandera as pa
from pandera.typing import DataFrame


class S(pa.DataFrameModel):
    a: int = pa.Field(ge=0)


violations = []

# (1) output is never validated if the body returns the (mutated) input frame
@pa.check_types
def negate(df: DataFrame[S]) -> DataFrame[S]:
    df["a"] = -df["a"] - 1       # makes every value negative -> violates ge=0
    return df

try:
    out = negate(pd.DataFrame({"a": [1, 2, 3]}))
    print("(1) invalid output reached the caller:", out["a"].tolist())
    violations.append("output DataFrame[S] with a<0 returned without SchemaError")
except pa.errors.SchemaError:
    print("(1) SchemaError on output (correct)")

# same function body under check_output does raise -> this is the reference
try:
    pa.check_output(S.to_schema())(lambda df: df.assign(a=-1))(pd.DataFrame({"a": [1]}))
    print("    reference check_output: no error?!")
except pa.errors.SchemaError:
    print("    reference check_output on the same data: SchemaError")

# (2) inplace=True: a REJECTED frame is accepted on the second identical call
ran = []

@pa.check_types(inplace=True)
def consume(df: DataFrame[S]):
    ran.append(df["a"].tolist())
    return "ran"

bad = pd.DataFrame({"a": [1, 2, -3]})
results = []
for i in range(2):
    try:
        results.append(consume(bad))
    except pa.errors.SchemaError:
        results.append("SchemaError")
print("(2) two identical calls consume(bad) ->", results, " body saw:", ran)
if results != ["SchemaError", "SchemaError"]:
    violations.append("body executed with an input that was rejected a moment ago")

# (3) head=1 validation marks the whole frame as validated
@pa.check_types(head=1)
def peek(df: DataFrame[S]) -> DataFrame[S]:
    return df

@pa.check_types
def strict(df: DataFrame[S]):
    return "ran"

bad2 = pd.DataFrame({"a": [1, 2, -3]})
try:
    strict(bad2.copy()); direct = "ran"
except pa.errors.SchemaError:
    direct = "SchemaError"
try:
    chained = strict(peek(bad2.copy()))
except pa.errors.SchemaError:
    chained = "SchemaError"
print("(3) strict(bad) ->", direct, "; strict(peek(bad)) ->", chained)
if chained != "SchemaError":
    violations.append("full validation skipped after a head=1 validation")

print("VIOLATIONS:", violations)
sys.exit(1 if violations else 0)
