"""check_output / check_io with an int obj_getter turns a namedtuple result
into a plain tuple."""
import sys; sys.path.insert(0, "/repo")
import warnings; warnings.filterwarnings("ignore")
from typing import NamedTuple
import pandas as pd
import pandera as pa

schema = pa.DataFrameSchema({"a": pa.Column(int)})


class Result(NamedTuple):
    frame: pd.DataFrame
    n_rows: int


def body(df):
    return Result(df, len(df))


df = pd.DataFrame({"a": [1, 2, 3]})
violations = []
for label, dec in [
    ("check_output(schema, 0)", pa.check_output(schema, 0)),
    ("check_io(out=(0, schema))", pa.check_io(out=(0, schema))),
    ("check_output(schema, lambda r: r.frame)", pa.check_output(schema, lambda r: r.frame)),
]:
    out = dec(body)(df)
    print(f"{label}: returns {type(out).__name__} (undecorated: {type(body(df)).__name__})")
    try:
        out.frame
    except AttributeError as exc:
        print("   out.frame ->", type(exc).__name__, exc)
        violations.append(label)
print("VIOLATIONS:", violations)
sys.exit(1 if violations else 0)
