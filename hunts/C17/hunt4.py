"""check_input(schema, "df") on a method: omitting ONE trailing default
argument shifts the binding, so `self` is validated instead of the frame."""
import sys; sys.path.insert(0, "/repo")
import warnings; warnings.filterwarnings("ignore")
import pandas as pd
import pandera as pa

schema = pa.DataFrameSchema({"a": pa.Column(int, pa.Check.ge(0))})
good = pd.DataFrame({"a": [1, 2, 3]})


class Pipeline:
    @pa.check_input(schema, "df")
    def by_name(self, df, scale=1):
        return ("ran", type(df).__name__, scale)

    @pa.check_io(df=schema)
    def by_io(self, df, scale=1):
        return ("ran", type(df).__name__, scale)

    @pa.check_input(schema)
    def by_default(self, df, scale=1):
        return ("ran", type(df).__name__, scale)

    @pa.check_input(schema, 0)
    def by_index(self, df, scale=1):
        return ("ran", type(df).__name__, scale)


p = Pipeline()
want = ("ran", "DataFrame", 1)
violations = []
for name in ["by_default", "by_index", "by_name", "by_io"]:
    try:
        got = getattr(p, name)(good)
    except Exception as exc:  # noqa
        got = f"{type(exc).__name__}: {str(exc)[:90]}..."
    print(f"p.{name}(good) -> {got}")
    if got != want:
        violations.append(name)
print("p.by_name(good, 1) ->", p.by_name(good, 1), "(explicit default works)")
print("p.by_name(df=good) ->", p.by_name(df=good), "(keyword works)")
print("VIOLATIONS:", violations)
sys.exit(1 if violations else 0)
