"""C07 / hunt3: validating a Series / Index with a Hypothesis check writes
`groups` on the Hypothesis object of the shared schema
(PandasHypothesisBackend.preprocess: `self.check.groups = self.check.samples`).

After the concurrent calls the schema is not what it was before: the check's
`groups` attribute went from None to [] (a fingerprint of the schema taken
before the threads started no longer matches).
"""
import sys

sys.path.insert(0, "/repo")
import threading
import warnings

warnings.simplefilter("ignore")

import pandas as pd
import pandera as pa

schema = pa.SeriesSchema(
    float,
    pa.Hypothesis.one_sample_ttest(popmean=0, relationship="greater_than", alpha=0.5),
    name="x",
)
frame_schema = pa.DataFrameSchema(
    {"v": pa.Column(int)},
    index=pa.Index(
        float,
        pa.Hypothesis.one_sample_ttest(popmean=0, relationship="greater_than", alpha=0.5),
    ),
)
series = pd.Series([1.0, 2.0, 3.0], name="x")
frame = pd.DataFrame({"v": [1, 2, 3]}, index=[1.0, 2.0, 3.0])

# warm-up with *other* schema objects so that lazily registered back-ends do not
# count as a difference
pa.SeriesSchema(float, pa.Check.gt(0)).validate(series)



def fingerprint(check):
    return sorted((k, repr(v)) for k, v in vars(check).items() if k not in ("_check_fn", "test"))


groups_before = (schema.checks[0].groups, frame_schema.index.checks[0].groups)
fp_before = (fingerprint(schema.checks[0]), fingerprint(frame_schema.index.checks[0]))

results = {}


def run(key, fn):
    try:
        results[key] = ("returned", fn().to_json())
    except BaseException as exc:  # pylint: disable=broad-except
        results[key] = ("raised", type(exc).__name__, str(exc)[:200])


threads = [
    threading.Thread(target=run, args=("s1", lambda: schema.validate(series))),
    threading.Thread(target=run, args=("s2", lambda: schema.validate(series))),
    threading.Thread(target=run, args=("f1", lambda: frame_schema.validate(frame))),
]
for t in threads:
    t.start()
for t in threads:
    t.join()

groups_after = (schema.checks[0].groups, frame_schema.index.checks[0].groups)
fp_after = (fingerprint(schema.checks[0]), fingerprint(frame_schema.index.checks[0]))
for k, v in results.items():
    print(k, "->", v)
print("check.groups before:", groups_before)
print("check.groups after :", groups_after)
print("check attribute fingerprints unchanged:", fp_before == fp_after)

if groups_before != groups_after or fp_before != fp_after:
    print("VIOLATION: the schemas are not what they were before the validate calls")
    sys.exit(1)
print("property held")
sys.exit(0)
