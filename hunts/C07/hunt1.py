"""C07 / hunt1: two threads validate with the same (not yet materialised)
DataFrameModel.  DataFrameModel.to_schema() iterates vars(cls) while another
thread's to_schema() adds class attributes (__checks__, __root_checks__, ...)
-> RuntimeError("dictionary changed size during iteration") instead of the
outcome the call has when run alone.

The interleaving is forced deterministically with sys.settrace (no library
code is modified): thread A is parked inside the `for ... in vars(base).items()`
loop of DataFrameModel._collect_check_infos, thread B then runs its whole
validate call, then A resumes.
"""
import sys

sys.path.insert(0, "/repo")
import linecache
import threading
import warnings

warnings.simplefilter("ignore")

import pandas as pd
import pandera as pa


def make_model():
    class Model(pa.DataFrameModel):
        a: int = pa.Field(gt=0)
        b: str

        @pa.check("a")
        def a_is_even(cls, series):  # pylint: disable=no-self-argument
            return series % 2 == 0

    return Model


df = pd.DataFrame({"a": [2, 4], "b": ["x", "y"]})


def outcome(fn):
    try:
        out = fn()
        return ("returned", out.to_json())
    except BaseException as exc:  # pylint: disable=broad-except
        return ("raised", type(exc).__name__, str(exc))


# ---- the outcome of each call when it runs alone
solo = outcome(lambda: make_model().validate(df))
print("solo outcome      :", solo)

# ---- the same two calls, interleaved
Model = make_model()
a_parked = threading.Event()
b_done = threading.Event()
state = {"parked": False}


def tracer_a(frame, event, arg):
    code = frame.f_code
    if code.co_name != "_collect_check_infos" or not code.co_filename.endswith(
        "pandera/api/dataframe/model.py"
    ):
        return tracer_a if code.co_filename.startswith("/repo/pandera") else None

    def local(frame, event, arg):
        if event == "line" and not state["parked"]:
            src = linecache.getline(code.co_filename, frame.f_lineno)
            # first statement inside `for attr_name, attr_value in vars(base).items():`
            if "getattr(attr_value, key" in src:
                state["parked"] = True
                a_parked.set()  # A is preempted here ...
                b_done.wait(30)  # ... and resumes after B's call has finished
        return local

    return local


results = {}


def thread_a():
    sys.settrace(tracer_a)
    try:
        results["A"] = outcome(lambda: Model.validate(df))
    finally:
        sys.settrace(None)


def thread_b():
    a_parked.wait(30)
    try:
        results["B"] = outcome(lambda: Model.validate(df))
    finally:
        b_done.set()


ta = threading.Thread(target=thread_a)
tb = threading.Thread(target=thread_b)
ta.start()
tb.start()
ta.join(60)
tb.join(60)

print("A was preempted in the vars(cls) loop:", state["parked"])
print("thread A outcome  :", results.get("A"))
print("thread B outcome  :", results.get("B"))

violated = results.get("A") != solo or results.get("B") != solo
if violated:
    print("VIOLATION: an interleaved call did not return what it returns alone")
    sys.exit(1)
print("property held")
sys.exit(0)
