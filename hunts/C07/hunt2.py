"""C07 / hunt2: validating rewrites Check._check_fn on the shared schema.

Check.__call__ does `self._check_fn = self.get_builtin_check_fn(self.name)`
whenever the *name* of the check is the name of a built-in check.  The write
goes to the Check object held by the schema every thread is validating with:

 (a) a user check whose function merely happens to be called like a built-in
     (`def in_range(s): ...`) is permanently replaced by the built-in
     dispatcher: the schema after the calls is not the schema before, and valid
     data is rejected with a CHECK_ERROR;
 (b) a genuine built-in check (Check.gt) gets its dispatcher object swapped,
     so after the first validation the schema no longer compares equal to the
     deep copy taken before the threads started.
"""
import sys

sys.path.insert(0, "/repo")
import copy
import threading
import warnings

warnings.simplefilter("ignore")

import pandas as pd
import pandera as pa


def in_range(series):  # an ordinary user check, takes only the series
    return series.between(0, 1)


schema_a = pa.DataFrameSchema({"p": pa.Column(float, pa.Check(in_range))})
schema_b = pa.DataFrameSchema({"n": pa.Column(int, pa.Check.gt(0))})
df_a = pd.DataFrame({"p": [0.25, 0.75]})  # satisfies in_range() above
df_b = pd.DataFrame({"n": [1, 2]})


def fingerprint(schema):
    return {
        col: [(c.name, type(c._check_fn).__name__, id(c._check_fn)) for c in column.checks]
        for col, column in schema.columns.items()
    }


before = {"a": fingerprint(schema_a), "b": fingerprint(schema_b)}
copy_before = {"a": copy.deepcopy(schema_a), "b": copy.deepcopy(schema_b)}
user_fn_before = schema_a.columns["p"].checks[0]._check_fn

results = {}


def run(key, schema, df):
    try:
        results[key] = ("returned", schema.validate(df).to_json())
    except BaseException as exc:  # pylint: disable=broad-except
        results[key] = ("raised", type(exc).__name__, str(exc).splitlines()[0])


threads = [
    threading.Thread(target=run, args=("a1", schema_a, df_a)),
    threading.Thread(target=run, args=("a2", schema_a, df_a)),
    threading.Thread(target=run, args=("b1", schema_b, df_b)),
]
for t in threads:
    t.start()
for t in threads:
    t.join()

after = {"a": fingerprint(schema_a), "b": fingerprint(schema_b)}
for k, v in results.items():
    print(k, "->", v)
print("schema_a check fn before:", user_fn_before)
print("schema_a check fn after :", schema_a.columns["p"].checks[0]._check_fn,
      type(schema_a.columns["p"].checks[0]._check_fn))
print("schema_a fingerprint unchanged:", before["a"] == after["a"])
print("schema_b fingerprint unchanged:", before["b"] == after["b"])
print("schema_b == deep copy taken before:", schema_b == copy_before["b"])

violations = []
if before["a"] != after["a"]:
    violations.append("user check function of schema_a replaced by validate()")
if results["a1"][0] != "returned" or results["a2"][0] != "returned":
    violations.append("valid data rejected because the user check was swapped for the built-in")
if before["b"] != after["b"] or schema_b != copy_before["b"]:
    violations.append("schema_b differs from its state before the calls")

if violations:
    for v in violations:
        print("VIOLATION:", v)
    sys.exit(1)
print("property held")
sys.exit(0)
