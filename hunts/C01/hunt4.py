"""C01 hunt 4: joint uniqueness (DataFrameSchema(unique=[...]) / MultiIndex(unique=[...]))
raises a bare ValueError instead of SchemaError(s) when the offending rows share an index
label - e.g. the duplicated rows produced by pd.concat([df, df])."""
import sys

sys.path.insert(0, "/repo")
import warnings

warnings.filterwarnings("ignore")

import pandas as pd
import pandera as pa


def verdict(schema, df, **kw):
    try:
        schema.validate(df, **kw)
        return "ACCEPT"
    except (pa.errors.SchemaError, pa.errors.SchemaErrors) as exc:
        return "REJECT (" + type(exc).__name__ + ")"
    except Exception as exc:  # pylint: disable=broad-except
        return f"CRASH {type(exc).__name__}: {exc}"


schema = pa.DataFrameSchema(
    {"a": pa.Column(int), "b": pa.Column(int)}, unique=["a", "b"]
)
chunk = pd.DataFrame({"a": [1, 2], "b": [3, 4]})
dup_rows = pd.concat([chunk, chunk])  # index labels 0,1,0,1 ; rows duplicated
control = dup_rows.reset_index(drop=True)  # same rows, unique index

results = {
    "unique index, eager": verdict(schema, control),
    "unique index, lazy": verdict(schema, control, lazy=True),
    "concat index, eager": verdict(schema, dup_rows),
    "concat index, lazy": verdict(schema, dup_rows, lazy=True),
}

# the sibling: MultiIndex(unique=[...]) - duplicated index tuples are by definition
# rows with the same index label, so the constraint can never be reported.
mi_schema = pa.DataFrameSchema(
    index=pa.MultiIndex(
        [pa.Index(int, name="i"), pa.Index(str, name="j")], unique=["i", "j"]
    )
)
mi_df = pd.DataFrame(
    {"v": [1, 2]},
    index=pd.MultiIndex.from_arrays([[1, 1], ["x", "x"]], names=["i", "j"]),
)
results["MultiIndex(unique=['i','j']), lazy"] = verdict(mi_schema, mi_df, lazy=True)

for k, v in results.items():
    print(f"{k:40s} -> {v}")

if any(v.startswith("CRASH") for v in results.values()):
    print("VIOLATION: constraint violation surfaces as a non-pandera exception")
    sys.exit(1)
sys.exit(0)
