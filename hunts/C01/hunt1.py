"""C01 hunt 1: head/tail/sample de-duplicate rows by index *label*, so rows that
share an index label with an earlier row are silently excluded from validation."""
import sys

sys.path.insert(0, "/repo")
import warnings

warnings.filterwarnings("ignore")

import pandas as pd
import pandera as pa

# two chunks appended without ignore_index=True -> index labels 0,1,0,1
good = pd.DataFrame({"a": [1, 2]})
bad = pd.DataFrame({"a": [-1, -2]})
df = pd.concat([good, bad])
print(df)

schema = pa.DataFrameSchema(
    {"a": pa.Column(int, pa.Check.gt(0))},
    index=pa.Index(int, unique=True),
)


def verdict(**kw):
    try:
        schema.validate(df, **kw)
        return "ACCEPT"
    except (pa.errors.SchemaError, pa.errors.SchemaErrors) as exc:
        return "REJECT: " + str(exc).splitlines()[0][:100]


full = verdict()
head = verdict(head=4)  # "validate the first 4 rows" == every row of df
tail = verdict(tail=4)
print("validate(df)         ->", full)
print("validate(df, head=4) ->", head)
print("validate(df, tail=4) ->", tail)

# the first 4 rows ARE the whole frame: rows 2,3 violate gt(0) and the index
# is not unique, so head=4 must reject exactly like the full validation.
if full.startswith("REJECT") and (head == "ACCEPT" or tail == "ACCEPT"):
    print("VIOLATION: invalid rows inside the head/tail window were not validated")
    sys.exit(1)
sys.exit(0)
