"""C01 hunt 3: DataFrameSchema(dtype=...) silently replaces the dtype declared on the
index component, so Index(str) is checked as if it were Index(int)."""
import sys

sys.path.insert(0, "/repo")
import warnings

warnings.filterwarnings("ignore")

import pandas as pd
import pandera as pa


def verdict(schema, df, **kw):
    try:
        schema.validate(df, **kw)
        return "ACCEPT"
    except (pa.errors.SchemaError, pa.errors.SchemaErrors) as exc:
        return "REJECT: " + str(exc).splitlines()[0][:90]


# all columns are int64 (dataframe-level dtype), the index holds string keys
schema = pa.DataFrameSchema(
    columns={"a": pa.Column(), "b": pa.Column()},
    dtype=int,
    index=pa.Index(str, name="key"),
)
same_without_df_dtype = pa.DataFrameSchema(
    columns={"a": pa.Column(int), "b": pa.Column(int)},
    index=pa.Index(str, name="key"),
)

str_idx = pd.DataFrame({"a": [1, 2], "b": [3, 4]}, index=pd.Index(["x", "y"], name="key"))
int_idx = pd.DataFrame({"a": [1, 2], "b": [3, 4]}, index=pd.Index([10, 20], name="key"))

r_ref_ok = verdict(same_without_df_dtype, str_idx)
r_ref_bad = verdict(same_without_df_dtype, int_idx)
r_ok = verdict(schema, str_idx)
r_bad = verdict(schema, int_idx)
print("per-column int, Index(str): str index ->", r_ref_ok)
print("per-column int, Index(str): int index ->", r_ref_bad)
print("dtype=int,      Index(str): str index ->", r_ok)
print("dtype=int,      Index(str): int index ->", r_bad)
print("schema.index.dtype is still:", schema.index.dtype)

if r_ok != "ACCEPT" or r_bad == "ACCEPT":
    print("VIOLATION: dataframe-level dtype overrode the dtype declared on the Index")
    sys.exit(1)
sys.exit(0)
