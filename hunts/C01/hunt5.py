"""C01 hunt 5: a column declared datetime64[ns] (or timedelta64[ns]) accepts data whose
physical dtype is datetime64[s] / [ms] / [us]; the tz-aware sibling rejects it."""
import sys

sys.path.insert(0, "/repo")
import warnings

warnings.filterwarnings("ignore")

import numpy as np
import pandas as pd
import pandera as pa


def verdict(schema, df):
    try:
        out = schema.validate(df)
        return "ACCEPT (returned dtype %s)" % out.dtypes.iloc[0]
    except (pa.errors.SchemaError, pa.errors.SchemaErrors) as exc:
        return "REJECT: " + str(exc).splitlines()[0][:90]


# second-resolution timestamps, e.g. from numpy or from a parquet/arrow file
df_s = pd.DataFrame({"t": np.array(["2020-01-01", "2020-01-02"], dtype="datetime64[s]")})
df_ns = df_s.astype("datetime64[ns]")
print("physical dtypes:", df_s.t.dtype, "/", df_ns.t.dtype)

naive = pa.DataFrameSchema({"t": pa.Column("datetime64[ns]")})
print("declared dtype :", naive.columns["t"].dtype)
r_ns = verdict(naive, df_ns)
r_s = verdict(naive, df_s)
print("Column('datetime64[ns]') on datetime64[ns] ->", r_ns)
print("Column('datetime64[ns]') on datetime64[s]  ->", r_s)

# sibling implementation: tz-aware datetimes do distinguish the unit
aware = pa.DataFrameSchema({"t": pa.Column(pd.DatetimeTZDtype("ns", "UTC"))})
df_s_utc = df_s.assign(t=df_s.t.dt.tz_localize("UTC"))
print("tz-aware data dtype:", df_s_utc.t.dtype)
r_tz = verdict(aware, df_s_utc)
print("Column('datetime64[ns, UTC]') on datetime64[s, UTC] ->", r_tz)

# same for timedelta
td = pd.DataFrame({"t": np.array([1, 2], dtype="timedelta64[s]")})
r_td = verdict(pa.DataFrameSchema({"t": pa.Column("timedelta64[ns]")}), td)
print("Column('timedelta64[ns]') on", td.t.dtype, "->", r_td)

# the engine erases the unit of the *data* dtype before comparing
print("Engine.dtype(datetime64[s]) =", repr(pa.engines.pandas_engine.Engine.dtype(df_s.t.dtype)))

if r_ns.startswith("ACCEPT") and r_s.startswith("ACCEPT"):
    print("VIOLATION: wrong physical dtype datetime64[s] accepted for declared datetime64[ns]")
    sys.exit(1)
sys.exit(0)
