"""C01 hunt 2: unique_column_names=True does not detect duplicated column labels
that are falsy (0, 0.0, False, "")."""
import sys

sys.path.insert(0, "/repo")
import warnings

warnings.filterwarnings("ignore")

import pandas as pd
import pandera as pa


def verdict(schema, df):
    try:
        schema.validate(df)
        return "ACCEPT"
    except (pa.errors.SchemaError, pa.errors.SchemaErrors) as exc:
        return "REJECT: " + str(exc).splitlines()[0][:90]
    except Exception as exc:  # pylint: disable=broad-except
        return f"CRASH {type(exc).__name__}: {exc}"


schema = pa.DataFrameSchema(unique_column_names=True)

# control: duplicated truthy label is detected
ctrl = verdict(schema, pd.DataFrame([[1, 2, 3]], columns=[1, 1, 0]))
print("columns [1, 1, 0]   ->", ctrl)

# default integer labels, e.g. pd.concat([s1, s2], axis=1) of unnamed series
s = pd.Series([1, 2, 3])
df0 = pd.concat([s.rename(0), s.rename(0)], axis=1)
r0 = verdict(schema, df0)
print("columns [0, 0]      ->", r0)

r1 = verdict(schema, pd.DataFrame([[1, 2]], columns=["", ""]))
print("columns ['', '']    ->", r1)

# same expression also crashes on a perfectly valid frame with MultiIndex columns
mi = pd.DataFrame([[1, 2]], columns=pd.MultiIndex.from_tuples([("a", "x"), ("a", "y")]))
r2 = verdict(schema, mi)
print("MultiIndex columns (no duplicates) ->", r2)

if ctrl.startswith("REJECT") and (r0 == "ACCEPT" or r1 == "ACCEPT"):
    print("VIOLATION: duplicated column labels accepted although unique_column_names=True")
    sys.exit(1)
sys.exit(0)
