"""C08: validate(head=n) - polars subsample de-duplicates ROWS BY VALUE
(`pl.concat(...).unique()`), so a uniqueness violation inside the head is
invisible on polars while pandas reports it."""
import sys
sys.path.insert(0, "/repo")
import warnings; warnings.filterwarnings("ignore")
import pandas as pd
import polars as pl
import pandera as pa
import pandera.polars as pp
from pandera.errors import SchemaErrors

rows = {"a": [1, 1, 2]}


def verdict(mod, df, **kw):
    schema = mod.DataFrameSchema({"a": mod.Column(int, unique=True)})
    try:
        schema.validate(df, lazy=True, **kw)
        return "ACCEPT", []
    except SchemaErrors as exc:
        fc = exc.failure_cases
        return "REJECT", sorted(
            (str(c), int(i), str(k))
            for c, i, k in zip(fc["column"], fc["index"], fc["check"])
        )


bad = False
for kw in ({"head": 2}, {"head": 3}, {"tail": 3}, {"head": 2, "tail": 2}):
    v_pd = verdict(pa, pd.DataFrame(rows), **kw)
    v_pl = verdict(pp, pl.DataFrame(rows), **kw)
    print(kw)
    print("   pandas:", v_pd)
    print("   polars:", v_pl)
    if v_pd != v_pl:
        bad = True

# control: without subsampling both backends agree
print("no subsample")
print("   pandas:", verdict(pa, pd.DataFrame(rows)))
print("   polars:", verdict(pp, pl.DataFrame(rows)))

if bad:
    print("VIOLATION: head/tail changes the verdict on polars only")
    sys.exit(1)
print("property held")
sys.exit(0)
