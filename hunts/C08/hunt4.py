"""C08: an optional column (required=False) that has a default and is absent
from the table: pandas accepts (skips it), polars crashes with a raw
polars ColumnNotFoundError from set_default."""
import sys
sys.path.insert(0, "/repo")
import warnings; warnings.filterwarnings("ignore")
import pandas as pd
import polars as pl
import pandera as pa
import pandera.polars as pp
from pandera.errors import SchemaErrors

rows = {"a": [1, 2, 3]}


def outcome(mod, df, lazy):
    schema = mod.DataFrameSchema(
        {
            "a": mod.Column(int),
            "b": mod.Column(int, default=0, required=False),
        }
    )
    try:
        out = schema.validate(df, lazy=lazy)
        if isinstance(out, pl.DataFrame):
            return "ACCEPT", out.to_dict(as_series=False)
        return "ACCEPT", out.to_dict(orient="list")
    except SchemaErrors as exc:
        return "REJECT", str(exc.failure_cases)
    except Exception as exc:  # pylint: disable=broad-except
        return "CRASH", f"{type(exc).__name__}: {str(exc).splitlines()[0]}"


bad = False
for lazy in (True, False):
    o_pd = outcome(pa, pd.DataFrame(rows), lazy)
    o_pl = outcome(pp, pl.DataFrame(rows), lazy)
    print(f"lazy={lazy}")
    print("   pandas:", o_pd)
    print("   polars:", o_pl)
    if o_pd != o_pl:
        bad = True

if bad:
    print("VIOLATION: absent optional column with a default is fine on pandas, crashes polars")
    sys.exit(1)
print("property held")
sys.exit(0)
