"""C08: Check(..., ignore_na=False) - a null value fails the check on pandas
but silently passes on polars."""
import sys
sys.path.insert(0, "/repo")
import warnings; warnings.filterwarnings("ignore")
import pandas as pd
import polars as pl
import pandera as pa
import pandera.polars as pp
from pandera.errors import SchemaErrors

rows = {"a": [1.0, None, 3.0]}


def verdict(mod, df):
    schema = mod.DataFrameSchema(
        {"a": mod.Column(float, mod.Check.gt(0, ignore_na=False), nullable=True)}
    )
    try:
        schema.validate(df, lazy=True)
        return "ACCEPT", []
    except SchemaErrors as exc:
        fc = exc.failure_cases
        return "REJECT", sorted(
            (str(c), int(i)) for c, i in zip(fc["column"], fc["index"])
        )


v_pd = verdict(pa, pd.DataFrame(rows))
v_pl = verdict(pp, pl.DataFrame(rows))
print("pandas:", v_pd)
print("polars:", v_pl)
if v_pd != v_pl:
    print("VIOLATION: same schema + same rows, different verdict / failing cells")
    sys.exit(1)
print("property held")
sys.exit(0)
