"""C08: add_missing_columns with a *string* default - polars passes the default
to `LazyFrame.with_columns(**{name: default})`, where a str means "the column
called <default>", not the literal."""
import sys
sys.path.insert(0, "/repo")
import warnings; warnings.filterwarnings("ignore")
import pandas as pd
import polars as pl
import pandera as pa
import pandera.polars as pp
from pandera.errors import SchemaErrors

rows = {"id": [1, 2], "city": ["Oslo", "Rome"]}


def outcome(mod, df, default):
    schema = mod.DataFrameSchema(
        {
            "id": mod.Column(int),
            "city": mod.Column(str),
            "country": mod.Column(str, default=default),
        },
        add_missing_columns=True,
    )
    try:
        out = schema.validate(df, lazy=True)
        if isinstance(out, pl.DataFrame):
            return "ACCEPT", out.to_dict(as_series=False)
        return "ACCEPT", out.to_dict(orient="list")
    except SchemaErrors as exc:
        return "REJECT", str(exc.failure_cases)
    except Exception as exc:  # pylint: disable=broad-except
        return "CRASH", f"{type(exc).__name__}: {str(exc).splitlines()[0]}"


bad = False
for default in ("unknown", "city"):
    o_pd = outcome(pa, pd.DataFrame(rows), default)
    o_pl = outcome(pp, pl.DataFrame(rows), default)
    print(f"default={default!r}")
    print("   pandas:", o_pd)
    print("   polars:", o_pl)
    if o_pd != o_pl:
        bad = True

if bad:
    print("VIOLATION: parsed output differs / polars crashes for a str default")
    sys.exit(1)
print("property held")
sys.exit(0)
