"""C08: a built-in check used at the dataframe level (DataFrameSchema(checks=...))
works on pandas, but every polars built-in does `pl.col(data.key)` with
key=None and dies with TypeError -> a valid table is rejected on polars."""
import sys
sys.path.insert(0, "/repo")
import warnings; warnings.filterwarnings("ignore")
import pandas as pd
import polars as pl
import pandera as pa
import pandera.polars as pp
from pandera.errors import SchemaErrors


def verdict(mod, df, mk_check):
    schema = mod.DataFrameSchema(
        {"a": mod.Column(int), "b": mod.Column(int)},
        checks=mk_check(mod.Check),
    )
    try:
        schema.validate(df, lazy=True)
        return "ACCEPT", ""
    except SchemaErrors as exc:
        fc = exc.failure_cases
        return "REJECT", [str(x)[:70] for x in fc["failure_case"]]


good = {"a": [1, 2], "b": [3, 4]}
bad = False
for label, mk in (
    ("gt(0)", lambda C: C.gt(0)),
    ("in_range(0, 10)", lambda C: C.in_range(0, 10)),
    ("isin([1,2,3,4])", lambda C: C.isin([1, 2, 3, 4])),
    ("ne(7)", lambda C: C.ne(7)),
):
    v_pd = verdict(pa, pd.DataFrame(good), mk)
    v_pl = verdict(pp, pl.DataFrame(good), mk)
    print(label)
    print("   pandas:", v_pd)
    print("   polars:", v_pl)
    if v_pd[0] != v_pl[0]:
        bad = True

if bad:
    print("VIOLATION: dataframe-level built-in check accepts on pandas, rejects (check error) on polars")
    sys.exit(1)
print("property held")
sys.exit(0)
