"""C10 / pandas nullable dtypes: when one element is uncoercible, the null
elements (which the target type CAN represent) are also named as failure cases."""
import sys; sys.path.insert(0, "/repo")
import warnings; warnings.filterwarnings("ignore")
import numpy as np
import pandas as pd
import pandera as pa
from pandera import errors
from pandera.engines import pandas_engine as pe

violated = False

def is_null(x):
    return x is None or x is pd.NA or (isinstance(x, float) and np.isnan(x))

cases = [
    ("Int64",   [1, pd.NA, None, np.nan, "x"], 1),
    ("Float64", [1.5, pd.NA, None, np.nan, "x"], 1.5),
    ("boolean", [True, pd.NA, None, np.nan, "x"], True),
    (pa.Category(["a", "b"]), ["a", pd.NA, None, np.nan, "x"], "a"),
]
for dtype, values, good in cases:
    dt = pe.Engine.dtype(dtype)
    s = pd.Series(values, dtype=object)
    # sanity: nulls alone are coercible and stay null, so the type can hold them
    alone = dt.try_coerce(pd.Series([good, pd.NA, None, np.nan], dtype=object))
    assert alone.isna().tolist() == [False, True, True, True], alone
    try:
        dt.try_coerce(s)
        print(dt, "unexpectedly coerced")
    except errors.ParserError as exc:
        fc = exc.failure_cases["failure_case"].tolist()
        print(f"{str(dt):10} input={values} -> failure_cases={fc}")
        if any(is_null(x) for x in fc):
            print("   VIOLATION: expected failure_cases == ['x']; nulls are convertible for this type")
            violated = True

# documented API
schema = pa.DataFrameSchema({"n": pa.Column("Int64", nullable=True, coerce=True)})
df = pd.DataFrame({"n": [1, None, "x"]}, index=["r0", "r1", "r2"])
try:
    schema.validate(df, lazy=True)
except errors.SchemaErrors as exc:
    fc = exc.failure_cases[exc.failure_cases["check"].str.startswith("coerce_dtype")]
    print(fc[["column", "check", "failure_case", "index"]])
    if len(fc) != 1:
        print("VIOLATION: nullable Int64 column reports the None in row r1 as uncoercible")
        violated = True

sys.exit(1 if violated else 0)
