"""C10 / polars Decimal: coercing an already-conforming Decimal column is not
the identity - values are routed through Float64 and silently altered."""
import sys; sys.path.insert(0, "/repo")
import warnings; warnings.filterwarnings("ignore")
import decimal
import polars as pl
import pandera.polars as pa
from pandera.engines import polars_engine as pe
from pandera.api.polars.types import PolarsData

D = decimal.Decimal
dtype = pl.Decimal(precision=28, scale=2)
values = [D("12345678901234567891.23"), D("0.07"), None]
df = pl.DataFrame({"amount": pl.Series(values, dtype=dtype)})

violated = False

# (1) engine level: try_coerce on a column that already has the target dtype
dt = pe.Engine.dtype(dtype)
assert dt.check(pe.Engine.dtype(df.schema["amount"])), "input should already conform"
out = dt.try_coerce(PolarsData(df.lazy(), "amount")).collect()
print("engine  input :", df["amount"].to_list())
print("engine  output:", out["amount"].to_list(), out.schema["amount"])
if out["amount"].to_list() != df["amount"].to_list():
    print("VIOLATION: try_coerce(T, c) != c for an already conforming c")
    violated = True

# (2) documented API: DataFrameSchema(coerce=True).validate
schema = pa.DataFrameSchema({"amount": pa.Column(dtype, nullable=True)}, coerce=True)
validated = schema.validate(df)
print("schema  output:", validated["amount"].to_list())
if validated["amount"].to_list() != df["amount"].to_list():
    print("VIOLATION: validate(coerce=True) silently changed conforming Decimal values")
    violated = True

# (3) exactly representable string input is not converted exactly either
sdf = pl.DataFrame({"amount": ["12345678901234567891.23"]})
res = schema.validate(sdf)["amount"].to_list()
direct = sdf["amount"].cast(dtype).to_list()
print("string  output:", res, " direct polars cast:", direct)
if res != direct:
    print("VIOLATION: coerced value differs from the exact conversion polars itself performs")
    violated = True

sys.exit(1 if violated else 0)
