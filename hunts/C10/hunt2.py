"""C10 / pandas Decimal: try_coerce returns data that fails the same data type's
own check (the minus sign is counted as a digit of precision)."""
import sys; sys.path.insert(0, "/repo")
import warnings; warnings.filterwarnings("ignore")
import decimal
import pandas as pd
import pandera as pa
from pandera import errors
from pandera.engines import pandas_engine as pe

D = decimal.Decimal
dt = pe.Decimal(precision=3, scale=2)      # fits -9.99 .. 9.99
violated = False

# (1) engine level: coerce, then the type's own check
raw = pd.Series(["1.23", "-1.23", -4.5, 9.99, None], dtype=object)
coerced = dt.try_coerce(raw)
chk = dt.check(pe.Engine.dtype(coerced.dtype), coerced)
print("coerced:", coerced.tolist())
print("check  :", list(chk))
if not all(chk):
    print("VIOLATION: try_coerce(T, c) = c' but check(T, c') is False for", coerced[~chk].tolist())
    violated = True

# (2) an already conforming container (real Decimals with 3 digits) is rejected too
conforming = pd.DataFrame({"x": [D("1.23"), D("-1.23")]})
for coerce in (False, True):
    schema = pa.DataFrameSchema({"x": pa.Column(dt, coerce=coerce)})
    try:
        schema.validate(conforming)
        print(f"validate(coerce={coerce}): ok")
    except errors.SchemaError as exc:
        print(f"validate(coerce={coerce}): SchemaError {exc.reason_code}; failure_cases=\n{exc.failure_cases}")
        violated = True

sys.exit(1 if violated else 0)
