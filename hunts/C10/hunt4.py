"""C10 / pandas Date and Decimal: coercion works for a Series/column but always
fails for an Index (and MultiIndex level), even on already conforming data, and
the resulting ParserError names no failure case at all (failure_cases is None)."""
import sys; sys.path.insert(0, "/repo")
import warnings; warnings.filterwarnings("ignore")
import datetime, decimal
import pandas as pd
import pandera as pa
from pandera import errors
from pandera.engines import pandas_engine as pe

D = decimal.Decimal
violated = False

cases = [
    (pe.Date(), [datetime.date(2020, 1, 1), datetime.date(2020, 1, 2)]),
    (pe.Date(), ["2020-01-01", "2020-01-02"]),
    (pe.Decimal(3, 2), [D("1.20"), D("2.00")]),
    (pe.Decimal(3, 2), [1.2, 2]),
]
for dt, values in cases:
    # every element is individually convertible ...
    for v in values:
        dt.coerce_value(v)
    # ... and the Series sibling coerces fine
    as_series = dt.try_coerce(pd.Series(values, dtype=object))
    try:
        as_index = dt.try_coerce(pd.Index(values, dtype=object))
        print(f"{str(dt):14} Index{values} -> {list(as_index)}")
    except errors.ParserError as exc:
        print(f"{str(dt):14} Series ok -> {as_series.tolist()}")
        print(f"{'':14} Index{values} -> ParserError, failure_cases={exc.failure_cases!r}, cause={exc.__cause__!r}")
        violated = True

# documented API: Index(..., coerce=True) and a MultiIndex level
dates = [datetime.date(2020, 1, 1), datetime.date(2020, 1, 2)]
df = pd.DataFrame({"x": [1, 2]}, index=pd.Index(dates, name="d"))
plain = pa.DataFrameSchema({"x": pa.Column(int)}, index=pa.Index(pa.Date, name="d"))
coerc = pa.DataFrameSchema({"x": pa.Column(int)}, index=pa.Index(pa.Date, name="d", coerce=True))
plain.validate(df)
print("Index(pa.Date) without coerce: data conforms")
try:
    coerc.validate(df)
    print("Index(pa.Date, coerce=True): ok")
except errors.SchemaError as exc:
    print("Index(pa.Date, coerce=True): SchemaError", exc.reason_code, "failure_cases =", exc.failure_cases)
    violated = True

mi = pd.MultiIndex.from_arrays([dates, [1, 2]], names=["d", "n"])
mschema = pa.DataFrameSchema(
    {"x": pa.Column(int)},
    index=pa.MultiIndex([pa.Index(pa.Date, name="d", coerce=True), pa.Index(int, name="n")]),
)
try:
    mschema.validate(pd.DataFrame({"x": [1, 2]}, index=mi))
    print("MultiIndex level Date coerce=True: ok")
except (errors.SchemaError, errors.SchemaErrors) as exc:
    print("MultiIndex level Date coerce=True:", type(exc).__name__, "failure_cases =", getattr(exc, "failure_cases", None) if isinstance(exc, errors.SchemaError) else exc.failure_cases.to_dict("records"))
    violated = True

sys.exit(1 if violated else 0)
