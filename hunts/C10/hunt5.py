"""C10 / polars: the failure cases of a failed coercion are "rows that are null
after a non-strict cast".  Input nulls (perfectly convertible) are therefore
named as uncoercible, and with drop_invalid_rows=True valid rows are dropped;
conversely a bad element inside a List is not named at all."""
import sys; sys.path.insert(0, "/repo")
import warnings; warnings.filterwarnings("ignore")
import polars as pl
import pandera.polars as pa
from pandera import errors
from pandera.engines import polars_engine as pe
from pandera.api.polars.types import PolarsData

violated = False
dt = pe.Engine.dtype(pl.Int64)

# sanity: a null converts fine on its own and stays null
ok = dt.try_coerce(PolarsData(pl.LazyFrame({"a": ["1", None]}), "a")).collect()
assert ok["a"].to_list() == [1, None]

# (1) engine level
lf = pl.LazyFrame({"a": ["1", None, "x", "4"]})
try:
    dt.try_coerce(PolarsData(lf, "a")).collect()
except errors.ParserError as exc:
    fc = exc.failure_cases["a"].to_list()
    print("try_coerce failure_cases:", fc, "| parser_output:", exc.parser_output.to_series().to_list())
    if fc != ["x"]:
        print("VIOLATION: expected exactly ['x']; the null in row 1 is convertible (Int64 holds nulls)")
        violated = True

# (2) documented API, eager + lazy report
schema = pa.DataFrameSchema({"a": pa.Column(pl.Int64, nullable=True, coerce=True)})
try:
    schema.validate(lf.collect(), lazy=True)
except errors.SchemaErrors as exc:
    rep = exc.failure_cases.filter(pl.col("check").str.starts_with("coerce_dtype"))
    print(rep.select("failure_case", "check", "index"))
    if rep.height != 1:
        print("VIOLATION: nullable column reports its null as a coercion failure")
        violated = True

# (3) consequence: drop_invalid_rows removes the valid null row
dropper = pa.DataFrameSchema(
    {"a": pa.Column(pl.Int64, nullable=True, coerce=True)}, drop_invalid_rows=True
)
kept = dropper.validate(pl.DataFrame({"a": ["1", None, "x", "4"], "row": [0, 1, 2, 3]}), lazy=True)
print("drop_invalid_rows kept rows:", kept["row"].to_list())
if kept["row"].to_list() != [0, 1, 3]:
    print("VIOLATION: row 1 (null, valid for a nullable Int64 column) was dropped as 'uncoercible'")
    violated = True

# (4) the opposite error for nested types: the bad row is not named
ldt = pe.Engine.dtype(pl.List(pl.Int64))
try:
    ldt.try_coerce(PolarsData(pl.LazyFrame({"a": [["1"], ["x"]]}), "a")).collect()
except errors.ParserError as exc:
    fc = exc.failure_cases["a"].to_list()
    print("List(Int64) failure_cases:", fc)
    if fc != [["x"]]:
        print("VIOLATION: expected [['x']]; the ParserError names no element")
        violated = True

sys.exit(1 if violated else 0)
