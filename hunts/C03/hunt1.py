"""C03 hunt 1: DataFrameSchema(drop_invalid_rows=True) + Column(parsers=...) whose
check fails on some row -> the whole parsed column is replaced by None."""
import sys
sys.path.insert(0, "/repo")
import pandas as pd
from pandera import Check, Column, DataFrameSchema, Parser
from pandera.errors import SchemaError, SchemaErrors

schema = DataFrameSchema(
    {
        "a": Column(float, parsers=Parser(lambda s: s.abs()), checks=Check.le(2)),
        "b": Column(int),
    },
    drop_invalid_rows=True,
)
df = pd.DataFrame({"a": [-1.0, 2.0, -3.0], "b": [1, 2, 3]})

out = schema.validate(df, lazy=True)
print("validate() returned:")
print(out)
print(out.dtypes)

# expected: rows 0 and 1 kept with a == [1.0, 2.0] (float64); row 2 (abs(-3)=3 > 2) dropped
expected = pd.DataFrame({"a": [1.0, 2.0], "b": [1, 2]})
print("\nexpected:")
print(expected)

# strip(S): same schema with every parsing option switched off
stripped = DataFrameSchema({"a": Column(float, checks=Check.le(2)), "b": Column(int)})
violated = False
try:
    stripped.validate(out, lazy=True)
    print("\nstrip(S) accepts the output")
except (SchemaError, SchemaErrors) as exc:
    violated = True
    print("\nVIOLATION: strip(S) rejects the object that validate() returned:")
    print(exc.failure_cases if hasattr(exc, "failure_cases") else exc)

if not out.reset_index(drop=True).equals(expected):
    violated = True
    print("VIOLATION: returned data differs from the parsed/filtered input")

sys.exit(1 if violated else 0)
