"""C03 hunt 5: with head=/tail=/sample= the column-level parse steps of a DataFrameSchema
(Column parsers, defaults of regex columns) run on the subsample copy and are thrown away."""
import sys
sys.path.insert(0, "/repo")
import numpy as np
import pandas as pd
from pandera import Check, Column, DataFrameSchema, Parser
from pandera.errors import SchemaError, SchemaErrors

violated = False

# (a) custom column parser
schema = DataFrameSchema({"a": Column(float, parsers=Parser(lambda s: s.abs()), checks=Check.ge(0))})
stripped = DataFrameSchema({"a": Column(float, checks=Check.ge(0))})
df = pd.DataFrame({"a": [-1.0, 2.0, -3.0]})

print("(a) validate(df)         ->", schema.validate(df)["a"].tolist())
out = schema.validate(df, head=1)
print("    validate(df, head=1) ->", out["a"].tolist(), " (row 0 was validated as abs(-1)=1)")
print("    stand-alone Column.validate(df, head=1) ->",
      schema.columns["a"].validate(df, head=1)["a"].tolist())
try:
    stripped.validate(out, head=1)          # even restricted to the very same validated row
except (SchemaError, SchemaErrors) as exc:
    violated = True
    print("    VIOLATION: strip(S).validate(out, head=1) rejects the returned frame:",
          str(exc).splitlines()[0][:120])

# (b) default of a regex column
schema = DataFrameSchema({"x_.*": Column(float, default=0.0, regex=True)})
stripped = DataFrameSchema({"x_.*": Column(float, regex=True)})
df = pd.DataFrame({"x_1": [np.nan, 1.0], "x_2": [2.0, 3.0]})
print("(b) validate(df)         ->", schema.validate(df)["x_1"].tolist())
out = schema.validate(df, head=1)
print("    validate(df, head=1) ->", out["x_1"].tolist())
try:
    stripped.validate(out, head=1)
except (SchemaError, SchemaErrors) as exc:
    violated = True
    print("    VIOLATION: strip(S).validate(out, head=1) rejects the returned frame:",
          str(exc).splitlines()[0][:120])

sys.exit(1 if violated else 0)
