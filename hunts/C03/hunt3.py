"""C03 hunt 3: Index(default=...) / Index(parsers=...) are applied to a throw-away copy of
the index: the checks see the parsed labels, the caller gets the unparsed ones back."""
import sys
sys.path.insert(0, "/repo")
import numpy as np
import pandas as pd
from pandera import Check, Column, DataFrameSchema, Index, Parser, SeriesSchema
from pandera.errors import SchemaError, SchemaErrors

violated = False


def rejects(schema, obj):
    try:
        schema.validate(obj, lazy=True)
        return None
    except (SchemaError, SchemaErrors) as exc:
        return exc


# (a) default on a NON-nullable index of a DataFrameSchema
schema = DataFrameSchema({"a": Column(int)}, index=Index(float, name="k", default=0.0))
df = pd.DataFrame({"a": [1, 2]}, index=pd.Index([1.0, np.nan], name="k"))
out = schema.validate(df)
print("(a) DataFrameSchema + Index(float, default=0.0) returned index:", out.index.tolist(),
      "(expected [1.0, 0.0])")
stripped = DataFrameSchema({"a": Column(int)}, index=Index(float, name="k"))
exc = rejects(stripped, out)
if exc is not None:
    violated = True
    print("    VIOLATION: strip(S) rejects it:", str(exc.failure_cases.to_dict("records")))

# (b) the same for a SeriesSchema with an index schema
sschema = SeriesSchema(int, index=Index(float, name="k", default=0.0))
sout = sschema.validate(pd.Series([1, 2], index=pd.Index([1.0, np.nan], name="k")))
print("(b) SeriesSchema + Index(float, default=0.0) returned index:", sout.index.tolist(),
      "(expected [1.0, 0.0])")
if sout.index.hasnans:
    violated = True
    print("    VIOLATION: a null label survives in a non-nullable index")

# (c) custom parser on the index
schema = DataFrameSchema(
    {"a": Column(int)},
    index=Index(str, name="k", parsers=Parser(lambda s: s.str.upper()),
                checks=Check.str_matches("^[A-Z]+$")),
)
df = pd.DataFrame({"a": [1, 2]}, index=pd.Index(["x", "y"], name="k"))
out = schema.validate(df)
print("(c) Index(parsers=upper, checks=^[A-Z]+$) returned index:", out.index.tolist(),
      "(expected ['X', 'Y'])")
stripped = DataFrameSchema({"a": Column(int)}, index=Index(str, name="k", checks=Check.str_matches("^[A-Z]+$")))
exc = rejects(stripped, out)
if exc is not None:
    violated = True
    print("    VIOLATION: strip(S) rejects it:", str(exc.failure_cases.to_dict("records")))

sys.exit(1 if violated else 0)
