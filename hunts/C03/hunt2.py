"""C03 hunt 2: drop_invalid_rows only drops the first n_failure_cases failing rows."""
import sys
sys.path.insert(0, "/repo")
import pandas as pd
from pandera import Check, Column, DataFrameSchema, SeriesSchema
from pandera.errors import SchemaError, SchemaErrors

violated = False

# --- DataFrameSchema -------------------------------------------------------
schema = DataFrameSchema(
    {"a": Column(int, Check(lambda s: s > 0, n_failure_cases=1))},
    drop_invalid_rows=True,
)
df = pd.DataFrame({"a": [-1, 2, -3, -4]})
out = schema.validate(df, lazy=True)
print("DataFrameSchema.validate returned (expected only the row a=2):")
print(out)

stripped = DataFrameSchema({"a": Column(int, Check(lambda s: s > 0, n_failure_cases=1))})
try:
    stripped.validate(out, lazy=True)
except (SchemaError, SchemaErrors) as exc:
    violated = True
    print("VIOLATION: strip(S) rejects the returned frame:")
    print(exc.failure_cases)

out2 = schema.validate(out, lazy=True)
if not out2.equals(out):
    violated = True
    print("VIOLATION: not a fixpoint, validating the output again returns")
    print(out2)

# --- SeriesSchema ----------------------------------------------------------
sschema = SeriesSchema(int, Check.gt(0, n_failure_cases=1), drop_invalid_rows=True)
sout = sschema.validate(pd.Series([-1, 2, -3, -4]), lazy=True)
print("\nSeriesSchema.validate returned (expected only the value 2):")
print(sout)
if not (sout > 0).all():
    violated = True
    print("VIOLATION: returned series still holds values failing the check")

sys.exit(1 if violated else 0)
