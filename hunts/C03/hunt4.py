"""C03 hunt 4: Column(drop_invalid_rows=True) inside a DataFrameSchema swallows the column's
errors: nothing is dropped, nothing is raised, the invalid frame is returned."""
import sys
sys.path.insert(0, "/repo")
import numpy as np
import pandas as pd
from pandera import Check, Column, DataFrameSchema
from pandera.errors import SchemaError, SchemaErrors

df = pd.DataFrame({"a": [-1.0, 2.0, np.nan, 5.0], "b": [1, 2, 3, 4]})
col = Column(float, Check.ge(0), name="a", drop_invalid_rows=True)   # non-nullable, >= 0

print("stand-alone Column.validate(df, lazy=True) (documented usage) drops rows 0 and 2:")
print(col.validate(df, lazy=True))

schema = DataFrameSchema({"a": col, "b": Column(int)})
out = schema.validate(df, lazy=True)
print("\nDataFrameSchema({'a': <that column>, 'b': ...}).validate(df, lazy=True) returned:")
print(out)

stripped = DataFrameSchema({"a": Column(float, Check.ge(0)), "b": Column(int)})
violated = False
try:
    stripped.validate(out, lazy=True)
    print("strip(S) accepts the output")
except (SchemaError, SchemaErrors) as exc:
    violated = True
    print("\nVIOLATION: validate() returned normally, but strip(S) rejects the returned frame:")
    print(exc.failure_cases)

# --- the polars backend behaves the same ----------------------------------------
import polars as pl
import pandera.polars as pap

pl_schema = pap.DataFrameSchema({"a": pap.Column(pl.Int64, pap.Check.ge(0), drop_invalid_rows=True)})
pl_out = pl_schema.validate(pl.DataFrame({"a": [1, 2, -1]}), lazy=True)
print("\npolars DataFrameSchema with Column(drop_invalid_rows=True) returned a =", pl_out["a"].to_list())
if (pl_out["a"] < 0).any():
    violated = True
    print("VIOLATION (polars): the row failing Check.ge(0) is returned, no error raised")

sys.exit(1 if violated else 0)
