"""C18 / polars DataFrame + coerce=True under SCHEMA_ONLY: validate() lets a raw
polars exception escape instead of giving a verdict.

At SCHEMA_ONLY depth the polars backend coerces with the lazy, strict
``LazyFrame.cast`` (``DataType.coerce``) instead of ``try_coerce``.  For a
``pl.DataFrame`` the public ``validate`` then calls ``output.collect()`` outside
any error handling, so the failed cast surfaces as
``polars.exceptions.InvalidOperationError`` - neither "accept" nor a
``SchemaError``/``SchemaErrors``.  The same happens when the depth comes from
the documented environment variable PANDERA_VALIDATION_DEPTH=SCHEMA_ONLY.
"""
import sys; sys.path.insert(0, "/repo")
import os
import subprocess
import warnings
warnings.filterwarnings("ignore")
import polars as pl
import pandera.polars as pa
from pandera.config import config_context, ValidationDepth
from pandera.errors import SchemaError, SchemaErrors

schema = pa.DataFrameSchema({"a": pa.Column(pl.Int64, coerce=True)})
df = pl.DataFrame({"a": ["1", "x"]})


def verdict(depth, lazy):
    try:
        with config_context(validation_depth=depth):
            schema.validate(df, lazy=lazy)
        return "ACCEPT"
    except (SchemaError, SchemaErrors) as exc:
        return f"REJECT ({type(exc).__name__})"
    except Exception as exc:  # pylint: disable=broad-except
        return f"NON-PANDERA EXCEPTION {type(exc).__module__}.{type(exc).__name__}: {str(exc)[:70]}"


bad = 0
for depth in (ValidationDepth.SCHEMA_AND_DATA, ValidationDepth.DATA_ONLY, ValidationDepth.SCHEMA_ONLY):
    for lazy in (False, True):
        v = verdict(depth, lazy)
        print(f"config_context({depth.name:15s}) lazy={lazy!s:5s} -> {v}")
        if v.startswith("NON-PANDERA"):
            bad += 1

# same thing through the documented environment variable, in a fresh interpreter
child = r'''
import sys; sys.path.insert(0, "/repo")
import warnings; warnings.filterwarnings("ignore")
import polars as pl, pandera.polars as pa
from pandera.errors import SchemaError, SchemaErrors
schema = pa.DataFrameSchema({"a": pa.Column(pl.Int64, coerce=True)})
try:
    schema.validate(pl.DataFrame({"a": ["1", "x"]}))
    print("ACCEPT")
except (SchemaError, SchemaErrors) as exc:
    print("REJECT", type(exc).__name__)
except Exception as exc:
    print("NON-PANDERA EXCEPTION", type(exc).__name__)
'''
for value in ("SCHEMA_AND_DATA", "SCHEMA_ONLY"):
    env = {k: v for k, v in os.environ.items() if not k.startswith("PANDERA_")}
    env["PANDERA_VALIDATION_DEPTH"] = value
    out = subprocess.run(
        ["/venv/bin/python", "-c", child], env=env, cwd="/repo",
        capture_output=True, text=True, check=False,
    ).stdout.strip()
    print(f"PANDERA_VALIDATION_DEPTH={value:15s} -> {out}")
    if out.startswith("NON-PANDERA"):
        bad += 1

print()
if bad:
    print(f"VIOLATION: {bad} SCHEMA_ONLY validation(s) of a pl.DataFrame ended in a raw polars exception")
    sys.exit(1)
print("property held")
sys.exit(0)
