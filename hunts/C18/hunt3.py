"""C18 / polars: the null check runs at DATA depth but its reason code is
mapped to the SCHEMA scope.

``validate_scope`` (which decides what a depth skips) and
``VALIDATION_DEPTH_ERROR_CODE_MAP`` (which decides what a depth reports)
disagree for SERIES_CONTAINS_NULLS in the polars backend:

* the full-depth report files the failure under "SCHEMA", yet SCHEMA_ONLY
  validation (the default for every pl.LazyFrame) accepts the frame;
* DATA_ONLY rejects the frame, but the SchemaErrors report is empty ({}).

The pandas sibling treats the very same constraint the other way round.
"""
import sys; sys.path.insert(0, "/repo")
import warnings
warnings.filterwarnings("ignore")
import pandas as pd
import polars as pl
import pandera as pa
import pandera.polars as pap
from pandera.config import config_context, ValidationDepth as VD
from pandera.errors import SchemaErrors


def run(schema, data, depth):
    """returns (accepted, report, reason codes)"""
    try:
        with config_context(validation_depth=depth):
            schema.validate(data, lazy=True)
        return True, None, []
    except SchemaErrors as exc:
        return False, exc.message, [e.reason_code.name for e in exc.schema_errors]


pl_schema = pap.DataFrameSchema({"a": pap.Column(pl.Int64)})  # nullable=False
pl_df = pl.DataFrame({"a": [1, None]})
pd_schema = pa.DataFrameSchema({"a": pa.Column(float)})  # nullable=False
pd_df = pd.DataFrame({"a": [1.0, None]})

problems = []
for name, schema, data in (("polars", pl_schema, pl_df), ("pandas", pd_schema, pd_df)):
    res = {d: run(schema, data, d) for d in VD}
    for d in VD:
        ok, report, codes = res[d]
        print(f"{name} {d.name:15s} -> {'ACCEPT' if ok else 'REJECT'} codes={codes} report={report}")
    sad_ok, sad_report, _ = res[VD.SCHEMA_AND_DATA]
    so_ok = res[VD.SCHEMA_ONLY][0]
    do_ok, do_report, _ = res[VD.DATA_ONLY]
    # what the library itself calls the schema part / the data part of the failure
    schema_failures = bool(sad_report and sad_report.get("SCHEMA"))
    data_failures = bool(sad_report and sad_report.get("DATA"))
    if schema_failures == so_ok:
        problems.append(
            f"{name}: full-depth report has SCHEMA failures={schema_failures} "
            f"but SCHEMA_ONLY validation {'accepts' if so_ok else 'rejects'}"
        )
    if data_failures == do_ok:
        problems.append(
            f"{name}: full-depth report has DATA failures={data_failures} "
            f"but DATA_ONLY validation {'accepts' if do_ok else 'rejects'}"
        )
    if not do_ok and not do_report:
        problems.append(f"{name}: DATA_ONLY raises SchemaErrors with an empty report: {do_report!r}")
    print()

# default depth of a LazyFrame is SCHEMA_ONLY: the "SCHEMA" failure above goes unnoticed
try:
    pl_schema.validate(pl_df.lazy(), lazy=True)
    print("polars LazyFrame, default depth -> ACCEPT")
except SchemaErrors as exc:
    print("polars LazyFrame, default depth -> REJECT", exc.message)

print()
if problems:
    for p in problems:
        print("VIOLATION:", p)
    sys.exit(1)
print("property held")
sys.exit(0)
