"""C18 / a frame validated at a reduced depth is marked as "validated" and is
then waved through by @check_types at full depth.

DataFrameSchemaBackend.validate attaches the schema to the returned frame
(``check_obj.pandera.add_schema(schema)``) whatever the validation depth was.
``check_types`` skips validation when ``arg.pandera.schema == schema``.  So the
effect of ``config_context(validation_depth=SCHEMA_ONLY)`` leaks out of the
context: afterwards full-depth validation by ``check_types`` accepts a frame
that DATA_ONLY / full-depth ``validate`` reject, i.e.
accept_SAD(S, D) <=> accept_SO(S, D) and accept_DO(S, D) is broken.
"""
import sys; sys.path.insert(0, "/repo")
import warnings
warnings.filterwarnings("ignore")
import pandas as pd
import pandera as pa
from pandera.typing import DataFrame
from pandera.config import config_context, get_config_context, ValidationDepth as VD
from pandera.errors import SchemaError, SchemaErrors


class Model(pa.DataFrameModel):
    a: int = pa.Field(gt=0)


@pa.check_types
def consume(df: DataFrame[Model]) -> int:
    return len(df)


def accepts(fn, *args):
    try:
        fn(*args)
        return True
    except (SchemaError, SchemaErrors):
        return False


def validate_at(depth, df):
    with config_context(validation_depth=depth):
        return Model.validate(df)


problems = []

# --- data-level failure, frame first validated at SCHEMA_ONLY -----------------
raw = pd.DataFrame({"a": [-1, 2]})  # violates gt=0
print("check_types(raw)                         accepts:", accepts(consume, raw))
marked = validate_at(VD.SCHEMA_ONLY, raw)  # fine: data checks are switched off
print("depth after leaving the context         :", get_config_context().validation_depth.name)
so = accepts(validate_at, VD.SCHEMA_ONLY, marked)
do = accepts(validate_at, VD.DATA_ONLY, marked)
sad_validate = accepts(validate_at, VD.SCHEMA_AND_DATA, marked)
sad_check_types = accepts(consume, marked)
print(f"marked frame: validate SCHEMA_ONLY={so} DATA_ONLY={do} SCHEMA_AND_DATA={sad_validate}; "
      f"check_types at SCHEMA_AND_DATA={sad_check_types}")
if sad_check_types != (so and do):
    problems.append("check_types accepts at full depth a frame that DATA_ONLY validation rejects")

# --- schema-level failure, frame first validated at DATA_ONLY -----------------
raw2 = pd.DataFrame({"a": [1.5, 2.5]})  # wrong dtype, but > 0
print("check_types(raw2)                        accepts:", accepts(consume, raw2))
marked2 = validate_at(VD.DATA_ONLY, raw2)
so = accepts(validate_at, VD.SCHEMA_ONLY, marked2)
do = accepts(validate_at, VD.DATA_ONLY, marked2)
sad_check_types = accepts(consume, marked2)
print(f"marked frame: validate SCHEMA_ONLY={so} DATA_ONLY={do}; check_types at SCHEMA_AND_DATA={sad_check_types}")
if sad_check_types != (so and do):
    problems.append("check_types accepts at full depth a frame that SCHEMA_ONLY validation rejects")

print()
if problems:
    for p in problems:
        print("VIOLATION:", p)
    sys.exit(1)
print("property held")
sys.exit(0)
