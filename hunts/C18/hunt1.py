"""C18 / DATA_ONLY does not remove the schema-level strict / ordered constraints.

Under DATA_ONLY the verdict must equal that of the schema restricted to its
data-level constraints.  ``strict=True`` and ``ordered=True`` are pure
column-label (schema-level) constraints, their reason codes are mapped to
ValidationScope.SCHEMA, yet they still reject the frame under DATA_ONLY - with
an error report that is empty because the library itself filters the error out
as "not in scope for this depth".
"""
import sys; sys.path.insert(0, "/repo")
import warnings
warnings.filterwarnings("ignore")
import pandas as pd
import polars as pl
import pandera as pa
import pandera.polars as pap
from pandera.config import config_context, ValidationDepth
from pandera.errors import SchemaError, SchemaErrors
from pandera.validation_depth import validation_type


def verdict(schema, data, depth, lazy):
    try:
        with config_context(validation_depth=depth):
            schema.validate(data, lazy=lazy)
        return "ACCEPT", None
    except SchemaErrors as exc:
        return "REJECT", exc
    except SchemaError as exc:
        return "REJECT", exc


violations = 0
cases = []

# ---- pandas ---------------------------------------------------------------
df = pd.DataFrame({"a": [1, 2], "extra": [1, 2]})
cases.append((
    "pandas strict=True",
    pa.DataFrameSchema({"a": pa.Column(int, pa.Check.gt(0))}, strict=True),
    # the same schema restricted to its data-level constraints
    pa.DataFrameSchema({"a": pa.Column(checks=pa.Check.gt(0))}),
    df,
))
cases.append((
    "pandas ordered=True",
    pa.DataFrameSchema(
        {"extra": pa.Column(int, pa.Check.gt(0)), "a": pa.Column(int)},
        ordered=True,
    ),
    pa.DataFrameSchema({"extra": pa.Column(checks=pa.Check.gt(0)), "a": pa.Column()}),
    df,
))
# ---- polars ---------------------------------------------------------------
pdf = pl.DataFrame({"a": [1, 2], "extra": [1, 2]})
cases.append((
    "polars strict=True",
    pap.DataFrameSchema({"a": pap.Column(int, pap.Check.gt(0))}, strict=True),
    pap.DataFrameSchema({"a": pap.Column(checks=pap.Check.gt(0))}),
    pdf,
))

for name, schema, data_part, data in cases:
    for lazy in (False, True):
        got, exc = verdict(schema, data, ValidationDepth.DATA_ONLY, lazy)
        want, _ = verdict(data_part, data, ValidationDepth.SCHEMA_AND_DATA, lazy)
        line = f"{name:22s} lazy={lazy!s:5s} DATA_ONLY -> {got}; data_part(S) at full depth -> {want}"
        if exc is not None:
            errs = exc.schema_errors if isinstance(exc, SchemaErrors) else [exc]
            codes = [(e.reason_code.name, validation_type(e.reason_code).name) for e in errs]
            line += f"; reason codes (name, mapped scope) = {codes}"
            if isinstance(exc, SchemaErrors):
                line += f"; report = {exc.message!r}"
        print(line)
        if got != want:
            violations += 1

print()
if violations:
    print(f"VIOLATION: {violations} DATA_ONLY verdict(s) differ from the data-level restriction of the schema")
    sys.exit(1)
print("property held")
sys.exit(0)
