"""C18 / validation disabled is not "hands off": DataFrame[Model](...) built
while validation is disabled is stamped as already validated, and stays
exempt from validation after validation has been switched on again.

pandera.typing.common.DataFrameBase.__setattr__ calls
``schema_model.validate(self)`` (a no-op while validation is disabled) and then
unconditionally ``pandera_accessor.add_schema(schema)``.  ``check_types`` (and
``__setattr__`` itself) skip validation of frames that carry the schema.
"""
import sys; sys.path.insert(0, "/repo")
import os
import subprocess
import warnings
warnings.filterwarnings("ignore")
import pandas as pd
import pandera as pa
from pandera.typing import DataFrame
from pandera.config import config_context, get_config_context
from pandera.errors import SchemaError, SchemaErrors


class Model(pa.DataFrameModel):
    a: int = pa.Field(gt=0)


@pa.check_types
def consume(df: DataFrame[Model]) -> int:
    return len(df)


def accepts(fn, *args):
    try:
        fn(*args)
        return True
    except (SchemaError, SchemaErrors):
        return False


bad = {"a": [-1, 2]}  # violates gt=0
problems = []

print("validation enabled : DataFrame[Model](bad) accepted:", accepts(DataFrame[Model], bad))
print("validation enabled : consume(pd.DataFrame(bad)) accepted:", accepts(consume, pd.DataFrame(bad)))

before = get_config_context()
with config_context(validation_enabled=False):
    typed = DataFrame[Model](bad)          # not validated - fine
    plain = pd.DataFrame(bad)
    same = Model.validate(plain)           # returns its argument untouched - fine
after = get_config_context()
print("config restored after the context:", before == after, "| validation_enabled =", after.validation_enabled)
print("plain frame  : returned as is:", same is plain, "| marker:", plain.pandera.schema)
print("typed frame  : marker set while validation was disabled:", typed.pandera.schema is not None)
if typed.pandera.schema is not None:
    problems.append("object created while validation was disabled carries the 'validated' schema marker")

ok_validate = accepts(Model.validate, typed)
ok_check_types = accepts(consume, typed)
print(f"validation enabled again: Model.validate(typed) accepts={ok_validate}; check_types consume(typed) accepts={ok_check_types}")
if ok_check_types:
    problems.append("check_types (validation enabled) accepts an invalid frame created while validation was disabled")

# the documented switch: PANDERA_VALIDATION_ENABLED=False globally, validation re-enabled for a critical section
child = r'''
import sys; sys.path.insert(0, "/repo")
import warnings; warnings.filterwarnings("ignore")
import pandera as pa
from pandera.typing import DataFrame
from pandera.config import config_context
class Model(pa.DataFrameModel):
    a: int = pa.Field(gt=0)
@pa.check_types
def consume(df: DataFrame[Model]) -> int:
    return len(df)
import pandas as pd
with config_context(validation_enabled=True):
    consume(pd.DataFrame({"a": [1]}))    # an earlier, legitimate validation in the same process
typed = DataFrame[Model]({"a": [-1, 2]})  # validation globally disabled: not validated
with config_context(validation_enabled=True):
    try:
        consume(typed); print("ACCEPT")
    except Exception as exc:
        print("REJECT", type(exc).__name__)
'''
env = {k: v for k, v in os.environ.items() if not k.startswith("PANDERA_")}
env["PANDERA_VALIDATION_ENABLED"] = "False"
out = subprocess.run(["/venv/bin/python", "-c", child], env=env, cwd="/repo",
                     capture_output=True, text=True, check=False)
print("PANDERA_VALIDATION_ENABLED=False, then config_context(validation_enabled=True): consume(typed) ->",
      out.stdout.strip() or out.stderr.strip().splitlines()[-1])
if out.stdout.strip() == "ACCEPT":
    problems.append("same through the environment variable")

print()
if problems:
    for p in problems:
        print("VIOLATION:", p)
    sys.exit(1)
print("property held")
sys.exit(0)
