"""C06 hunt 4: polars lazy validation - a failing check that returns a plain
bool together with any other failure makes SchemaErrors construction blow up
with polars.exceptions.SchemaError (not pandera's) in failure_cases_metadata."""
import sys; sys.path.insert(0, "/repo")
import warnings; warnings.simplefilter("ignore")
import polars as pl
import pandera.polars as pa
import pandera.errors as perr

def total_is_large(data):            # aggregate check -> python bool
    return data.lazyframe.select(pl.col(data.key).sum()).collect().item() > 100

df = pl.DataFrame({"a": [1, -2, 3]})
violated = False

def attempt(label, schema):
    global violated
    try:
        schema.validate(df, lazy=True)
        print(f"{label}: returned")
    except (perr.SchemaError, perr.SchemaErrors) as e:
        print(f"{label}: documented pandera {type(e).__name__} with {len(e.schema_errors)} error(s)")
    except Exception as e:  # noqa
        violated = True
        print(f"{label}: LEAKED {type(e).__module__}.{type(e).__name__}: {str(e)[:80]!r}")

attempt("bool check alone", pa.DataFrameSchema({"a": pa.Column(pl.Int64, pa.Check(total_is_large))}))
attempt("gt(0) alone", pa.DataFrameSchema({"a": pa.Column(pl.Int64, pa.Check.gt(0))}))
attempt("bool check + gt(0)", pa.DataFrameSchema(
    {"a": pa.Column(pl.Int64, [pa.Check(total_is_large), pa.Check.gt(0)])}))
attempt("bool check + wrong dtype", pa.DataFrameSchema(
    {"a": pa.Column(pl.Utf8, pa.Check(total_is_large))}))
sys.exit(1 if violated else 0)
