"""C06 hunt 1: DataFrameSchema(unique=[...]) on a frame whose index has repeated
labels (e.g. the result of pd.concat) leaks ValueError instead of SchemaError."""
import sys; sys.path.insert(0, "/repo")
import warnings; warnings.simplefilter("ignore")
import pandas as pd
import pandera as pa
from pandera.errors import SchemaError, SchemaErrors

schema = pa.DataFrameSchema(
    {"a": pa.Column(int), "b": pa.Column(int)}, unique=["a", "b"]
)
part = pd.DataFrame({"a": [1, 2], "b": [3, 4]})
data = pd.concat([part, part])          # index is [0, 1, 0, 1]; rows duplicated

# control: same rows with a unique index -> documented SchemaError
try:
    schema.validate(data.reset_index(drop=True))
    print("control: returned (unexpected)")
except SchemaError as e:
    print("control (unique index): SchemaError, reason", e.reason_code.name)

violated = False
for lazy in (False, True):
    try:
        schema.validate(data, lazy=lazy)
        print(f"lazy={lazy}: returned (duplicates not detected?)")
    except (SchemaError, SchemaErrors) as e:
        print(f"lazy={lazy}: documented {type(e).__name__}")
    except Exception as e:  # noqa
        violated = True
        print(f"lazy={lazy}: LEAKED {type(e).__name__}: {e}")
sys.exit(1 if violated else 0)
