"""C06 hunt 2: joint uniqueness over a column that is absent (optional column
not supplied, or - in lazy mode - a required column that is missing) leaks
ValueError (pandas) / polars ComputeError instead of returning / SchemaError(s)."""
import sys; sys.path.insert(0, "/repo")
import warnings; warnings.simplefilter("ignore")
import pandas as pd
import polars as pl
import pandera as pa
import pandera.polars as pap
from pandera.errors import SchemaError, SchemaErrors

violated = False

def attempt(label, fn):
    global violated
    try:
        out = fn()
        print(f"{label}: returned {type(out).__name__}")
    except (SchemaError, SchemaErrors) as e:
        print(f"{label}: documented {type(e).__name__}")
    except Exception as e:  # noqa
        violated = True
        print(f"{label}: LEAKED {type(e).__module__}.{type(e).__name__}: {str(e)[:90]}")

# (a) perfectly valid data: optional column "c" is simply not there
s_opt = pa.DataFrameSchema(
    {"a": pa.Column(int), "c": pa.Column(int, required=False)}, unique=["c"]
)
attempt("pandas optional column absent, eager", lambda: s_opt.validate(pd.DataFrame({"a": [1, 2]})))

# (b) lazy mode is meant to report the missing column, not crash afterwards
s_req = pa.DataFrameSchema({"a": pa.Column(int), "c": pa.Column(int)}, unique=["c"])
attempt("pandas required column missing, lazy", lambda: s_req.validate(pd.DataFrame({"a": [1, 2]}), lazy=True))

# (c) the polars sibling has the same hole
p_opt = pap.DataFrameSchema(
    {"a": pap.Column(pl.Int64), "c": pap.Column(pl.Int64, required=False)}, unique=["c"]
)
attempt("polars optional column absent, eager", lambda: p_opt.validate(pl.DataFrame({"a": [1, 2]})))
sys.exit(1 if violated else 0)
