"""C06 hunt 5: a MultiIndex schema with coerce=True applied to data that has a
plain (single-level) index leaks pandera's internal BackendNotFoundError;
without coerce the very same mismatch is reported as SchemaError(s)."""
import sys; sys.path.insert(0, "/repo")
import warnings; warnings.simplefilter("ignore")
import pandas as pd
import pandera as pa
from pandera.errors import SchemaError, SchemaErrors

def mi(coerce):
    return pa.MultiIndex(
        [pa.Index(int, name="i"), pa.Index(str, name="j")], coerce=coerce
    )

flat = pd.DataFrame({"a": [1, 2]}, index=pd.Index([1, 2], name="i"))
violated = False

def attempt(label, fn):
    global violated
    try:
        fn()
        print(f"{label}: returned")
    except (SchemaError, SchemaErrors) as e:
        print(f"{label}: documented {type(e).__name__}")
    except Exception as e:  # noqa
        violated = True
        print(f"{label}: LEAKED {type(e).__module__}.{type(e).__name__}: {str(e)[:110]}")

for lazy in (False, True):
    attempt(f"no coerce, lazy={lazy}",
            lambda: pa.DataFrameSchema({"a": pa.Column(int)}, index=mi(False)).validate(flat, lazy=lazy))
    attempt(f"MultiIndex(coerce=True), lazy={lazy}",
            lambda: pa.DataFrameSchema({"a": pa.Column(int)}, index=mi(True)).validate(flat, lazy=lazy))
    attempt(f"DataFrameSchema(coerce=True), lazy={lazy}",
            lambda: pa.DataFrameSchema({"a": pa.Column(int)}, index=mi(False), coerce=True).validate(flat, lazy=lazy))
# the mirror image (Index schema with coerce on MultiIndex data) is handled:
two = pd.DataFrame({"a": [1, 2]}, index=pd.MultiIndex.from_tuples([(1, "x"), (2, "y")], names=["i", "j"]))
attempt("mirror: Index(coerce=True) on MultiIndex data",
        lambda: pa.DataFrameSchema({"a": pa.Column(int)}, index=pa.Index(int, name="i", coerce=True)).validate(two))
sys.exit(1 if violated else 0)
