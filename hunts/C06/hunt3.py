"""C06 hunt 3: polars validate(..., sample=n) leaks AttributeError."""
import sys; sys.path.insert(0, "/repo")
import warnings; warnings.simplefilter("ignore")
import polars as pl
import pandera.polars as pa
from pandera.errors import SchemaError, SchemaErrors
from pandera.config import get_config_context

schema = pa.DataFrameSchema({"a": pa.Column(pl.Int64, pa.Check.gt(0))})
df = pl.DataFrame({"a": [1, 2, 3, 4]})
cfg_before = get_config_context()
violated = False
for label, obj in (("DataFrame", df), ("LazyFrame", df.lazy())):
    for kw in ({"head": 2}, {"tail": 2}, {"sample": 2, "random_state": 0}):
        try:
            schema.validate(obj, **kw)
            print(f"{label} {kw}: returned")
        except (SchemaError, SchemaErrors) as e:
            print(f"{label} {kw}: documented {type(e).__name__}")
        except Exception as e:  # noqa
            violated = True
            print(f"{label} {kw}: LEAKED {type(e).__name__}: {e}")
# also on a single column component
try:
    pa.Column(pl.Int64, name="a").validate(df, sample=2)
    print("Column.validate sample: returned")
except Exception as e:  # noqa
    violated = True
    print(f"Column.validate sample=2: LEAKED {type(e).__name__}: {e}")
print("config restored:", get_config_context() == cfg_before)
sys.exit(1 if violated else 0)
