"""C09 / polars + pyspark engines: Decimal.check() raises AssertionError for a
non-decimal type instead of answering False, so validating a non-decimal column
against a Decimal column crashes instead of reporting a SchemaError."""
import sys

sys.path.insert(0, "/repo")
import warnings

warnings.simplefilter("ignore")

import polars as pl  # noqa: E402
import pyspark.sql.types as T  # noqa: E402

import pandera.polars as pa  # noqa: E402
from pandera.errors import SchemaError, SchemaErrors  # noqa: E402
from pandera.engines import polars_engine, pyspark_engine  # noqa: E402

violations = 0

# 1. dtype level: a numeric type asked about a type of another kind
pairs = [
    (polars_engine.Engine, pl.Decimal(10, 2), [pl.Int64, pl.Float64, pl.Boolean, pl.Utf8, pl.Datetime("us")]),
    (pyspark_engine.Engine, T.DecimalType(10, 2), [T.LongType(), T.DoubleType(), T.BooleanType(), T.StringType(), T.TimestampType()]),
]
for E, dec, others in pairs:
    d = E.dtype(dec)
    assert d.check(d) is True or bool(d.check(d))
    for o in others:
        other = E.dtype(o)
        try:
            res = d.check(other)
            print(f"{E.__module__.split('.')[-1]}: {d!r}.check({other!r}) -> {res!r}")
            if res:
                violations += 1
        except AssertionError as exc:
            violations += 1
            print(f"{E.__module__.split('.')[-1]}: {d!r}.check({other!r}) raised AssertionError: {exc}")
        # the symmetric question is answered properly
        assert not other.check(d)

# 2. user level: wrong-dtype data is exactly what validate() is for
schema = pa.DataFrameSchema({"price": pa.Column(pl.Decimal(10, 2))})
df = pl.DataFrame({"price": [1.5, 2.5]})
for lazy in (False, True):
    try:
        schema.validate(df, lazy=lazy)
        print(f"validate(lazy={lazy}) passed ?!")
        violations += 1
    except (SchemaError, SchemaErrors) as exc:
        print(f"validate(lazy={lazy}) -> {type(exc).__name__} (expected)")
    except AssertionError as exc:
        violations += 1
        print(f"validate(lazy={lazy}) -> AssertionError escaped: {exc}")

if violations:
    print(f"VIOLATION: {violations} dtype checks raised instead of returning False")
    sys.exit(1)
print("property held")
sys.exit(0)
