"""C09 / pandas engine: the pyarrow aliases resolve to *unequal* types before and
after the first parametrised pyarrow dtype has been resolved."""
import sys

sys.path.insert(0, "/repo")
import warnings

warnings.simplefilter("ignore")

import pandas as pd  # noqa: E402
import pyarrow  # noqa: E402

import pandera as pa  # noqa: E402
from pandera.engines import pandas_engine  # noqa: E402

E = pandas_engine.Engine
aliases = ["int64[pyarrow]", "bool[pyarrow]", "double[pyarrow]", "date32[day][pyarrow]", pyarrow.int64, pd.ArrowDtype(pyarrow.string())]

before = [E.dtype(a) for a in aliases]
schema_before = pa.DataFrameSchema({"a": pa.Column("int64[pyarrow]")})

# any parametrised pyarrow dtype (timestamp, decimal128, list, ...) takes the
# is_pyarrow_dtype() branch of pandas_engine.Engine.dtype
E.dtype(pd.ArrowDtype(pyarrow.timestamp("ns")))

after = [E.dtype(a) for a in aliases]
schema_after = pa.DataFrameSchema({"a": pa.Column("int64[pyarrow]")})

violations = 0
for a, b, c in zip(aliases, before, after):
    same = (b == c) and hash(b) == hash(c)
    print(f"{a!r:30} before={type(b).__module__.split('.')[-1]}.{type(b).__name__:12} "
          f"after={type(c).__module__.split('.')[-1]}.{type(c).__name__:12} equal={b == c}")
    if not same:
        violations += 1

# documented-equivalent spellings of one type, resolved at the same moment
x = E.dtype(pandas_engine.ArrowInt64)      # pandera dtype class
y = E.dtype("int64[pyarrow]")              # its printed name / string alias
print("Engine.dtype(pandas_engine.ArrowInt64) == Engine.dtype('int64[pyarrow]'):", x == y)
print("Engine.dtype(str(x)) == x:", E.dtype(str(x)) == x)
if x != y:
    violations += 1
print("schema built before == identical schema built after:", schema_before == schema_after)
if schema_before != schema_after:
    violations += 1

if violations:
    print(f"VIOLATION: {violations} spellings stopped resolving to equal objects")
    sys.exit(1)
print("property held")
sys.exit(0)
