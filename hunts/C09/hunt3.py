"""C09 / pandas engine: the printed name of pyarrow timestamp / duration / time
types cannot be resolved back (str(dtype) is what to_yaml/to_json write)."""
import sys

sys.path.insert(0, "/repo")
import warnings

warnings.simplefilter("ignore")

import pandas as pd  # noqa: E402
import pyarrow  # noqa: E402

import pandera as pa  # noqa: E402
from pandera.engines import pandas_engine  # noqa: E402

E = pandas_engine.Engine

natives = [
    pd.ArrowDtype(pyarrow.timestamp("ns")),
    pd.ArrowDtype(pyarrow.timestamp("us", tz="UTC")),
    pd.ArrowDtype(pyarrow.timestamp("ms", tz="Europe/Paris")),
    pd.ArrowDtype(pyarrow.duration("ns")),
    pd.ArrowDtype(pyarrow.time32("s")),
    pd.ArrowDtype(pyarrow.time64("us")),
    # controls: non-parametrised arrow types do round trip
    pd.ArrowDtype(pyarrow.int64()),
    pd.ArrowDtype(pyarrow.date32()),
]

violations = 0
for native in natives:
    t = E.dtype(native)
    name = str(t)
    # pandas itself understands the printed name
    assert pd.api.types.pandas_dtype(name) == native, name
    try:
        back = E.dtype(name)
        ok = back == t and hash(back) == hash(t)
        print(f"{name!r:42} -> {back!r}  equal={ok}")
    except TypeError as exc:
        ok = False
        print(f"{name!r:42} -> TypeError: {exc}")
    if not ok:
        violations += 1

# consequence: a schema holding such a column cannot be reloaded
schema = pa.DataFrameSchema({"ts": pa.Column(pd.ArrowDtype(pyarrow.timestamp("ns", tz="UTC")))})
df = pd.DataFrame({"ts": pd.Series(pd.to_datetime(["2020-01-01"], utc=True)).astype(pd.ArrowDtype(pyarrow.timestamp("ns", tz="UTC")))})
schema.validate(df)
try:
    text = schema.to_yaml()
    line = [l for l in text.splitlines() if "dtype" in l and "pyarrow" in l]
    print("to_yaml wrote:", line)
    reloaded = pa.DataFrameSchema.from_yaml(text)
    reloaded.validate(df)
    print("yaml round trip ok")
except Exception as exc:  # pylint: disable=broad-except
    violations += 1
    print(f"yaml round trip failed: {type(exc).__name__}: {exc}")

if violations:
    print(f"VIOLATION: {violations} printed names do not resolve back to an equal type")
    sys.exit(1)
print("property held")
sys.exit(0)
