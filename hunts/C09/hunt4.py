"""C09 / pyspark engine: the printed name of a DecimalType(p, s) resolves,
silently, to the default DecimalType(10, 0)."""
import sys

sys.path.insert(0, "/repo")
import warnings

warnings.simplefilter("ignore")

import pyspark.sql.types as T  # noqa: E402

import pandera.pyspark as pa  # noqa: E402
from pandera.engines import pyspark_engine  # noqa: E402

E = pyspark_engine.Engine

violations = 0
for precision, scale in [(20, 5), (38, 18), (5, 2), (10, 0)]:
    native = T.DecimalType(precision, scale)
    t = E.dtype(native)                      # native instance -> Decimal(p, s)
    name = str(t)                            # 'DecimalType(20,5)'
    back = E.dtype(name)                     # printed name -> ?
    ok = back == t and hash(back) == hash(t)
    print(f"{native!r:20} -> {t!r:32} str={name!r:20} -> {back!r:32} "
          f"equal={back == t} check={t.check(back)}")
    if not ok:
        violations += 1

# the Spark DDL spelling is accepted as well and has the same fate
col = pa.Column("decimal(20,5)")
print("pa.Column('decimal(20,5)').dtype ->", repr(col.dtype), "precision/scale =", col.dtype.precision, col.dtype.scale)
if (col.dtype.precision, col.dtype.scale) != (20, 5):
    violations += 1
same = E.dtype("DecimalType(20,5)") == E.dtype("DecimalType(38,18)")
print("Engine.dtype('DecimalType(20,5)') == Engine.dtype('DecimalType(38,18)'):", same)
if same:
    violations += 1

if violations:
    print(f"VIOLATION: {violations} decimal spellings lost their precision/scale")
    sys.exit(1)
print("property held")
sys.exit(0)
