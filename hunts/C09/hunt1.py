"""C09 / numpy engine: abstract pandera number instances resolve to the wrong bit width."""
import sys

sys.path.insert(0, "/repo")
import warnings

warnings.simplefilter("ignore")

import numpy as np  # noqa: E402

import pandera as pa  # noqa: E402
from pandera.engines import numpy_engine  # noqa: E402

E = numpy_engine.Engine

# (instance spelling, equivalent spellings of the very same type)
cases = [
    (pa.Float64(), [pa.Float64, "float64", np.float64, float]),
    (pa.Float(), [pa.Float, "float", float]),
    (pa.Complex128(), [pa.Complex128, "complex128", np.complex128, complex]),
    (pa.Int(), [pa.Int, "int", int, np.int64]),
    (pa.UInt(), [pa.UInt, "uint", np.uint64]),
]

violations = 0
for inst, others in cases:
    got = E.dtype(inst)
    print(f"numpy_engine.Engine.dtype({inst!r:22}) -> {got!r:22} bit_width={got.bit_width}")
    for other in others:
        exp = E.dtype(other)
        same = got == exp and hash(got) == hash(exp)
        if not same:
            violations += 1
            print(
                f"    but equivalent spelling {other!r} -> {exp!r} "
                f"(bit_width={exp.bit_width}); check={exp.check(got)}"
            )
    if got.bit_width != inst.bit_width:
        violations += 1
        print(
            f"    bit width changed: abstract {inst.bit_width} -> resolved {got.bit_width}"
        )

# sanity: the pandas engine (sibling) gets the same spellings right
from pandera.engines import pandas_engine  # noqa: E402

print("pandas sibling:", repr(pandas_engine.Engine.dtype(pa.Float64())),
      repr(pandas_engine.Engine.dtype(pa.Int())))

if violations:
    print(f"VIOLATION: {violations} mismatches between documented-equivalent spellings")
    sys.exit(1)
print("property held")
sys.exit(0)
