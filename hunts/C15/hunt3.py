import sys; sys.path.insert(0, "/repo")
import warnings; warnings.filterwarnings("ignore")
import pandas as pd
import pandera as pa
from pandera import Column, Index, MultiIndex, DataFrameSchema

S = DataFrameSchema(
    {"c": Column(int)},
    index=MultiIndex([Index(int, name="i1"), Index(int, name="i2"), Index(str, name="i3")]),
)
D = pd.DataFrame(
    {"c": [1, 2]},
    index=pd.MultiIndex.from_arrays([[1, 2], [3, 4], ["x", "y"]], names=["i1", "i2", "i3"]),
)
S.validate(D)

S1 = S.reset_index(level=["i1"])           # 3 levels -> 2 levels
D1 = D.reset_index(level=["i1"])
print("index.columns :", list(S1.index.columns))
print("index.names   :", S1.index.names)
print("index.indexes :", S1.index.indexes)

expected = DataFrameSchema(
    {"c": Column(int), "i1": Column(int)},
    index=MultiIndex([Index(int, name="i2"), Index(str, name="i3")]),
)
violated = False
if S1 != expected:
    print("VIOLATION: partially reset schema != hand-built schema (stale MultiIndex.indexes)")
    violated = True
if S1.index.names != list(D1.index.names):
    print("VIOLATION: schema index names", S1.index.names, "!= frame index names", list(D1.index.names))
    violated = True

# composition: reset the rest, exactly as one would on the frame
D2 = D1.reset_index()
try:
    S2 = S1.reset_index()
    S2.validate(D2)
    print("composition ok")
except Exception as exc:  # SchemaInitError: Keys ['i1'] not found in schema columns!
    print("VIOLATION: S.reset_index(['i1']).reset_index() raised",
          type(exc).__name__, "-", exc)
    violated = True
sys.exit(1 if violated else 0)
