import sys; sys.path.insert(0, "/repo")
import warnings; warnings.filterwarnings("ignore")
import pandas as pd
import pandera as pa
from pandera import Column, DataFrameSchema

# S: columns a, b must be JOINTLY unique
S = DataFrameSchema({"a": Column(int), "b": Column(int)}, unique=["a", "b"])
D = pd.DataFrame({"a": [1, 2], "b": [1, 1]})       # (1,1),(2,1) -> jointly unique
S.validate(D)
print("S accepts D")

op_S = S.rename_columns({"a": "x"})
op_D = D.rename(columns={"a": "x"})
print("op(S).columns =", list(op_S.columns), " op(S).unique =", op_S.unique)

violated = False
if op_S.unique != ["x", "b"]:
    print("VIOLATION: schema-level `unique` still names the old column:", op_S.unique)
    violated = True
try:
    op_S.validate(op_D)
    print("op(S) accepts op(D)")
except pa.errors.SchemaError as exc:
    print("VIOLATION: op(S) rejects op(D):", str(exc).splitlines()[0])
    violated = True

# inverse law is "satisfied" only because nothing was renamed in `unique`
sys.exit(1 if violated else 0)
