import sys; sys.path.insert(0, "/repo")
import warnings; warnings.filterwarnings("ignore")
import pandas as pd
import pandera as pa
from pandera import Column, DataFrameSchema

S = DataFrameSchema(
    {"a": Column(int), "b": Column(str), "c": Column(float)}, strict=True
)
violated = False
# Two different columns are mapped onto ONE new label: an invalid request
# (the resulting "schema" cannot describe df.rename(columns=...), which keeps
# both columns under a duplicated label).
try:
    T = S.rename_columns({"a": "x", "b": "x"})
except (pa.errors.SchemaInitError, ValueError) as exc:
    print("raised as required:", type(exc).__name__, exc)
else:
    print("no error; result columns:", {k: str(v.dtype) for k, v in T.columns.items()})
    print("VIOLATION: column 'a' (int64) silently vanished, schema has",
          len(T.columns), "columns instead of 3")
    violated = True
    D = pd.DataFrame({"a": [1], "b": ["s"], "c": [1.0]})
    S.validate(D)
    try:
        T.validate(D.rename(columns={"a": "x", "b": "x"}))
        print("op(S) accepts op(D)")
    except pa.errors.SchemaError as exc:
        print("op(S) rejects op(D):", str(exc).splitlines()[0])

# the same hole when the target collides only after the rename is applied
# to an existing name that is itself renamed away in the same call (a swap,
# which pandas allows) is on the contrary refused:
try:
    S.rename_columns({"a": "b", "b": "a"})
    print("swap ok")
except pa.errors.SchemaInitError as exc:
    print("(note) legal swap refused:", exc)
sys.exit(1 if violated else 0)
