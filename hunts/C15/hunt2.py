import sys; sys.path.insert(0, "/repo")
import warnings; warnings.filterwarnings("ignore")
import pandas as pd
import pandera as pa
from pandera import Column, Index, DataFrameSchema

S = DataFrameSchema({"a": Column(int)}, index=Index(int, name="i"), ordered=True)
D = pd.DataFrame({"a": [1, 2]}, index=pd.Index([10, 20], name="i"))
S.validate(D)
print("S accepts D")

op_S = S.reset_index()
op_D = D.reset_index()
print("op(D).columns =", list(op_D.columns))      # ['i', 'a']  (pandas inserts at the front)
print("op(S).columns =", list(op_S.columns))      # ['a', 'i']  (schema appends at the end)

violated = False
try:
    op_S.validate(op_D)
    print("op(S) accepts op(D)")
except pa.errors.SchemaError as exc:
    print("VIOLATION: op(S) rejects op(D):", str(exc).splitlines()[0])
    violated = True

# inverse law: reset after set
S0 = DataFrameSchema({"i": Column(int), "a": Column(int)}, ordered=True)
back = S0.set_index(["i"]).reset_index()
print("reset_index(set_index(S0)) == S0 :", back == S0, list(back.columns))
if list(back.columns) != list(S0.columns):
    violated = True
sys.exit(1 if violated else 0)
