import sys; sys.path.insert(0, "/repo")
import warnings; warnings.filterwarnings("ignore")
import pandas as pd
import pandera as pa
from pandera import Column, Index, MultiIndex, DataFrameSchema

S = DataFrameSchema(
    {"c": Column(int)},
    index=MultiIndex([
        Index(int, name="i1", coerce=True, title="T1", description="d1",
              metadata={"k": 1}, report_duplicates="exclude_first", default=0),
        Index(int, name="i2", unique=True, title="T2", metadata={"k": 2},
              report_duplicates="exclude_last"),
    ]),
)
# level i1 holds numeric strings; Index(coerce=True) makes S accept it
D = pd.DataFrame(
    {"c": [1, 2]},
    index=pd.MultiIndex.from_arrays([["1", "2"], [3, 4]], names=["i1", "i2"]),
)
S.validate(D)
print("S accepts D")

violated = False
# (a) verdict: full reset
op_S, op_D = S.reset_index(), D.reset_index()
print("op(S).columns['i1'].coerce =", op_S.columns["i1"].coerce, "(Index had coerce=True)")
try:
    op_S.validate(op_D)
    print("op(S) accepts op(D)")
except pa.errors.SchemaError as exc:
    print("VIOLATION: op(S) rejects op(D):", str(exc).splitlines()[0])
    violated = True

# (b) untouched properties of the moved level and of the level that stays
p = S.reset_index(level=["i1"])
for attr, want in [("title", "T1"), ("description", "d1"), ("metadata", {"k": 1}),
                   ("report_duplicates", "exclude_first"), ("default", 0), ("coerce", True)]:
    got = getattr(p.columns["i1"], attr)
    if got != want:
        print(f"VIOLATION: moved level i1 lost {attr}: {got!r} != {want!r}"); violated = True
for attr, want in [("title", "T2"), ("metadata", {"k": 2}), ("report_duplicates", "exclude_last")]:
    got = getattr(p.index, attr)
    if got != want:
        print(f"VIOLATION: remaining level i2 lost {attr}: {got!r} != {want!r}"); violated = True

# (c) inverse law: set after reset
back = S.reset_index().set_index(["i1", "i2"])
print("set_index(reset_index(S)) == S :", back == S)
if back != S:
    violated = True
sys.exit(1 if violated else 0)
