"""C14 hunt3: non-nanosecond datetime64 columns are inferred as datetime64[ns];
the inferred schema rejects (or silently re-types) the frame it came from."""
import sys; sys.path.insert(0, "/repo")
import warnings; warnings.filterwarnings("ignore")
import numpy as np, pandas as pd
import pandera as pa

violations = 0
# (a) dates outside the ns range (legal since pandas 2.0 with unit 's')
df = pd.DataFrame({"built": np.array(["1215-06-15", "3000-01-01"], dtype="datetime64[s]")})
print("input dtype:", df["built"].dtype)
schema = pa.infer_schema(df)
print("inferred column dtype:", schema.columns["built"].dtype, "checks:", schema.columns["built"].checks)
try:
    schema.validate(df)
    print("(a) accepted")
except Exception as exc:  # noqa
    violations += 1
    print("(a) REJECTED its own source frame:", type(exc).__name__, str(exc).splitlines()[0])

# (b) in-range values: accepted, but the returned frame is not the same any more
df2 = pd.DataFrame({"t": np.array(["2000-01-01", "2001-01-01"], dtype="datetime64[ms]")})
out = pa.infer_schema(df2).validate(df2)
print("(b) in:", df2["t"].dtype, "out:", out["t"].dtype, "equals:", out.equals(df2))
if not out.equals(df2):
    violations += 1
# same for the index
df3 = pd.DataFrame({"v": [1, 2]}, index=pd.Index(np.array(["1215-06-15", "3000-01-01"], dtype="datetime64[s]")))
try:
    pa.infer_schema(df3).validate(df3); print("(c) index accepted")
except Exception as exc:  # noqa
    violations += 1
    print("(c) index REJECTED:", type(exc).__name__, str(exc).splitlines()[0][:150])
sys.exit(1 if violations else 0)
