"""C14 hunt4: schema inferred from timezone-aware datetimes cannot be serialised."""
import sys; sys.path.insert(0, "/repo")
import warnings; warnings.filterwarnings("ignore")
import pandas as pd
import pandera as pa
from pandera.io import from_yaml

violations = 0
frames = {
    "tz-aware column": pd.DataFrame({"ts": pd.to_datetime(["2020-01-01", "2021-01-01"]).tz_localize("UTC")}),
    "tz-aware index": pd.DataFrame({"v": [1, 2]}, index=pd.to_datetime(["2020-01-01", "2021-01-01"]).tz_localize("Europe/Paris")),
}
for label, df in frames.items():
    schema = pa.infer_schema(df)
    schema.validate(df)
    print(f"{label}: direct validation ok")
    for fmt, ser, de in (("yaml", schema.to_yaml, from_yaml), ("json", schema.to_json, pa.io.from_json)):
        try:
            text = ser()
            de(text).validate(df)
            print(f"  {fmt}: round trip ok")
        except Exception as exc:  # noqa
            violations += 1
            print(f"  {fmt}: FAIL {type(exc).__name__}: {str(exc)[:120]}")
# control: the naive equivalent round-trips
naive = pd.DataFrame({"ts": pd.to_datetime(["2020-01-01", "2021-01-01"])})
from_yaml(pa.infer_schema(naive).to_yaml()).validate(naive); print("control (naive datetimes): ok")
sys.exit(1 if violations else 0)
