"""C14 hunt5: column of decimal.Decimal objects -> inferred schema rejects it."""
import sys; sys.path.insert(0, "/repo")
import warnings; warnings.filterwarnings("ignore")
from decimal import Decimal
import pandas as pd
import pandera as pa

df = pd.DataFrame({"price": [Decimal("1.10"), Decimal("2.25"), Decimal("3.75")]})
schema = pa.infer_schema(df)
col = schema.columns["price"]
print("inferred dtype:", col.dtype, "| checks:", col.checks)
violations = 0
try:
    out = schema.validate(df)
    print("accepted; values unchanged:", out.equals(df))
    if not out.equals(df):
        violations += 1
        print(out)
except Exception as exc:  # noqa
    violations += 1
    print("REJECTED its own source frame:", type(exc).__name__, str(exc)[:200])
# Series path
s = pd.Series([Decimal("1.5")], name="p")
try:
    pa.infer_schema(s).validate(s); print("series accepted")
except Exception as exc:  # noqa
    violations += 1
    print("series REJECTED:", type(exc).__name__, str(exc)[:200])
# serialisation
try:
    from pandera.io import from_yaml
    from_yaml(schema.to_yaml()).validate(df); print("yaml round trip ok")
except Exception as exc:  # noqa
    violations += 1
    print("yaml round trip FAIL:", type(exc).__name__, str(exc)[:200])
sys.exit(1 if violations else 0)
