"""C14 hunt1: zero-row object (string) column / index -> infer_schema raises TypeError."""
import sys; sys.path.insert(0, "/repo")
import warnings; warnings.filterwarnings("ignore")
import pandas as pd
import pandera as pa

cases = {
    "pd.DataFrame(columns=['a','b'])": pd.DataFrame(columns=["a", "b"]),
    "zero-row frame after filtering a string column": pd.DataFrame({"s": ["x", "y"], "n": [1, 2]}).query("n > 5"),
    "pd.Series([], dtype=object)": pd.Series([], dtype=object),
    "empty object index": pd.DataFrame({"n": pd.Series([], dtype="int64")}, index=pd.Index([], dtype=object)),
}
violations = 0
for label, obj in cases.items():
    try:
        schema = pa.infer_schema(obj)
        out = schema.validate(obj)
        print(f"OK   {label}: inferred and validated")
    except Exception as exc:  # noqa
        violations += 1
        print(f"FAIL {label}: {type(exc).__name__}: {exc}")
# control: an empty *numeric* column works, so empties are meant to be supported
ctrl = pd.DataFrame({"a": pd.Series([], dtype="float64")})
pa.infer_schema(ctrl).validate(ctrl); print("control (empty float64 column): ok")
sys.exit(1 if violations else 0)
