"""C14 hunt2: DataFrame without columns -> infer_schema raises AttributeError."""
import sys; sys.path.insert(0, "/repo")
import warnings; warnings.filterwarnings("ignore")
import pandas as pd
import pandera as pa

cases = {
    "pd.DataFrame()": pd.DataFrame(),
    "pd.DataFrame(index=['x','y'])": pd.DataFrame(index=["x", "y"]),
    "df[[]] (all columns deselected)": pd.DataFrame({"a": [1, 2]})[[]],
}
violations = 0
for label, obj in cases.items():
    try:
        schema = pa.infer_schema(obj)
        out = schema.validate(obj)
        assert out.equals(obj)
        print(f"OK   {label}")
    except Exception as exc:  # noqa
        violations += 1
        print(f"FAIL {label}: {type(exc).__name__}: {exc}")
# control: the equivalent hand written schema accepts the frame
pa.DataFrameSchema(columns={}, index=pa.Index(str)).validate(cases["pd.DataFrame(index=['x','y'])"])
print("control (hand-written column-less schema validates): ok")
sys.exit(1 if violations else 0)
