import sys; sys.path.insert(0, "/repo")
import warnings; warnings.filterwarnings("ignore")
import pandas as pd
import pandera as pa
from pandera import DataFrameSchema, Column
from pandera.io import to_yaml, from_yaml, to_json, from_json, to_script

def verdict(S, df):
    try:
        S.validate(df); return "pass"
    except pa.errors.SchemaError:
        return "FAIL"

def via_script(S):
    ns = {}; exec(to_script(S), ns); return ns["schema"]

bad = 0
for label, dtype in (("pd.CategoricalDtype", pd.CategoricalDtype(["a", "b"], ordered=True)),
                     ("pa.Category", pa.Category(categories=["a", "b"], ordered=True))):
    S = DataFrameSchema({"c": Column(dtype)})
    probe = pd.DataFrame({"c": pd.Categorical(["a", "z"], categories=["a", "b", "z"])})
    for name, f in (("yaml", lambda s: from_yaml(to_yaml(s))),
                    ("json", lambda s: from_json(to_json(s))),
                    ("script", via_script)):
        S2 = f(S)
        d1, d2 = S.columns["c"].dtype, S2.columns["c"].dtype
        print(f"{label} via {name}: categories {d1.categories}/ordered={d1.ordered} -> "
              f"{d2.categories}/ordered={d2.ordered}; equal={S2 == S}; "
              f"verdict original={verdict(S, probe)} reread={verdict(S2, probe)}")
        bad += (S2 != S) or verdict(S, probe) != verdict(S2, probe)
sys.exit(1 if bad else 0)
