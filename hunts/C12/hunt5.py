import sys; sys.path.insert(0, "/repo")
import warnings; warnings.filterwarnings("ignore")
import pandas as pd
import pandera as pa
from pandera import DataFrameSchema, Column, Index, MultiIndex
from pandera.io import to_yaml, from_yaml, to_json, from_json, to_script

def verdict(S, df):
    try:
        S.validate(df); return "pass"
    except pa.errors.SchemaError:
        return "FAIL"

def via_script(S):
    ns = {}; exec(to_script(S), ns); return ns["schema"]

levels = lambda: [Index(int, name="i"), Index(int, name="j")]
cases = {
    "strict=True": (
        MultiIndex(levels(), strict=True),
        pd.DataFrame({"a": [1]}, index=pd.MultiIndex.from_tuples([(1, 1, 1)], names=["i", "j", "k"])),
    ),
    "coerce=True": (
        MultiIndex(levels(), coerce=True),
        pd.DataFrame({"a": [1]}, index=pd.MultiIndex.from_tuples([("1", "2")], names=["i", "j"])),
    ),
    "ordered=False": (
        MultiIndex(levels(), ordered=False),
        pd.DataFrame({"a": [1]}, index=pd.MultiIndex.from_tuples([(1, 2)], names=["j", "i"])),
    ),
    "name='key'": (MultiIndex(levels(), name="key"), pd.DataFrame({"a": [1]}, index=pd.MultiIndex.from_tuples([(1, 2)], names=["i", "j"]))),
}
bad = 0
for label, (mi, probe) in cases.items():
    S = DataFrameSchema({"a": Column(int)}, index=mi)
    for name, f in (("yaml", lambda s: from_yaml(to_yaml(s))),
                    ("json", lambda s: from_json(to_json(s))),
                    ("script", via_script)):
        S2 = f(S)
        got = {k: getattr(S2.index, k) for k in ("strict", "coerce", "ordered", "name")}
        v1, v2 = verdict(S, probe), verdict(S2, probe)
        print(f"MultiIndex({label}) via {name}: equal={S2 == S} reread={got} verdict original={v1} reread={v2}")
        bad += (S2 != S) or v1 != v2
sys.exit(1 if bad else 0)
