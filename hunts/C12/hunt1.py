import sys; sys.path.insert(0, "/repo")
import warnings; warnings.filterwarnings("ignore")
import pandas as pd
from pandera import DataFrameSchema, Column
from pandera.io import to_yaml, from_yaml, to_json, from_json, to_script

# dataframe-level dtype is a documented constructor argument of DataFrameSchema
S = DataFrameSchema({"a": Column(), "b": Column()}, dtype=int, coerce=True)
print("validate works:", S.validate(pd.DataFrame({"a": ["1"], "b": ["2"]})).dtypes.tolist())

bad = 0
for name, dump, load in (("yaml", to_yaml, from_yaml), ("json", to_json, from_json)):
    try:
        text = dump(S)
        S2 = load(text)
        print(name, "round trip equal:", S2 == S)
        bad += S2 != S
    except Exception as exc:  # noqa
        print(f"{name}: to_{name}(S) raised {type(exc).__name__}: {exc}")
        bad += 1

ns = {}
exec(to_script(S), ns)
print("script round trip equal (for contrast):", ns["schema"] == S)
sys.exit(1 if bad else 0)
