import sys; sys.path.insert(0, "/repo")
import warnings; warnings.filterwarnings("ignore")
import pandas as pd
import pandera as pa
from pandera import DataFrameSchema, Column, Index
from pandera.io import to_script, to_yaml, from_yaml

def verdict(S, df):
    try:
        S.validate(df); return "pass"
    except pa.errors.SchemaError as e:
        return "FAIL"

def via_script(S):
    ns = {}
    exec(to_script(S), ns)
    return ns["schema"]

bad = 0
# (a) integer labels (the default labels of pd.DataFrame([[...]])) become strings
S = DataFrameSchema({0: Column(int), 1: Column(int)}, index=Index(int, name=0))
df = pd.DataFrame([[1, 2]], index=pd.Index([5], name=0))
S2 = via_script(S)
print("column keys:", list(S.columns), "->", list(S2.columns))
print("index name :", repr(S.index.name), "->", repr(S2.index.name))
print("equal:", S2 == S, "| verdict original:", verdict(S, df), "reread:", verdict(S2, df))
print("yaml round trip equal (contrast):", from_yaml(to_yaml(S)) == S)
bad += (S2 != S)

# (b) quotes / newlines / backslashes in column labels, titles and descriptions
cases = {
    "multi-line column description": DataFrameSchema({"a": Column(int, description="first line\nsecond line")}),
    'column title with a double quote': DataFrameSchema({"a": Column(int, title='size in "')}),
    "column label with an apostrophe": DataFrameSchema({"it's": Column(int)}),
    "index description with a quote": DataFrameSchema({"a": Column(int)}, index=Index(int, name="i", description='the "key"')),
    r"regex column label with \b": DataFrameSchema({r"\bfoo\d": Column(int, regex=True)}),
    r"column description with \t": DataFrameSchema({"a": Column(int, description=r"path C:\tmp")}),
}
for label, S in cases.items():
    try:
        S2 = via_script(S)
        print(f"{label}: equal={S2 == S}")
        bad += S2 != S
    except Exception as exc:
        print(f"{label}: {type(exc).__name__}: {str(exc).splitlines()[0]}")
        bad += 1
# the same strings at dataframe level are fine (they go through repr)
S = DataFrameSchema({"a": Column(int)}, title='size in "', description="first\nsecond")
print("dataframe-level title/description (contrast): equal =", via_script(S) == S)
sys.exit(1 if bad else 0)
