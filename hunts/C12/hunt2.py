import sys; sys.path.insert(0, "/repo")
import warnings; warnings.filterwarnings("ignore")
import pandas as pd
import pandera as pa
from pandera import DataFrameSchema, Column, Check
from pandera.io import to_yaml, from_yaml, to_json, from_json, to_script

def verdict(S, df):
    try:
        S.validate(df); return "pass"
    except pa.errors.SchemaError:
        return "FAIL"

bad = 0
# (a) a bound with sub-second precision is silently truncated to whole seconds
bound = pd.Timestamp("2020-01-01 00:00:00.500")
S = DataFrameSchema({"t": Column("datetime64[ns]", Check.ge(bound))})
probe = pd.DataFrame({"t": [pd.Timestamp("2020-01-01 00:00:00.250")]})
for name, dump, load in (("yaml", to_yaml, from_yaml), ("json", to_json, from_json)):
    S2 = load(dump(S))
    b2 = S2.columns["t"].checks[0].statistics["min_value"]
    print(f"{name}: bound {bound} -> {b2}; equal={S2 == S}; "
          f"verdict original={verdict(S, probe)} reread={verdict(S2, probe)}")
    bad += (S2 != S) or verdict(S, probe) != verdict(S2, probe)
ns = {}; exec(to_script(S), ns)
print("script equal (contrast):", ns["schema"] == S)

# (b) a timezone-aware bound on a timezone-aware column cannot be written at all
S = DataFrameSchema({"t": Column("datetime64[ns, UTC]",
                                 Check.ge(pd.Timestamp("2020-01-01", tz="UTC")))})
for name, dump in (("yaml", to_yaml), ("json", to_json)):
    try:
        dump(S); print(name, "tz-aware: written")
    except Exception as exc:
        print(f"{name}: tz-aware bound: {type(exc).__name__}: {exc}"); bad += 1

# (c) nor can a datetime bound in a dataframe-level check
S = DataFrameSchema({"t": Column("datetime64[ns]")}, checks=Check.ge(pd.Timestamp("2020-01-01")))
for name, dump in (("yaml", to_yaml), ("json", to_json)):
    try:
        dump(S); print(name, "df-level: written")
    except Exception as exc:
        print(f"{name}: dataframe-level datetime check: {type(exc).__name__}: {exc}"); bad += 1
sys.exit(1 if bad else 0)
