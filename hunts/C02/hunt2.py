"""C02 / polars: lazy validation crashes with a polars exception (no SchemaErrors)
for Duration / List / Array / Binary columns, where eager raises a SchemaError."""
import sys

sys.path.insert(0, "/repo")
import warnings

warnings.filterwarnings("ignore")

import datetime as dt

import polars as pl

import pandera.polars as pa
from pandera.errors import SchemaError, SchemaErrors

cases = {
    "Duration + Check.ge": (
        pa.DataFrameSchema(
            {"d": pa.Column(pl.Duration, pa.Check.ge(dt.timedelta(0)))}
        ),
        pl.DataFrame({"d": [dt.timedelta(days=1), dt.timedelta(days=-1)]}),
    ),
    "Duration + unique": (
        pa.DataFrameSchema({"d": pa.Column(pl.Duration, unique=True)}),
        pl.DataFrame({"d": [dt.timedelta(days=1), dt.timedelta(days=1)]}),
    ),
    "List(Int64) + custom check": (
        pa.DataFrameSchema(
            {
                "l": pa.Column(
                    pl.List(pl.Int64),
                    pa.Check(
                        lambda d: d.lazyframe.select(
                            pl.col(d.key).list.len() <= 2
                        )
                    ),
                )
            }
        ),
        pl.DataFrame({"l": [[1, 2], [3, 4, 5]]}),
    ),
}

violated = False
for name, (schema, df) in cases.items():
    print("---", name)
    eager = lazy = None
    try:
        schema.validate(df, lazy=False)
    except Exception as exc:  # pylint: disable=broad-except
        eager = exc
    try:
        schema.validate(df, lazy=True)
    except Exception as exc:  # pylint: disable=broad-except
        lazy = exc
    print("  eager:", type(eager).__name__, getattr(eager, "reason_code", ""))
    print("  lazy :", type(lazy).__name__, str(lazy).split("\n")[0][:120])
    if isinstance(eager, SchemaError) and not isinstance(lazy, SchemaErrors):
        violated = True

if violated:
    print(
        "VIOLATION: eager raises SchemaError but lazy does not raise the "
        "collected SchemaErrors (it leaks a polars exception instead)"
    )
    sys.exit(1)
print("property held")
sys.exit(0)
