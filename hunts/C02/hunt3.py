"""C02 / polars: dataframe-level coercion stops at the first column that cannot be
coerced. The lazy report then (a) loses the coercion failure of later columns,
(b) invents dtype / check errors for a column that coerces fine, and (c) loses
that column's real check failure.  The pandas backend gets all three right."""
import sys

sys.path.insert(0, "/repo")
import warnings

warnings.filterwarnings("ignore")

import pandas as pd
import polars as pl

import pandera as pa_pd
import pandera.polars as pa
from pandera.errors import SchemaErrors

data = {
    "a": ["1", "x", "3"],  # 'x' (row 1) cannot become an int
    "b": ["1", "2", "-3"],  # coerces fine; -3 (row 2) violates gt(0)
    "c": ["1", "y", "3"],  # 'y' (row 1) cannot become an int
}

pl_schema = pa.DataFrameSchema(
    {
        "a": pa.Column(int),
        "b": pa.Column(int, pa.Check.gt(0)),
        "c": pa.Column(int),
    },
    coerce=True,
)
pd_schema = pa_pd.DataFrameSchema(
    {
        "a": pa_pd.Column(int),
        "b": pa_pd.Column(int, pa_pd.Check.gt(0)),
        "c": pa_pd.Column(int),
    },
    coerce=True,
)


def cells(fc_rows):
    return sorted(
        (str(check).split("(")[0], col, str(case), idx)
        for check, col, case, idx in fc_rows
    )


try:
    pd_schema.validate(pd.DataFrame(data), lazy=True)
    raise SystemExit("pandas: unexpectedly valid")
except SchemaErrors as exc:
    fc = exc.failure_cases
    pd_rows = cells(
        zip(fc["check"], fc["column"], fc["failure_case"], fc["index"])
    )
print("pandas lazy report:")
for r in pd_rows:
    print("   ", r)

try:
    pl_schema.validate(pl.DataFrame(data), lazy=True)
    raise SystemExit("polars: unexpectedly valid")
except SchemaErrors as exc:
    fc = exc.failure_cases
    pl_rows = cells(
        zip(fc["check"], fc["column"], fc["failure_case"], fc["index"])
    )
    counts = dict(exc.error_counts)
print("polars lazy report:", counts)
for r in pl_rows:
    print("   ", (r[0], r[1], r[2][:60], r[3]))

values = {(r[2], r[3]) for r in pl_rows}
lost_c_coercion = ("y", 1) not in values
lost_b_check = ("-3", 2) not in values
invented_b = [r for r in pl_rows if r[1] == "b" and r[0] in ("dtype", "greater_than") and r[3] is None]

print("coercion failure of column c ('y', row 1) missing :", lost_c_coercion)
print("check failure of column b (-3, row 2) missing      :", lost_b_check)
print("errors invented for the coercible column b          :", [(r[0], r[2][:40]) for r in invented_b])

if lost_c_coercion or lost_b_check or invented_b:
    print("VIOLATION: the polars lazy report is neither complete nor sound")
    sys.exit(1)
print("property held")
sys.exit(0)
