"""C02 / pandas: a column's coercion failure disappears from the lazy report when
the schema's MultiIndex also fails coercion (it is kept with a single Index)."""
import sys

sys.path.insert(0, "/repo")
import warnings

warnings.filterwarnings("ignore")

import pandas as pd

import pandera as pa
from pandera.errors import SchemaErrors


def coercion_cells(schema, df):
    """(schema_context, column, failure_case) of all DATATYPE_COERCION entries."""
    try:
        schema.validate(df, lazy=True)
        return None
    except SchemaErrors as exc:
        fc = exc.failure_cases
        fc = fc[fc["check"].astype(str).str.startswith("coerce_dtype")]
        print("      error_counts:", dict(exc.error_counts))
        return sorted(
            zip(fc["schema_context"], fc["column"], fc["failure_case"])
        )


multi_schema = pa.DataFrameSchema(
    {"a": pa.Column(int)},
    index=pa.MultiIndex([pa.Index(int, name="i"), pa.Index(str, name="j")]),
    coerce=True,
)
single_schema = pa.DataFrameSchema(
    {"a": pa.Column(int)}, index=pa.Index(int, name="i"), coerce=True
)

# column a: 'x' is not an int.  index level i: 'q' is not an int.
multi_df = pd.DataFrame(
    {"a": ["1", "x", "3"]},
    index=pd.MultiIndex.from_tuples(
        [("1", "u"), ("q", "v"), ("3", "w")], names=["i", "j"]
    ),
)
multi_df_good_index = pd.DataFrame(
    {"a": ["1", "x", "3"]},
    index=pd.MultiIndex.from_tuples(
        [("1", "u"), ("2", "v"), ("3", "w")], names=["i", "j"]
    ),
)
single_df = pd.DataFrame(
    {"a": ["1", "x", "3"]}, index=pd.Index(["1", "q", "3"], name="i")
)

print("single Index, column and index both uncoercible:")
single = coercion_cells(single_schema, single_df)
print("     ", single)
assert single == [("Column", "a", "x"), ("Index", "i", "q")]

print("MultiIndex, only the column uncoercible:")
only_col = coercion_cells(multi_schema, multi_df_good_index)
print("     ", only_col)
assert only_col == [("Column", "a", "x")]

print("MultiIndex, column and index level both uncoercible:")
both = coercion_cells(multi_schema, multi_df)
print("     ", both)

if ("Column", "a", "x") not in both:
    print(
        "VIOLATION: the coercion failure ('a', ('q', 'v'), 'x') is collected when "
        "the index is fine or is a single Index, but is lost from the lazy "
        "report when the MultiIndex fails coercion too"
    )
    sys.exit(1)
print("property held")
sys.exit(0)
