"""C02 / polars: validating with head=/tail= makes the error report name
conforming cells at arbitrary row numbers (and differ from run to run)."""
import sys

sys.path.insert(0, "/repo")
import warnings

warnings.filterwarnings("ignore")

import polars as pl

import pandera.polars as pa
from pandera.errors import SchemaError, SchemaErrors

schema = pa.DataFrameSchema({"a": pa.Column(int, pa.Check.gt(0))})
df = pl.DataFrame({"a": [1, 2, 3, 4, -5]})  # only offending cell: row 4, -5

# reference: the report without subsampling
try:
    schema.validate(df, lazy=True)
    raise SystemExit("unexpected: no error without head")
except SchemaErrors as exc:
    ref = exc.failure_cases.select("failure_case", "index").rows()
print("full validation report (failure_case, index):", ref)
assert ref == [("-5", 4)]

N = 25
lazy_reports, eager_reports = set(), set()
for _ in range(N):
    # head=5 covers the whole frame: the very same rows are validated
    try:
        schema.validate(df, head=5, lazy=True)
        lazy_reports.add("NO ERROR")
    except SchemaErrors as exc:
        lazy_reports.add(
            tuple(exc.failure_cases.select("failure_case", "index").rows())
        )
    try:
        schema.validate(df, head=5, lazy=False)
        eager_reports.add("NO ERROR")
    except SchemaError as exc:
        eager_reports.add(tuple(exc.failure_cases["a"].to_list()))

print(f"distinct lazy reports over {N} runs with head=5:")
for r in sorted(lazy_reports, key=str):
    print("   ", r)
print(f"distinct eager failure cases over {N} runs with head=5:")
for r in sorted(eager_reports, key=str):
    print("   ", r)

bad_lazy = {r for r in lazy_reports if r != (("-5", 4),)}
bad_eager = {r for r in eager_reports if r != (-5,)}
if bad_lazy or bad_eager:
    print(
        "VIOLATION: the report names conforming cells / wrong rows: "
        f"{len(bad_lazy)} wrong lazy report(s), {len(bad_eager)} wrong eager "
        "failure case(s)"
    )
    sys.exit(1)
print("property held")
sys.exit(0)
