"""C02 / pandas: SeriesSchema(index=...) with lazy=True drops every index error
from the report as soon as the series values have an error of their own."""
import sys

sys.path.insert(0, "/repo")
import warnings

warnings.filterwarnings("ignore")

import pandas as pd

import pandera as pa
from pandera.errors import SchemaError, SchemaErrors

schema = pa.SeriesSchema(
    int,
    pa.Check.gt(0),
    name="s",
    index=pa.Index(int, pa.Check.lt(5), name="i"),
)

# value -2 (label 3) violates gt(0);  index label 7 violates lt(5)
both_bad = pd.Series([1, 1, -2], name="s", index=pd.Index([1, 7, 3], name="i"))
# only the index is bad
index_bad = pd.Series([1, 1, 2], name="s", index=pd.Index([1, 7, 3], name="i"))


def lazy_cells(obj):
    try:
        schema.validate(obj, lazy=True)
        return None, None
    except SchemaErrors as exc:
        fc = exc.failure_cases
        return (
            sorted(
                zip(
                    fc["schema_context"],
                    fc["check"],
                    fc["failure_case"],
                    fc["index"],
                )
            ),
            dict(exc.error_counts),
        )


def eager(obj):
    try:
        schema.validate(obj, lazy=False)
        return None
    except SchemaError as exc:
        return exc


print("index-only violation:")
print("   eager:", str(eager(index_bad)).split("\n")[0][:90])
cells, counts = lazy_cells(index_bad)
print("   lazy :", cells, counts)
assert cells == [("Index", "less_than(5)", 7, 7)]  # the index IS validated

print("value + index violation:")
cells, counts = lazy_cells(both_bad)
print("   lazy :", cells, counts)

expected = [
    ("Index", "less_than(5)", 7, 7),
    ("SeriesSchema", "greater_than(0)", -2, 3),
]
print("   expected:", expected)

# cross-check with the equivalent DataFrameSchema, which reports both
df_schema = pa.DataFrameSchema(
    {"s": pa.Column(int, pa.Check.gt(0))},
    index=pa.Index(int, pa.Check.lt(5), name="i"),
)
try:
    df_schema.validate(both_bad.to_frame(), lazy=True)
except SchemaErrors as exc:
    print(
        "   DataFrameSchema equivalent reports:",
        sorted(zip(exc.failure_cases["schema_context"], exc.failure_cases["failure_case"])),
    )

if cells != expected:
    print(
        "VIOLATION: the lazy report omits the offending index label 7 "
        "(less_than(5)); error_counts =", counts
    )
    sys.exit(1)
print("property held")
sys.exit(0)
