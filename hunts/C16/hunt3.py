"""C16: Config options that a model's Config inherits through ordinary Python
inheritance (from a class that is not the Config of one of the model's own
bases) are silently replaced by the defaults."""
import sys; sys.path.insert(0, "/repo")
import pandas as pd
import pandera as pa
from pandera.errors import SchemaError, SchemaErrors


class StrictCoercing:  # project-wide config base, shared by unrelated models
    strict = True
    coerce = True


class Model(pa.DataFrameModel):
    a: int

    class Config(StrictCoercing):
        ordered = True


# sibling models sharing one model's Config
class First(pa.DataFrameModel):
    a: int

    class Config:
        strict = True
        coerce = True


class Second(pa.DataFrameModel):  # NOT a subclass of First
    a: int

    class Config(First.Config):
        pass


schema = pa.DataFrameSchema(
    {"a": pa.Column(int)}, strict=True, coerce=True, ordered=True
)


def verdict(validator, frame):
    try:
        validator.validate(frame, lazy=True)
        return "pass"
    except (SchemaError, SchemaErrors):
        return "fail"


ms, ss = Model.to_schema(), Second.to_schema()
print("Model.Config.strict/coerce      :", Model.Config.strict, Model.Config.coerce)
print("Model.to_schema() strict/coerce :", ms.strict, ms.coerce, "ordered:", ms.ordered)
print("Second.Config.strict/coerce     :", Second.Config.strict, Second.Config.coerce)
print("Second.to_schema() strict/coerce:", ss.strict, ss.coerce)
print("object schema strict/coerce     :", schema.strict, schema.coerce)

extra = pd.DataFrame({"a": [1], "zzz": [2]})      # undeclared column -> strict must reject
strs = pd.DataFrame({"a": ["1", "2"]})             # coerce must turn into ints
rows = []
for name, frame in (("extra column", extra), ("string ints", strs)):
    v = (verdict(Model, frame), verdict(Second, frame), verdict(schema, frame))
    rows.append(v)
    print(f"{name:13s} Model={v[0]} Second={v[1]} schema={v[2]}")

violated = (ms.strict, ms.coerce) != (True, True) or (ss.strict, ss.coerce) != (True, True)
violated |= any(v[0] != v[2] or v[1] != v[2] for v in rows)
if violated:
    print("VIOLATION: inherited Config options never reach the schema")
    sys.exit(1)
print("property held")
sys.exit(0)
