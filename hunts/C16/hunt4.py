"""C16: re-using one pa.Field(...) object for two attributes: defining the
subclass renames the parent's column; inside one class a column disappears."""
import sys; sys.path.insert(0, "/repo")
import pandas as pd
import pandera as pa
from pandera.errors import SchemaError, SchemaErrors

positive = pa.Field(gt=0)  # a reusable field specification


class Parent(pa.DataFrameModel):
    price: int = positive


# reference: an identical class, compiled BEFORE any subclass exists
class ParentTwin(pa.DataFrameModel):
    price: int = pa.Field(gt=0)


before = list(ParentTwin.to_schema().columns)


class Child(Parent):
    quantity: int = positive


after = list(Parent.to_schema().columns)
child = list(Child.to_schema().columns)
print("Parent columns expected (twin without subclass):", before)
print("Parent columns after defining Child            :", after)
print("Child columns (expected ['price', 'quantity']) :", child)

frame = pd.DataFrame({"price": [1, 2]})


def verdict(validator, frame):
    try:
        validator.validate(frame, lazy=True)
        return "pass"
    except (SchemaError, SchemaErrors):
        return "fail"


schema = pa.DataFrameSchema({"price": pa.Column(int, pa.Check.gt(0))})
vp, vs = verdict(Parent, frame), verdict(schema, frame)
print(f"frame with only 'price': Parent={vp} schema={vs}")


# same object twice inside one class: a column silently disappears
class OneClass(pa.DataFrameModel):
    price: int = positive
    quantity: int = positive


one = list(OneClass.to_schema().columns)
print("OneClass columns (expected ['price', 'quantity']):", one)

if after != before or child != ["price", "quantity"] or vp != vs or one != ["price", "quantity"]:
    print("VIOLATION: subclass definition altered the parent's schema / column lost")
    sys.exit(1)
print("property held")
sys.exit(0)
