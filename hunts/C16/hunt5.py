"""C16: a @pa.check method overridden in a subclass by a method of another
kind (@pa.dataframe_check, or a plain classmethod) is still enforced with the
parent's function."""
import sys; sys.path.insert(0, "/repo")
import pandas as pd
import pandera as pa
from pandera.errors import SchemaError, SchemaErrors


class Parent(pa.DataFrameModel):
    a: int
    b: int

    @pa.check("a")
    def rule(cls, series):
        return series > 0


class ChildDF(Parent):
    # override: the rule becomes a frame-level rule
    @pa.dataframe_check
    def rule(cls, df):
        return df["a"] + df["b"] > 0


class ChildPlain(Parent):
    # override: the rule is switched off / turned into a helper
    @classmethod
    def rule(cls, series):
        return series > -1000


class ChildSameKind(Parent):
    # control: override with the same decorator IS honoured
    @pa.check("b")
    def rule(cls, series):
        return series > 0


def describe(model):
    s = model.to_schema()
    return {k: [c.name for c in v.checks] for k, v in s.columns.items()}, [
        c.name for c in s.checks
    ]


def verdict(validator, frame):
    try:
        validator.validate(frame, lazy=True)
        return "pass"
    except (SchemaError, SchemaErrors):
        return "fail"


frame = pd.DataFrame({"a": [-1, -2], "b": [5, 5]})  # a <= 0, a + b > 0

schema_df = pa.DataFrameSchema(
    {"a": pa.Column(int), "b": pa.Column(int)},
    checks=pa.Check(lambda df: df["a"] + df["b"] > 0, name="rule"),
)
schema_plain = pa.DataFrameSchema({"a": pa.Column(int), "b": pa.Column(int)})

print("ChildSameKind (control):", describe(ChildSameKind))
print("ChildDF   :", describe(ChildDF), "| ChildDF.rule is the override:",
      bool(ChildDF.rule(frame).all()))
print("ChildPlain:", describe(ChildPlain))
v_df = (verdict(ChildDF, frame), verdict(schema_df, frame))
v_pl = (verdict(ChildPlain, frame), verdict(schema_plain, frame))
print(f"frame a=[-1,-2] b=[5,5]: ChildDF={v_df[0]} schema={v_df[1]}")
print(f"frame a=[-1,-2] b=[5,5]: ChildPlain={v_pl[0]} schema={v_pl[1]}")

if v_df[0] != v_df[1] or v_pl[0] != v_pl[1] or describe(ChildDF)[0]["a"]:
    print("VIOLATION: the overridden parent check is still part of the child's schema")
    sys.exit(1)
print("property held")
sys.exit(0)
