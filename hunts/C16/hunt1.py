"""C16: polars DataFrameModel ignores the parameters of Annotated[pl.Datetime, ...]
(and garbles Annotated[pl.Decimal, ...]) - model != equivalent DataFrameSchema."""
import sys; sys.path.insert(0, "/repo")
import datetime
from typing import Annotated

import polars as pl
import pandera.polars as pa
from pandera.errors import SchemaError, SchemaErrors


class Model(pa.DataFrameModel):
    ts: Annotated[pl.Datetime, "ms", "UTC"]


# the object-API schema the model describes
schema = pa.DataFrameSchema(
    {"ts": pa.Column(pl.Datetime("ms", "UTC"))}, name="Model"
)


def verdict(validator, frame):
    try:
        validator.validate(frame)
        return "pass"
    except (SchemaError, SchemaErrors):
        return "fail"


t = [datetime.datetime(2024, 1, 1, 12, 0, 0)]
good = pl.DataFrame({"ts": t}).with_columns(
    pl.col("ts").cast(pl.Datetime("ms", "UTC"))
)  # datetime[ms, UTC]  -> what the annotation asks for
bad = pl.DataFrame({"ts": t})  # datetime[us], naive -> wrong unit, no zone

model_dtype = Model.to_schema().columns["ts"].dtype
schema_dtype = schema.columns["ts"].dtype
print("model  column dtype :", model_dtype, "| time_zone_agnostic =",
      repr(model_dtype.time_zone_agnostic))
print("schema column dtype :", schema_dtype, "| time_zone_agnostic =",
      repr(schema_dtype.time_zone_agnostic))

violated = model_dtype != schema_dtype
for name, frame in (("good[ms,UTC]", good), ("bad[us,naive]", bad)):
    vm, vs = verdict(Model, frame), verdict(schema, frame)
    print(f"{name:20s} model={vm:5s} schema={vs:5s}")
    violated |= vm != vs


# same mechanism, other dtype: the Annotated object itself ends up as precision
class Money(pa.DataFrameModel):
    amount: Annotated[pl.Decimal, 10, 2]


dec_model = Money.to_schema().columns["amount"].dtype
dec_schema = pa.Column(pl.Decimal(10, 2)).dtype
print("Decimal model :", dec_model)
print("Decimal schema:", dec_schema)
violated |= dec_model != dec_schema

if violated:
    print("VIOLATION: Annotated dtype parameters are not honoured by the polars model")
    sys.exit(1)
print("property held")
sys.exit(0)
