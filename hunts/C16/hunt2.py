"""C16: @pa.check(field_a, field_b) given Field objects silently attaches the
check to only one of the fields."""
import sys; sys.path.insert(0, "/repo")
import pandas as pd
import pandera as pa
from pandera.errors import SchemaError, SchemaErrors


class Model(pa.DataFrameModel):
    a: int = pa.Field()
    b: int = pa.Field()

    # documented: "you can also use the variable name directly within the
    # class scope" (docs/source/dataframe_models.md, section Aliases)
    @pa.check(a, b)
    def positive(cls, series):
        return series > 0


class ModelStr(pa.DataFrameModel):
    a: int = pa.Field()
    b: int = pa.Field()

    @pa.check("a", "b")
    def positive(cls, series):
        return series > 0


positive = pa.Check(lambda s: s > 0, name="positive")
schema = pa.DataFrameSchema(
    {"a": pa.Column(int, positive), "b": pa.Column(int, positive)}
)


def verdict(validator, frame):
    try:
        validator.validate(frame, lazy=True)
        return "pass"
    except (SchemaError, SchemaErrors):
        return "fail"


def n_checks(s):
    return {k: [c.name for c in v.checks] for k, v in s.columns.items()}


print("model  (field objects):", n_checks(Model.to_schema()))
print("model  (strings)      :", n_checks(ModelStr.to_schema()))
print("schema                :", n_checks(schema))

frame = pd.DataFrame({"a": [1, 2], "b": [-1, -2]})  # b violates the check
vm, vstr, vs = verdict(Model, frame), verdict(ModelStr, frame), verdict(schema, frame)
print(f"frame with negative b: model={vm} model_str={vstr} schema={vs}")

if n_checks(Model.to_schema()) != n_checks(schema) or vm != vs:
    print("VIOLATION: the check on field 'b' was dropped silently")
    sys.exit(1)
print("property held")
sys.exit(0)
