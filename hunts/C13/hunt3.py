"""C13: vectorized custom checks (no registered strategy) on an Index or on a
MultiIndex level are ignored by the strategy, while the same check on a Column
is enforced by filtering."""
import sys

sys.path.insert(0, "/repo")
import warnings

warnings.filterwarnings("ignore")

import pandas as pd
from hypothesis import HealthCheck, given, seed, settings

import pandera as pa

is_even = pa.Check(lambda s: s % 2 == 0, name="is_even")

column_schema = pa.DataFrameSchema({"a": pa.Column(int, is_even)})
index_schema = pa.DataFrameSchema(
    {"a": pa.Column(int)}, index=pa.Index(int, is_even, name="k")
)
multi_schema = pa.DataFrameSchema(
    {"a": pa.Column(int)},
    index=pa.MultiIndex(
        [pa.Index(int, is_even, name="k0"), pa.Index(int, name="k1")]
    ),
)

# satisfiable
index_schema.validate(pd.DataFrame({"a": [1, 2]}, index=pd.Index([2, 4], name="k")))
multi_schema.validate(
    pd.DataFrame(
        {"a": [1, 2]},
        index=pd.MultiIndex.from_tuples([(2, 1), (4, 3)], names=["k0", "k1"]),
    )
)
print("hand-made valid frames accepted: True")

rejected = {"column": [], "index": [], "multiindex": []}
n = [0]


def _try(label, schema, df):
    try:
        schema.validate(df)
    except (pa.errors.SchemaError, pa.errors.SchemaErrors) as exc:
        rejected[label].append((df, exc))


@seed(0)
@settings(
    max_examples=30,
    deadline=None,
    database=None,
    derandomize=True,
    suppress_health_check=list(HealthCheck),
)
@given(
    column_schema.strategy(size=3),
    index_schema.strategy(size=3),
    multi_schema.strategy(size=3),
)
def run(df_col, df_idx, df_multi):
    n[0] += 1
    _try("column", column_schema, df_col)
    _try("index", index_schema, df_idx)
    _try("multiindex", multi_schema, df_multi)


run()
print(f"draws: {n[0]}")
for label, bad in rejected.items():
    print(f"  check on {label}: rejected {len(bad)}")
for label in ("index", "multiindex"):
    if rejected[label]:
        df, exc = rejected[label][0]
        print(f"first rejected draw ({label}):")
        print(df)
        print("error:", " ".join(str(exc).split())[:160])
if rejected["index"] or rejected["multiindex"]:
    print("VIOLATION: index strategy ignored a custom vectorized check")
    sys.exit(1)
print("property held")
sys.exit(0)
