"""C13: eq / isin on datetime64[ns] / timedelta64[ns] with a value that has
sub-microsecond precision: the strategy truncates the nanoseconds."""
import sys

sys.path.insert(0, "/repo")
import warnings

warnings.filterwarnings("ignore")

import pandas as pd
from hypothesis import HealthCheck, given, seed, settings

import pandera as pa

ts = pd.Timestamp("2021-03-04 05:06:07.123456789")
td = pd.Timedelta(nanoseconds=1500)

schemas = {
    "series datetime eq": pa.SeriesSchema("datetime64[ns]", pa.Check.eq(ts)),
    "series datetime isin": pa.SeriesSchema(
        "datetime64[ns]", pa.Check.isin([ts, ts + pd.Timedelta(1, "ns")])
    ),
    "series timedelta eq": pa.SeriesSchema("timedelta64[ns]", pa.Check.eq(td)),
    "dataframe datetime eq": pa.DataFrameSchema(
        {"t": pa.Column("datetime64[ns]", pa.Check.eq(ts))}
    ),
}

# satisfiable
schemas["series datetime eq"].validate(pd.Series([ts, ts]))
schemas["series timedelta eq"].validate(pd.Series([td, td]))
schemas["dataframe datetime eq"].validate(pd.DataFrame({"t": [ts, ts]}))
print("hand-made valid data accepted: True")

violations = 0
for label, schema in schemas.items():
    bad, total = [], [0]

    @seed(0)
    @settings(
        max_examples=10,
        deadline=None,
        database=None,
        derandomize=True,
        suppress_health_check=list(HealthCheck),
    )
    @given(schema.strategy(size=2))
    def run(obj):
        total[0] += 1
        try:
            schema.validate(obj)
        except (pa.errors.SchemaError, pa.errors.SchemaErrors) as exc:
            bad.append((obj, exc))

    run()
    print(f"{label}: draws {total[0]}, rejected {len(bad)}")
    if bad:
        violations += 1
        obj, exc = bad[0]
        values = obj if isinstance(obj, pd.Series) else obj["t"]
        print("   drawn values:", [str(v) for v in values])
        print("   error:", " ".join(str(exc).split())[:170])

if violations:
    print("VIOLATION: strategy dropped the nanoseconds of the eq/isin value")
    sys.exit(1)
print("property held")
sys.exit(0)
