"""C13: unique=True together with nullable=True yields several nulls, which
the uniqueness check counts as duplicates."""
import sys

sys.path.insert(0, "/repo")
import warnings

warnings.filterwarnings("ignore")

import numpy as np
import pandas as pd
from hypothesis import HealthCheck, given, seed, settings

import pandera as pa

series_schema = pa.SeriesSchema(float, unique=True, nullable=True)
df_schema = pa.DataFrameSchema(
    {"a": pa.Column(float, unique=True, nullable=True)}
)

# satisfiable: distinct values, at most one null
series_schema.validate(pd.Series([1.0, np.nan, 2.0]))
df_schema.validate(pd.DataFrame({"a": [1.0, np.nan, 2.0]}))
print("hand-made valid data accepted: True")

bad_series, bad_df, n = [], [], [0]


@seed(0)
@settings(
    max_examples=40,
    deadline=None,
    database=None,
    derandomize=True,
    suppress_health_check=list(HealthCheck),
)
@given(series_schema.strategy(size=5), df_schema.strategy(size=5))
def run(series, df):
    n[0] += 1
    try:
        series_schema.validate(series)
    except (pa.errors.SchemaError, pa.errors.SchemaErrors) as exc:
        bad_series.append((series, exc))
    try:
        df_schema.validate(df)
    except (pa.errors.SchemaError, pa.errors.SchemaErrors) as exc:
        bad_df.append((df, exc))


run()
print(f"draws: {n[0]}; SeriesSchema rejected {len(bad_series)}; DataFrameSchema rejected {len(bad_df)}")
for label, bad in (("series", bad_series), ("dataframe", bad_df)):
    if bad:
        obj, exc = bad[0]
        print(f"first rejected {label} draw:")
        print(obj)
        print("error:", " ".join(str(exc).split())[:160])
if bad_series or bad_df:
    print("VIOLATION: strategy emitted data with duplicate nulls for a unique+nullable field")
    sys.exit(1)
print("property held")
sys.exit(0)
