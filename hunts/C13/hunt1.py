"""C13: SeriesSchema.strategy ignores the schema's `index` component."""
import sys

sys.path.insert(0, "/repo")
import warnings

warnings.filterwarnings("ignore")

import pandas as pd
from hypothesis import HealthCheck, given, seed, settings

import pandera as pa

schema = pa.SeriesSchema(
    int,
    index=pa.Index(int, pa.Check.ge(100), name="key"),
)

# the schema is satisfiable
ok = pd.Series([1, 2, 3], index=pd.Index([100, 101, 102], name="key"))
schema.validate(ok)
print("hand-made valid series accepted: True")

# sibling: the same index component on a DataFrameSchema is honoured
df_schema = pa.DataFrameSchema(
    {"v": pa.Column(int)}, index=pa.Index(int, pa.Check.ge(100), name="key")
)

bad, good, df_bad = [], [], []


@seed(0)
@settings(
    max_examples=25,
    deadline=None,
    database=None,
    derandomize=True,
    suppress_health_check=list(HealthCheck),
)
@given(schema.strategy(size=3), df_schema.strategy(size=3))
def run(series, df):
    try:
        schema.validate(series)
        good.append(series)
    except (pa.errors.SchemaError, pa.errors.SchemaErrors) as exc:
        bad.append((series, exc))
    try:
        df_schema.validate(df)
    except (pa.errors.SchemaError, pa.errors.SchemaErrors) as exc:
        df_bad.append((df, exc))


run()
print(f"DataFrameSchema draws rejected: {len(df_bad)}")
print(f"SeriesSchema draws accepted: {len(good)}, rejected: {len(bad)}")
if bad:
    series, exc = bad[0]
    print("first rejected draw:")
    print(series)
    print("index:", series.index)
    print("error:", str(exc).splitlines()[0])
    print("VIOLATION: SeriesSchema.strategy emitted a series that fails SeriesSchema.validate")
    sys.exit(1)
print("property held")
sys.exit(0)
