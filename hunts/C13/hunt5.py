"""C13: nullable=True on int / bool fields: the null mask changes the dtype of
the generated data, which then fails the schema's own dtype check."""
import sys

sys.path.insert(0, "/repo")
import warnings

warnings.filterwarnings("ignore")

import pandas as pd
from hypothesis import HealthCheck, given, seed, settings

import pandera as pa

schemas = {
    "SeriesSchema(int, nullable=True)": pa.SeriesSchema(int, nullable=True),
    "SeriesSchema(bool, nullable=True)": pa.SeriesSchema(bool, nullable=True),
    "SeriesSchema(int, nullable=True, coerce=True)": pa.SeriesSchema(
        int, nullable=True, coerce=True
    ),
    "DataFrameSchema({'a': Column(int, nullable=True)})": pa.DataFrameSchema(
        {"a": pa.Column(int, pa.Check.ge(0), nullable=True)}
    ),
    # control: extension dtype that can hold nulls
    "SeriesSchema('Int64', nullable=True) [control]": pa.SeriesSchema(
        "Int64", nullable=True
    ),
}

# satisfiable: data without nulls is accepted by a nullable schema
schemas["SeriesSchema(int, nullable=True)"].validate(pd.Series([1, 2, 3]))
schemas["SeriesSchema(bool, nullable=True)"].validate(pd.Series([True, False]))
schemas["DataFrameSchema({'a': Column(int, nullable=True)})"].validate(
    pd.DataFrame({"a": [1, 2, 3]})
)
print("hand-made valid data accepted: True")

violations = 0
for label, schema in schemas.items():
    bad, total = [], [0]

    @seed(0)
    @settings(
        max_examples=30,
        deadline=None,
        database=None,
        derandomize=True,
        suppress_health_check=list(HealthCheck),
    )
    @given(schema.strategy(size=4))
    def run(obj):
        total[0] += 1
        try:
            schema.validate(obj)
        except (pa.errors.SchemaError, pa.errors.SchemaErrors) as exc:
            bad.append((obj, exc))

    run()
    print(f"{label}: draws {total[0]}, rejected {len(bad)}")
    if bad:
        if "control" not in label:
            violations += 1
        obj, exc = bad[0]
        print("   first rejected draw:", obj.to_dict() if isinstance(obj, pd.Series) else obj.to_dict("list"))
        print("   dtype(s):", obj.dtype if isinstance(obj, pd.Series) else dict(obj.dtypes))
        print("   error:", " ".join(str(exc).split())[:150])

if violations:
    print("VIOLATION: nullable int/bool strategies emit float64/object data that fails the dtype check")
    sys.exit(1)
print("property held")
sys.exit(0)
