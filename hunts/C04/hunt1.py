"""C04 / kind clause: Column.validate(DataFrame) returns a pandas *Series*
when the column has parsers and drop_invalid_rows=True (lazy=True).

Exit status 1 = violation observed, 0 = property held.
"""
import sys

sys.path.insert(0, "/repo")

import warnings

warnings.filterwarnings("ignore")

import pandas as pd

import pandera as pa
from pandera import Check, Column, Parser

violations = []


def snapshot(df):
    return (
        type(df).__name__,
        list(df.columns),
        [str(t) for t in df.dtypes],
        list(df.index),
        df.index.name,
        df.to_dict(orient="list"),
    )


def run(label, column, df):
    before = snapshot(df)
    try:
        out = column.validate(df, lazy=True)  # inplace=False (default)
    except (pa.errors.SchemaError, pa.errors.SchemaErrors) as exc:
        print(f"[{label}] raised {type(exc).__name__} (no result to inspect)")
        return
    print(f"[{label}] input kind : {type(df).__name__}")
    print(f"[{label}] result kind: {type(out).__name__}")
    print(f"[{label}] result:\n{out!r}\n")
    if snapshot(df) != before:
        violations.append(f"{label}: the caller's frame was modified")
    if not isinstance(out, pd.DataFrame):
        violations.append(
            f"{label}: validate(DataFrame) returned {type(out).__name__}"
        )


df = pd.DataFrame({"a": [1, -2, 3], "b": [1.0, 2.0, 3.0]})

# control: the same column without parsers keeps the container kind
run(
    "control, no parsers",
    Column(int, name="a", checks=Check.gt(0), drop_invalid_rows=True),
    df,
)

# 1. one invalid row, which is supposed to be dropped from the *frame*
run(
    "parsers + drop_invalid_rows, one invalid row",
    Column(
        int,
        name="a",
        parsers=Parser(lambda s: s * 1),
        checks=Check.gt(0),
        drop_invalid_rows=True,
    ),
    df,
)

# 2. nothing is invalid at all: plain successful validation
run(
    "parsers + drop_invalid_rows, all rows valid",
    Column(
        int,
        name="a",
        parsers=Parser(lambda s: s * 1),
        checks=Check.gt(-10),
        drop_invalid_rows=True,
    ),
    df,
)

if violations:
    print("PROPERTY C04 VIOLATED:")
    for v in violations:
        print("  -", v)
    sys.exit(1)

print("property held")
sys.exit(0)
