"""C05 / hunt2: a schema with an ordinary built-in check is no longer equal to a
snapshot of itself (and its Check changes hash) after its first validation."""
import sys; sys.path.insert(0, "/repo")
import copy
import pandas as pd
import pandera as pa

schema = pa.DataFrameSchema({"a": pa.Column(int, pa.Check.ge(0))})
twin = pa.DataFrameSchema({"a": pa.Column(int, pa.Check.ge(0))})   # built the same way
snapshot = copy.deepcopy(schema)
check = schema.columns["a"].checks[0]
registry = {check: "found"}          # Check defines __hash__, so it can be a key
hash_before = hash(check)
fn_before = check._check_fn

print("before: schema == snapshot:", schema == snapshot, "| schema == twin:", schema == twin,
      "| check in registry:", check in registry)

schema.validate(pd.DataFrame({"a": [1, 2]}))      # passing data, nothing else

eq_snapshot = schema == snapshot
eq_twin = schema == twin
in_registry = check in registry
print("after : schema == snapshot:", eq_snapshot, "| schema == twin:", eq_twin,
      "| check in registry:", in_registry)
print("        hash(check) unchanged:", hash(check) == hash_before,
      "| check._check_fn is the same object:", check._check_fn is fn_before)
print("        #implementations behind _check_fn before/after:",
      len(fn_before._function_registry), "/", len(check._check_fn._function_registry))

violated = not (eq_snapshot and eq_twin and in_registry and hash(check) == hash_before)
sys.exit(1 if violated else 0)
