"""C05 / hunt1: a user check whose name equals a built-in check name has its
function silently replaced by the built-in one the first time the schema is used."""
import sys; sys.path.insert(0, "/repo")
import copy
import pandas as pd
import pandera as pa

violated = False
calls = []


# user-defined check: *exclusive* bounds.  The Check's name defaults to the
# function's __name__, i.e. "in_range", which is also the name of a built-in.
def in_range(series, min_value, max_value):
    calls.append(1)
    return (series > min_value) & (series < max_value)


schema = pa.DataFrameSchema(
    {"a": pa.Column(int, pa.Check(in_range, min_value=0, max_value=10))}
)
snapshot = copy.deepcopy(schema)
check = schema.columns["a"].checks[0]
fn_before = check._check_fn
print("A. before: check fn is the user's function:", fn_before is in_range,
      "| schema == snapshot:", schema == snapshot)

df = pd.DataFrame({"a": [0, 5, 10]})  # 0 and 10 violate the user's exclusive bounds
print("   user's function on the data   :", in_range(df["a"], 0, 10).tolist())
calls.clear()
try:
    schema.validate(df)
    verdict = "pass"
except (pa.errors.SchemaError, pa.errors.SchemaErrors) as exc:
    verdict = "fail"
print("   schema.validate(df) verdict    :", verdict, "(expected: fail)")
print("   user's function called         :", len(calls), "times")
print("   after: check fn is user's fn   :", check._check_fn is in_range,
      "->", type(check._check_fn).__name__, repr(check._check_fn))
print("   after: schema == snapshot      :", schema == snapshot)
if verdict == "pass" or check._check_fn is not fn_before or schema != snapshot:
    violated = True


# B. same thing through the class-based API: a check *method* called `isin`
class Model(pa.DataFrameModel):
    a: int

    @pa.check("a")
    def isin(cls, series):  # pylint: disable=no-self-argument
        return series.isin([1, 2, 3])


good = pd.DataFrame({"a": [1, 2, 3]})
try:
    Model.validate(good)
    print("B. DataFrameModel with a check method named `isin`: pass")
except (pa.errors.SchemaError, pa.errors.SchemaErrors) as exc:
    violated = True
    print("B. DataFrameModel with a check method named `isin` rejects valid data:")
    print("  ", str(exc).splitlines()[0][:160])

sys.exit(1 if violated else 0)
