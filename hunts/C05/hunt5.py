"""C05 / hunt5: (single thread) a DateTime(time_zone_agnostic=True) column remembers the
time zone of the last frame it saw: the fingerprint, the YAML and the verdicts drift."""
import sys; sys.path.insert(0, "/repo")
import copy
import pandas as pd
import pandera as pa
from pandera.engines.pandas_engine import DateTime


def verdict(schema, frame, **kwargs):
    try:
        schema.validate(frame, **kwargs)
        return "pass"
    except (pa.errors.SchemaError, pa.errors.SchemaErrors):
        return "fail"
    except Exception as exc:  # pylint: disable=broad-except
        return f"raises {type(exc).__name__}"


stamps = pd.to_datetime(["2021-01-01", "2021-06-01"])
utc = pd.DataFrame({"t": stamps.tz_localize("UTC")})
naive = pd.DataFrame({"t": stamps})
violated = False

# A. no coercion: validating passing data rewrites the dtype held by the schema
schema = pa.DataFrameSchema({"t": pa.Column(DateTime(time_zone_agnostic=True))})
snapshot = copy.deepcopy(schema)
yaml_before = schema.to_yaml()
print("A. before:", repr(schema.columns["t"].dtype), "| schema == snapshot:", schema == snapshot)
print("   validate(utc frame):", verdict(schema, utc))
print("   after :", repr(schema.columns["t"].dtype), "| schema == snapshot:", schema == snapshot,
      "| to_yaml() unchanged:", schema.to_yaml() == yaml_before)
violated |= schema != snapshot or schema.to_yaml() != yaml_before

# B. coerce=True: the verdict on one and the same frame depends on the history
schema = pa.DataFrameSchema({"t": pa.Column(DateTime(time_zone_agnostic=True), coerce=True)})
fresh = copy.deepcopy(schema)
history = [("utc", utc), ("utc", utc), ("naive", naive)]
seen = [(name, verdict(schema, frame, lazy=True)) for name, frame in history]
print("B. one schema, lazy validation in sequence:", seen)
print("   a fresh copy of the schema on the naive frame:", verdict(copy.deepcopy(fresh), naive, lazy=True))
print("   a fresh copy of the schema on the utc frame  :", verdict(copy.deepcopy(fresh), utc, lazy=True))
violated |= seen[0][1] != seen[1][1]
violated |= seen[2][1] != verdict(copy.deepcopy(fresh), naive, lazy=True)

sys.exit(1 if violated else 0)
