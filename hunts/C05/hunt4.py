"""C05 / hunt4: what Index/MultiIndex.example() (and Check.__call__) do depends on
whether *some* validation has already happened in the process."""
import sys; sys.path.insert(0, "/repo")
import warnings
import pandas as pd
import pandera as pa

warnings.simplefilter("ignore")


def outcome(fn):
    try:
        return "ok: " + repr(fn())
    except Exception as exc:  # pylint: disable=broad-except
        return f"{type(exc).__name__}: {str(exc)[:70]}"


index = pa.Index(int, pa.Check.isin([1, 2, 3]), name="i")
multi = pa.MultiIndex([
    pa.Index(int, pa.Check.isin([1, 2, 3]), name="a"),
    pa.Index(str, pa.Check.isin(["x", "y"]), name="b"),
])
check = index.checks[0]
probe = pd.Series([1, 2, 7])

ops = {
    "Index.example(size=2)     ": lambda: list(index.example(size=2)),
    "MultiIndex.example(size=2)": lambda: list(multi.example(size=2)),
    "check(pd.Series([1,2,7])) ": lambda: bool(check(probe).check_passed),
}
first = {name: outcome(fn) for name, fn in ops.items()}

# one non-transforming operation on the very same schema component
index.validate(pd.DataFrame({"v": [0.5]}, index=pd.Index([1], name="i")))

second = {name: outcome(fn) for name, fn in ops.items()}

violated = False
for name in ops:
    print(name, "| before validate:", first[name])
    print(" " * len(name), "| after  validate:", second[name])
    if first[name].split(":")[0] != second[name].split(":")[0]:
        violated = True
sys.exit(1 if violated else 0)
