"""C05 / hunt3: validating a Series / Index (or building a strategy) rewrites
Hypothesis.groups on the schema's own check object."""
import sys; sys.path.insert(0, "/repo")
import copy
import warnings
import numpy as np
import pandas as pd
import pandera as pa

warnings.simplefilter("ignore")
pa.SeriesSchema(int).validate(pd.Series([1]))   # warm-up: registers the pandas backends


def mean_is_zero(sample):
    """user supplied test: returns (statistic, p-value)"""
    from scipy import stats
    return stats.ttest_1samp(sample, popmean=0.0)


def accept(stat, pvalue, alpha=0.01):
    return pvalue >= alpha


violated = False
rng = np.random.default_rng(0)
values = pd.Series(rng.normal(size=200), name="x")

# A. SeriesSchema
schema = pa.SeriesSchema(float, pa.Hypothesis(mean_is_zero, relationship=accept), name="x")
snapshot = copy.deepcopy(schema)
hyp = schema.checks[0]
print("A. before: groups =", hyp.groups, "| schema == snapshot:", schema == snapshot)
schema.validate(values)
print("   after : groups =", hyp.groups, "| schema == snapshot:", schema == snapshot)
violated |= schema != snapshot

# B. the index component of a DataFrameSchema
schema = pa.DataFrameSchema(
    {"v": pa.Column(float)},
    index=pa.Index(float, pa.Hypothesis(mean_is_zero, relationship=accept)),
)
snapshot = copy.deepcopy(schema)
print("B. before: groups =", schema.index.checks[0].groups, "| schema == snapshot:", schema == snapshot)
schema.validate(pd.DataFrame({"v": values.to_numpy()}, index=values.to_numpy()))
print("   after : groups =", schema.index.checks[0].groups, "| schema == snapshot:", schema == snapshot)
violated |= schema != snapshot

# C. a column hypothesis: merely asking for an example rewrites it
schema = pa.DataFrameSchema({
    "h": pa.Column(float, pa.Hypothesis(
        lambda a, b: (1.0, 1.0), samples=["A", "B"], groupby="g", relationship=accept)),
    "g": pa.Column(str, pa.Check.isin(["A", "B"])),
})
before = schema.columns["h"].checks[0].groups
try:
    schema.example(size=3)
except Exception as exc:  # the example itself fails, see the .md
    print("C. example() raised", type(exc).__name__, exc)
after = schema.columns["h"].checks[0].groups
print("C. column hypothesis groups before example():", before, "| after:", after)
violated |= before != after

# D. ... and that changes a verdict: same schema, same frame, before/after example()
def two_sample(a, b):
    if a is None or b is None:      # a sample that is absent: nothing to compare
        return (0.0, 1.0)
    from scipy import stats
    return stats.ttest_ind(a, b)


schema = pa.DataFrameSchema({
    "h": pa.Column(float, pa.Hypothesis(
        two_sample, samples=["A", "B"], groupby="g", relationship=accept)),
    "g": pa.Column(str),
})
probe = pd.DataFrame({"h": [1.0, 2.0, 3.0, 4.0], "g": ["A", "A", "C", "C"]})


def verdict():
    try:
        schema.validate(probe)
        return "pass"
    except (pa.errors.SchemaError, pa.errors.SchemaErrors) as exc:
        return "fail: " + str(exc).splitlines()[0][:110]


v0 = verdict()
try:
    schema.example(size=2)
except Exception:
    pass
v1 = verdict()
print("D. verdict on the same frame before example():", v0)
print("   verdict on the same frame after  example():", v1)
violated |= v0 != v1

sys.exit(1 if violated else 0)
