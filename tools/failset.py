#!/usr/bin/env python3
"""failset.py <cwd> <out.txt> [pytest args] : run tests in <cwd>, write sorted failing test ids to <out.txt>"""
import subprocess, sys, os, tempfile, xml.etree.ElementTree as ET
cwd, out, args = sys.argv[1], sys.argv[2], sys.argv[3:]
fd, xml = tempfile.mkstemp(suffix=".xml", dir="/dev/shm"); os.close(fd)
subprocess.run(["/venv/bin/python", "-m", "pytest", "-q", "-p", "no:cacheprovider", "--timeout=900", "--continue-on-collection-errors", f"--junitxml={xml}"] + args,
               cwd=cwd, stdout=subprocess.DEVNULL, stderr=subprocess.DEVNULL)
failed, n = set(), 0
for tc in ET.parse(xml).getroot().iter("testcase"):
    n += 1
    if any(c.tag in ("failure", "error") for c in tc):
        failed.add(f"{tc.get('classname')}::{tc.get('name')}")
os.unlink(xml)
open(out, "w").write("\n".join(sorted(failed)) + "\n")
print(f"{n} tests, {len(failed)} failed -> {out}")
