#!/usr/bin/env python3
"""Run (part of) the repository suite with xdist and compare with BASELINE.json stable_pass.
usage: cmp_baseline.py [pytest args...]   (default: whole suite)"""
import json, subprocess, sys, os, tempfile, xml.etree.ElementTree as ET
args = sys.argv[1:] or []
fd, xml = tempfile.mkstemp(suffix=".xml", dir="/dev/shm" if os.path.isdir("/dev/shm") else None); os.close(fd)
cmd = ["/venv/bin/python", "-m", "pytest", "-q", "-p", "no:cacheprovider", "--timeout=900", "--continue-on-collection-errors",
       f"--junitxml={xml}"] + args
subprocess.run(cmd, cwd=os.environ.get("SUITE_CWD", "/repo"), stdout=subprocess.DEVNULL, stderr=subprocess.DEVNULL)
base = set(json.load(open("/root/.vp/BASELINE.json"))["stable_pass"])
passed, failed = set(), set()
for tc in ET.parse(xml).getroot().iter("testcase"):
    name = f"{tc.get('classname')}::{tc.get('name')}"
    bad = any(c.tag in ("failure", "error") for c in tc)
    skipped = any(c.tag == "skipped" for c in tc)
    (failed if bad else passed).add(name) if not skipped else None
os.unlink(xml)
regress = sorted(failed & base)
print(f"ran: passed={len(passed)} failed={len(failed)}; stable_pass tests that FAILED: {len(regress)}")
for r in regress[:40]:
    print("  REGRESSION", r)
seen = passed | failed
print(f"stable_pass covered by this run: {len(base & seen)}/{len(base)}")
if not args:
    for r in sorted(base - seen)[:20]:
        print("  NOT-RUN-OR-SKIPPED", r)
sys.exit(1 if regress else 0)
