#!/bin/sh
# eval_seeded.sh [ids...] : run every property's quick check against each seeded patch (in a scratch worktree); prints which checks fire
WT=/tmp/wt_eval
[ -d $WT ] || git -C /repo worktree add -q --detach $WT HEAD
cd /verif
IDS=${@:-$(ls seeded)}
for id in $IDS; do
  p=$(echo $id | cut -d- -f1)
  git -C $WT checkout -q -- . && git -C $WT apply seeded/$id/patch.diff || { echo "$id APPLY-FAILED"; continue; }
  hits=""
  for q in C01 C02 C03 C04 C05 C06 C07 C08 C09 C10 C11 C12 C13 C14 C15 C16 C17 C18 C19 C20; do
    out=$(PVA_REPO=$WT PVA_NO_CACHE=1 ./check $q --no-evidence 2>&1); rc=$?
    [ $rc -eq 1 ] && hits="$hits $q"
    [ $rc -eq 2 ] && hits="$hits $q(analysis-error)"
  done
  own=MISSED; echo "$hits" | grep -q " $p\b" && own=caught
  echo "$id own=$own fired:$hits"
done
git -C $WT checkout -q -- .
