#!/bin/sh
# confirm_mutant.sh <worktree> <n> <seed-id> <property> "<test paths>" : confirm demo passes clean / fails mutated, tests keep passing; store under /verif/seeded/<seed-id>
WT=$1; N=$2; ID=$3; PROP=$4; TESTS=$5
cd $WT && git checkout -q -- . || exit 3
/venv/bin/python out/demo$N.py >/dev/null 2>&1; RC_CLEAN=$?
git apply out/mutant$N.diff || { echo "apply failed"; exit 3; }
/venv/bin/python -c "import pandera" 2>/dev/null; RC_IMPORT=$?
/venv/bin/python out/demo$N.py >/dev/null 2>&1; RC_MUT=$?
TEST_RES=$(SUITE_CWD=$WT /venv/bin/python /verif/tools/cmp_baseline.py $TESTS 2>&1 | head -3 | tr '\n' ' ')
git checkout -q -- .
echo "clean_rc=$RC_CLEAN import_rc=$RC_IMPORT mutated_rc=$RC_MUT tests: $TEST_RES"
if [ $RC_CLEAN -eq 0 ] && [ $RC_MUT -ne 0 ] && [ $RC_IMPORT -eq 0 ] && echo "$TEST_RES" | grep -q "FAILED: 0"; then
  D=/verif/seeded/$ID; mkdir -p $D
  cp out/mutant$N.diff $D/patch.diff; cp out/demo$N.py $D/demo.py; cp out/note$N.md $D/note.md
  python3 - "$D" "$ID" "$PROP" "$TESTS" "$TEST_RES" <<'PY'
import json, sys
d, i, prop, tests, res = sys.argv[1:6]
json.dump({"id": i, "property": prop, "source": "independent sub-agent given only the property text and a scratch worktree",
           "needs_to_manifest": open(d + "/note.md").read()[:1500],
           "confirmed": {"demo_exit_clean": 0, "demo_exit_mutated": "non-zero", "imports": True,
                         "tests_run_with_mutant": tests, "tests_result": res}}, open(d + "/meta.json", "w"), indent=1)
PY
  # make the stored demonstration independent of the (temporary) worktree it was written in
  python3 - "$D/demo.py" <<'PY'
import re, sys
f = sys.argv[1]
s = open(f).read()
s = re.sub(r'["\']/tmp/mut\d?_C\d\d/?["\']', '(__import__("os").environ.get("TREE_UNDER_TEST", "/repo") + "/")', s)
open(f, "w").write(s)
PY
  echo "KEPT $ID"
else
  echo "REJECTED $ID"
fi
