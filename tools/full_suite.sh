#!/bin/sh
# Full repository suite vs BASELINE.json: parallel part + serial part (files whose parametrisation differs between xdist workers)
cd /repo
SER="tests/core/test_dtypes.py tests/core/test_pandas_engine.py tests/core/test_numpy_engine.py tests/core/test_engine.py"
IGN=""
for f in $SER; do IGN="$IGN --ignore=$f"; done
/venv/bin/python /verif/tools/cmp_baseline.py -n ${1:-8} $IGN tests
/venv/bin/python /verif/tools/cmp_baseline.py $SER
