#!/usr/bin/env python3
"""Markdown table of the seeded changes and which checks report them (from seeded/*/note.md and seeded/RESULTS.json)."""
import json, os
V = os.path.dirname(os.path.dirname(os.path.abspath(__file__)))
res = json.load(open(os.path.join(V, "seeded", "RESULTS.json")))
print("| id | change (independent sub-agent, confirmed: demo fails with it, targeted tests unchanged) | reported by | first report |")
print("|---|---|---|---|")
for sid in sorted(d for d in os.listdir(os.path.join(V, "seeded")) if os.path.isdir(os.path.join(V, "seeded", d))):
    note = os.path.join(V, "seeded", sid, "note.md")
    title = open(note).readline().strip("# \n") if os.path.exists(note) else ""
    title = title.split(" - ", 1)[-1].split(" — ", 1)[-1][:110].replace("|", "/")
    r = res.get(sid, {})
    own = sid.split("-")[0]
    fr = (r.get("first_report", {}).get(own) or next(iter(r.get("first_report", {}).values()), "")).split(" :: ")[0][:90].replace("|", "/")
    print(f"| {sid} | {title} | {', '.join(r.get('checks_that_fire', [])) or '**missed**'} | {fr} |")
