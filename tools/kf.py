#!/usr/bin/env python3
"""Maintain /verif/known_findings.json (never called by a check).
  kf.py known <property> <rule> <function> <construct> <what>
  kf.py fixed <property> <commit> <what>
"""
import json, os, sys
P = os.path.join(os.path.dirname(os.path.dirname(os.path.abspath(__file__))), "known_findings.json")
d = json.load(open(P)) if os.path.exists(P) else {"known": [], "fixed": []}
cmd = sys.argv[1]
if cmd == "known":
    _, _, prop, rule, func, construct, what = sys.argv
    e = {"property": prop, "rule": rule, "function": func, "construct": " ".join(construct.split()), "what": what}
    d["known"] = [k for k in d["known"] if (k["property"], k["rule"], k["function"], k["construct"]) != (prop, rule, func, e["construct"])]
    d["known"].append(e)
elif cmd == "fixed":
    _, _, prop, commit, what = sys.argv
    d["fixed"].append({"property": prop, "commit": commit, "entry": f"fixed: property={prop} {commit} {what}"})
json.dump(d, open(P, "w"), indent=1)
