#!/venv/bin/python
"""Wrapper: python tools/refactor_fuzz.py [...]  ==  python -m pva.refactor_fuzz [...]  (see pva/refactor_fuzz.py)"""
import os, sys
sys.path.insert(0, os.path.dirname(os.path.dirname(os.path.abspath(__file__))))
from pva.refactor_fuzz import main
sys.exit(main())
