#!/bin/bash
# reverify_seeds.sh [ids...] : on the current /repo HEAD, each demo must exit 0 on the clean tree and non-zero with its patch
# (scratch worktrees under /tmp, removed afterwards; 6 at a time)
cd /verif
IDS=${@:-$(ls -d seeded/*/ | xargs -n1 basename)}
one() {
  id=$1; wt=/tmp/wt_rv_$id
  git -C /repo worktree add -q --detach $wt HEAD 2>/dev/null || { echo "$id WORKTREE-FAILED"; return; }
  (cd $wt && TREE_UNDER_TEST=$wt timeout 300 /venv/bin/python /verif/seeded/$id/demo.py >/dev/null 2>&1); c=$?
  git -C $wt apply /verif/seeded/$id/patch.diff 2>/dev/null || { echo "$id APPLY-FAILED"; git -C /repo worktree remove --force $wt; return; }
  (cd $wt && TREE_UNDER_TEST=$wt timeout 300 /venv/bin/python /verif/seeded/$id/demo.py >/dev/null 2>&1); m=$?
  git -C /repo worktree remove --force $wt
  st=OK; [ $c -ne 0 ] && st=CLEAN-FAILS; [ $m -eq 0 ] && st=MUTANT-PASSES
  echo "$id clean_rc=$c mutated_rc=$m $st"
}
export -f one
echo $IDS | tr ' ' '\n' | xargs -P ${JOBS:-5} -I{} bash -c 'one {}'
