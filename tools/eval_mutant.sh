#!/bin/sh
# eval_mutant.sh <worktree> <diff> [props...] : apply diff in the worktree, run checks against it, undo
WT=$1; DIFF=$2; shift 2
PROPS=${@:-C01 C02 C03 C04 C05 C06 C07 C08 C09 C10 C11 C12 C13 C14 C15 C16 C17 C18 C19 C20}
git -C $WT checkout -q -- . && git -C $WT apply $DIFF || { echo "APPLY FAILED"; exit 3; }
cd /verif
for p in $PROPS; do
  out=$(PVA_REPO=$WT PVA_NO_CACHE=1 ./check $p --no-evidence 2>&1)
  rc=$?
  if [ $rc -ne 0 ]; then echo "== $p rc=$rc"; echo "$out" | grep -v "^KNOWN-FINDING" | head -12; fi
done
git -C $WT checkout -q -- .
echo "done $DIFF"
