#!/venv/bin/python
"""eval_seeded.py [-v] [ids | patch files ...] : which property checks fire on each seeded patch.
The patch is applied in a scratch worktree only to compute the changed files; the analysis then runs through the
in-memory overlay (parallel processes), sharing one effect engine per patch."""
import os
import subprocess
import sys
from concurrent.futures import ProcessPoolExecutor

sys.path.insert(0, os.path.dirname(os.path.dirname(os.path.abspath(__file__))))
WT = "/tmp/wt_eval"
PROPS = [f"C{i:02d}" for i in range(1, 21)]


def overlay_of(patch):
    subprocess.run(["git", "-C", WT, "checkout", "-q", "--", "."], check=True)
    r = subprocess.run(["git", "-C", WT, "apply", patch])
    if r.returncode:
        return None
    files = subprocess.run(["git", "-C", WT, "diff", "--name-only"], capture_output=True, text=True).stdout.split()
    ov = {f: open(os.path.join(WT, f)).read() for f in files if f.endswith(".py")}
    subprocess.run(["git", "-C", WT, "checkout", "-q", "--", "."], check=True)
    return ov


def job(a):
    sid, ov, base = a
    os.environ["PVA_NO_CACHE"] = "1"
    from pva.cli import run_property
    from pva.index import AnalysisError, Index
    ix = Index(overlay=ov)
    fired = {}
    for p in PROPS:
        try:
            rc, ctx = run_property(p, "quick", ix=ix, write_evidence=False, quiet=True)
            new = [o for o in ctx.obs if not o.ok and o.key() not in base[p]]
            if new:
                fired[p] = [f"{o.rule} {o.func.split('::')[-1]}: {o.construct[:80]} :: {str(o.detail)[:140]}" for o in new[:3]]
        except AnalysisError as e:
            fired[p] = [f"ANALYSIS-ERROR {e}"]
        except Exception as e:
            fired[p] = [f"INTERNAL {type(e).__name__}: {e}"]
    return sid, fired


def main():
    if not os.path.isdir(WT):
        subprocess.run(["git", "-C", "/repo", "worktree", "add", "-q", "--detach", WT, "HEAD"], check=True)
    verbose = "-v" in sys.argv
    ids = [a for a in sys.argv[1:] if not a.startswith("-")] or sorted(d for d in os.listdir("/verif/seeded") if os.path.isdir(os.path.join("/verif/seeded", d)))
    from pva.cli import run_property
    from pva.index import Index
    base = {}
    ix = Index()
    for p in PROPS:
        rc, ctx = run_property(p, "quick", ix=ix, write_evidence=False, quiet=True)
        base[p] = {o.key() for o in ctx.obs if not o.ok}
    jobs = []
    for sid in ids:
        patch = sid if os.path.isfile(sid) else f"/verif/seeded/{sid}/patch.diff"
        ov = overlay_of(patch)
        if ov is None:
            print(sid, "APPLY-FAILED")
            continue
        jobs.append((sid, ov, base))
    missed = 0
    results = {}
    with ProcessPoolExecutor(max_workers=min(12, len(jobs) or 1)) as ex:
        for sid, fired in ex.map(job, jobs):
            own = os.path.basename(sid).split("-")[0]
            own = own if own in PROPS else None
            ok = own in fired and not fired[own][0].startswith(("ANALYSIS", "INTERNAL")) if own else None
            status = "" if own is None else ("caught" if ok else "MISSED")
            missed += status == "MISSED"
            print(f"{sid:10} {status:7} fired: {' '.join(sorted(fired)) or '-'}")
            results[os.path.basename(sid)] = {"own_property_check_fires": bool(ok), "checks_that_fire": sorted(fired),
                                              "first_report": {p: d[0] for p, d in fired.items()}}
            if verbose or status == "MISSED":
                for p, d in fired.items():
                    for x in d:
                        print(f"      {p}: {x}")
    print(f"missed={missed} of {len(jobs)}")
    if "--write" in sys.argv:
        import json
        path = "/verif/seeded/RESULTS.json"
        old = json.load(open(path)) if os.path.exists(path) else {}
        old.update(results)
        json.dump(old, open(path, "w"), indent=1, sort_keys=True)


if __name__ == "__main__":
    main()
