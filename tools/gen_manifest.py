#!/usr/bin/env python3
"""Regenerate /verif/MANIFEST.json from the property modules present."""
import importlib, json, os, sys
V = os.path.dirname(os.path.dirname(os.path.abspath(__file__)))
sys.path.insert(0, V)
props = [f"C{i:02d}" for i in range(1, 21)]
checks, na = [], []
NA_REASONS = {}
for p in props:
    path = os.path.join(V, "pva", "props", p.lower() + ".py")
    if not os.path.exists(path):
        na.append({"property_id": p, "reason": NA_REASONS.get(p, "static check for this property is not built yet in this revision of /verif (planned in DESIGN.md section 5)")})
        continue
    m = importlib.import_module(f"pva.props.{p.lower()}")
    checks.append({
        "property_id": p,
        "quick_cmd": f"./check {p} --tier quick",
        "thorough_cmd": f"./check {p} --tier thorough",
        "evidence_file": f"/verif/evidence/{p}.json",
        "replay_cmd_template": f"./check {p} --replay {{path}}",
        "engine": "pva",
        "level_claimed": {
            "category": "other",
            "text": getattr(m, "LEVEL_TEXT", None) or (
                "Static analysis (stdlib ast over /repo's working tree, nothing executed) deciding the structural "
                "clauses listed in DESIGN.md section 5 for this property on every enumerated construct; it does not "
                "decide the behavioural property itself, only necessary conditions whose truth is in the shape of the code."),
            "design_ref": f"DESIGN.md section 5, {p}",
        },
        "level_note": getattr(m, "LEVEL_NOTE", None) or m.EXPLANATION,
        "technique": getattr(m, "TECHNIQUE", "static analysis: repository-specific ast/CFG/dataflow rules"),
    })
man = {
    "version": 1,
    "setup_cmd": "cd /verif && /venv/bin/python -B -m pva.selfcheck",
    "hooks": {
        "guard": "PANDERA_VERIF",
        "enable": "none needed: the checks parse /repo's sources and never import or run pandera; no hook or instrumentation commit exists",
        "baseline_off_cmd": "cd /repo && /venv/bin/python -m pytest -ra -q -p no:cacheprovider --timeout=900 --continue-on-collection-errors",
        "source_commits": [],
        "add_only": True,
    },
    "engines": [{
        "name": "pva",
        "path": "/verif/pva",
        "serves_properties": [c["property_id"] for c in checks],
        "kind_free_text": "repository-specific static analysers on python's ast: source index + class hierarchy, call resolution through the backend registry, per-function CFG with dominators/guards/reaching definitions, write-site effect analysis, predicate normal forms, table extractors, finite abstract evaluator",
    }],
    "checks": checks,
    "not_applicable": na,
    "notes": "Exit 0: every decided clause holds on every enumerated construct (KNOWN-FINDING lines for listed genuine defects); exit 1 + VIOLATION line: an unlisted violation; exit 2 + ANALYSIS-ERROR: the analysis itself cannot run (anchor vanished, unknown form). See DESIGN.md.",
}
json.dump(man, open(os.path.join(V, "MANIFEST.json"), "w"), indent=1)
print("checks:", [c["property_id"] for c in checks], "n/a:", [x["property_id"] for x in na])
