#!/usr/bin/env python3
"""try_mutant.py <PROP> <relpath> <old> <new>  - run a property on an in-memory edited tree"""
import sys, os
sys.path.insert(0, os.path.dirname(os.path.dirname(os.path.abspath(__file__))))
from pva.index import Index
from pva.cli import run_property
prop, path, old, new = sys.argv[1:5]
src = open(os.path.join("/repo", path)).read()
assert src.count(old) >= 1, "pattern not found"
ix = Index(overlay={path: src.replace(old, new, 1)})
rc, ctx = run_property(prop, "quick", ix=ix, write_evidence=False, quiet=True)
bad = [o for o in ctx.obs if not o.ok]
print("rc", rc, "violations", len(bad))
for o in bad[:8]:
    print(" ", o.rule, o.loc, o.func.split("::")[1], "|", o.construct[:90], "|", o.detail[:110])
