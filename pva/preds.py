"""E6: predicate normaliser for the built-in check implementations.

A check body is interpreted symbolically into a *decision table*: for every
truth assignment of the parameter conditions it branches on (`include_min`,
`max_value is None`, ...) either a canonical predicate over the data `D` or
`RAISE(exception class)`.  Canonical predicates:

  ("cmp", op, subject, param)      subject = "D" | ("len", "D"); data on the left
  ("and", p, q) sorted | ("not", p)
  ("isin", "D", param)
  ("str", kind, pattern_form, (("na", False),...))   kind = match|contains|startswith|endswith
  ("seteq", ("unique", "D"), param)

Unknown constructs raise AnalysisError: never a silent pass."""

from __future__ import annotations

import ast
import itertools
from typing import Dict, List, Optional, Tuple

from .index import AnalysisError, dotted

FLIP = {"<": ">", "<=": ">=", ">": "<", ">=": "<=", "==": "==", "!=": "!="}
OPFN = {"lt": "<", "le": "<=", "gt": ">", "ge": ">=", "eq": "==", "ne": "!="}
CMPOP = {ast.Lt: "<", ast.LtE: "<=", ast.Gt: ">", ast.GtE: ">=", ast.Eq: "==", ast.NotEq: "!="}


class PredError(AnalysisError):
    pass


def P(name):
    return ("param", name)


def mk_and(a, b):
    xs = []
    for x in (a, b):
        if isinstance(x, tuple) and x and x[0] == "and":
            xs += list(x[1:])
        else:
            xs.append(x)
    xs = sorted(xs, key=repr)
    return ("and", *xs)


def mk_cmp(op, l, r):
    """orient so that the data subject is on the left"""
    if is_subject(l) and not is_subject(r):
        return ("cmp", op, l, r)
    if is_subject(r) and not is_subject(l):
        return ("cmp", FLIP[op], r, l)
    raise PredError(f"comparison without exactly one data operand: {l!r} {op} {r!r}")


def is_subject(v):
    return v == "D" or (isinstance(v, tuple) and v and v[0] in ("len", "len_bytes", "unique", "set") and is_subject(v[1]))


class Sym:
    """Symbolic interpreter for one check function."""

    def __init__(self, func_node: ast.FunctionDef, flavour: str):
        self.fn = func_node
        self.flavour = flavour  # pandas | polars | pyspark
        a = func_node.args
        self.params = [x.arg for x in a.posonlyargs + a.args + a.kwonlyargs]
        self.data = self.params[0]
        self.atoms: List[str] = []

    # -- conditions ---------------------------------------------------------
    def cond_atom(self, e, env) -> Tuple[str, bool]:
        """Canonical text of a branch condition over parameters, polarity."""
        pol = True
        while isinstance(e, ast.UnaryOp) and isinstance(e.op, ast.Not):
            e, pol = e.operand, not pol
        if isinstance(e, ast.Name) and e.id in self.params and env.get(e.id) == P(e.id):
            return e.id, pol
        if isinstance(e, ast.Compare) and len(e.ops) == 1 and isinstance(e.left, ast.Name) \
                and isinstance(e.comparators[0], ast.Constant) and e.comparators[0].value is None \
                and env.get(e.left.id) == P(e.left.id):
            if isinstance(e.ops[0], ast.Is):
                return f"{e.left.id} is None", pol
            if isinstance(e.ops[0], ast.IsNot):
                return f"{e.left.id} is None", not pol
        if isinstance(e, ast.Call) and isinstance(e.func, ast.Name) and e.func.id == "isinstance" and len(e.args) == 2 \
                and isinstance(e.args[0], ast.Name):
            return f"isinstance({e.args[0].id}, {ast.unparse(e.args[1])})", pol
        if isinstance(e, ast.Call) and isinstance(e.func, ast.Attribute) and e.func.attr == "startswith" \
                and isinstance(e.func.value, ast.Name) and e.args and isinstance(e.args[0], ast.Constant):
            return f"{e.func.value.id}.startswith({e.args[0].value!r})", pol
        raise PredError(f"unsupported branch condition `{ast.unparse(e)}` in {self.fn.name}")

    def eval_cond(self, e, env, assign) -> bool:
        pol0 = True
        while isinstance(e, ast.UnaryOp) and isinstance(e.op, ast.Not):
            e, pol0 = e.operand, not pol0
        if isinstance(e, ast.BoolOp):
            vals = [self.eval_cond(v, env, assign) for v in e.values]
            r = all(vals) if isinstance(e.op, ast.And) else any(vals)
            return r if pol0 else not r
        name, pol = self.cond_atom(e, env)
        if name not in assign:
            raise NeedAtom(name)
        v = assign[name]
        r = v if pol else not v
        return r if pol0 else not r

    # -- statements -----------------------------------------------------------
    def run(self, assign: Dict[str, bool]):
        env = {p: P(p) for p in self.params}
        env[self.data] = "DATA"
        try:
            self.block(self.fn.body, env, assign)
        except Ret as r:
            return r.v
        except Rz as r:
            return ("RAISE", r.what)
        raise PredError(f"{self.fn.name}: falls off the end")

    def block(self, stmts, env, assign):
        for s in stmts:
            if isinstance(s, ast.Expr) and isinstance(s.value, ast.Constant):
                continue
            if isinstance(s, ast.Return):
                raise Ret(self.pred(self.ev(s.value, env, assign)))
            if isinstance(s, ast.Raise):
                what = ast.unparse(s.exc.func) if isinstance(s.exc, ast.Call) else (ast.unparse(s.exc) if s.exc else "reraise")
                raise Rz(what)
            if isinstance(s, ast.If):
                if self.eval_cond(s.test, env, assign):
                    self.block(s.body, env, assign)
                else:
                    self.block(s.orelse, env, assign)
                continue
            if isinstance(s, ast.Assign) and len(s.targets) == 1 and isinstance(s.targets[0], ast.Name):
                env[s.targets[0].id] = self.ev(s.value, env, assign)
                continue
            if isinstance(s, ast.AnnAssign) and isinstance(s.target, ast.Name) and s.value is not None:
                env[s.target.id] = self.ev(s.value, env, assign)
                continue
            if isinstance(s, ast.Assert):
                continue
            raise PredError(f"unsupported statement `{ast.unparse(s)[:60]}` in {self.fn.name}")

    def pred(self, v):
        if isinstance(v, tuple) and v and v[0] in ("cmp", "and", "not", "isin", "str", "seteq"):
            return v
        raise PredError(f"{self.fn.name}: result is not a predicate: {v!r}")

    # -- expressions ------------------------------------------------------------
    def ev(self, e, env, assign):
        if isinstance(e, ast.Name):
            if e.id in env:
                return env[e.id]
            return ("name", e.id)
        if isinstance(e, ast.Constant):
            return ("const", e.value)
        if isinstance(e, ast.IfExp):
            return self.ev(e.body if self.eval_cond(e.test, env, assign) else e.orelse, env, assign)
        if isinstance(e, ast.JoinedStr):
            parts = []
            for p in e.values:
                if isinstance(p, ast.Constant):
                    parts.append(("const", p.value))
                else:
                    parts.append(self.ev(p.value, env, assign))
            return ("concat", tuple(parts))
        if isinstance(e, ast.BinOp) and isinstance(e.op, ast.Add):
            l, r = self.ev(e.left, env, assign), self.ev(e.right, env, assign)
            return ("concat", (l, r))
        if isinstance(e, ast.Attribute):
            d = dotted(e)
            if d and d.startswith("operator.") and d.split(".")[1] in OPFN:
                return ("opfn", OPFN[d.split(".")[1]])
            base = self.ev(e.value, env, assign)
            return self.attr(base, e.attr, e)
        if isinstance(e, ast.Compare) and len(e.ops) == 1 and type(e.ops[0]) in CMPOP:
            l, r = self.ev(e.left, env, assign), self.ev(e.comparators[0], env, assign)
            op = CMPOP[type(e.ops[0])]
            if (isinstance(l, tuple) and l[0] == "set") or (isinstance(r, tuple) and r[0] == "set"):
                s, o = (l, r) if isinstance(l, tuple) and l[0] == "set" else (r, l)
                if op == "==" and s[1] == ("unique", "D"):
                    return ("seteq", ("unique", "D"), o)
                raise PredError(f"unsupported set comparison in {self.fn.name}")
            return mk_cmp(op, self.subj(l), self.subj(r))
        if isinstance(e, ast.BinOp) and isinstance(e.op, ast.BitAnd):
            return mk_and(self.pred(self.ev(e.left, env, assign)), self.pred(self.ev(e.right, env, assign)))
        if isinstance(e, ast.UnaryOp) and isinstance(e.op, ast.Invert):
            return ("not", self.pred(self.ev(e.operand, env, assign)))
        if isinstance(e, ast.Call):
            return self.call(e, env, assign)
        raise PredError(f"unsupported expression `{ast.unparse(e)[:60]}` in {self.fn.name}")

    def subj(self, v):
        if v == "DATA":
            if self.flavour == "pandas":
                return "D"
            raise PredError(f"{self.fn.name}: raw data object used as column")
        return v

    def attr(self, base, name, e):
        if base == "DATA":
            if self.flavour == "pandas" and name == "str":
                return ("strns", "D")
            if self.flavour == "polars" and name in ("key",):
                return ("datakey",)
            if self.flavour == "polars" and name in ("lazyframe",):
                return ("lf",)
            if self.flavour == "pyspark" and name in ("column_name",):
                return ("datakey",)
            if self.flavour == "pyspark" and name in ("dataframe",):
                return ("lf",)
        if base == "D" and name == "str":
            return ("strns", "D")
        if isinstance(base, tuple) and base[0] == "param" and name == "pattern":
            return ("patsrc", base[1])  # re.Pattern.pattern: the source text only - the flags of the compiled pattern are gone
        return ("attr", base, name)

    def call(self, e: ast.Call, env, assign):
        f = e.func
        args = [self.ev(a, env, assign) for a in e.args]
        kwargs = {k.arg: self.ev(k.value, env, assign) for k in e.keywords if k.arg}
        if isinstance(f, ast.Name):
            if f.id == "cast" and len(args) == 2:
                return args[1]
            if f.id == "set" and len(args) == 1:
                return ("set", args[0])
            if f.id == "len":
                return ("len", self.subj(args[0]))
            if f.id == "col" and args and args[0] == ("datakey",):
                return "D"
            fv = env.get(f.id)
            if isinstance(fv, tuple) and fv[0] == "opfn":
                return mk_cmp(fv[1], self.subj(args[0]), self.subj(args[1]))
            raise PredError(f"unsupported call `{ast.unparse(e)[:60]}` in {self.fn.name}")
        if not isinstance(f, ast.Attribute):
            fv = self.ev(f, env, assign) if isinstance(f, (ast.IfExp, ast.Call, ast.Subscript)) else None
            if isinstance(fv, tuple) and fv and fv[0] == "opfn" and len(args) == 2:
                return mk_cmp(fv[1], self.subj(args[0]), self.subj(args[1]))
            raise PredError(f"unsupported call `{ast.unparse(e)[:60]}`")
        d = dotted(f)
        if d in ("pl.col", "polars.col", "F.col") and args and args[0] == ("datakey",):
            return "D"
        if d and d.startswith("operator.") and f.attr in OPFN:
            return mk_cmp(OPFN[f.attr], self.subj(args[0]), self.subj(args[1]))
        recv = self.ev(f.value, env, assign)
        m = f.attr
        recv_s = self.subj(recv) if recv == "DATA" and self.flavour == "pandas" else recv
        # polars / pyspark frame plumbing
        if recv == ("lf",) and m in ("select", "filter", "with_columns") and len(args) == 1:
            return args[0]
        if recv == ("lf",) and m == "collect":
            return ("lfc",)
        if recv == ("lfc",) and m == "get_column" and args == [("datakey",)]:
            return "D"
        if is_subject(recv_s):
            if m in OPFN and len(args) == 1:
                return mk_cmp(OPFN[m], recv_s, args[0])
            if m in ("isin", "is_in") and len(args) == 1:
                return ("isin", recv_s, args[0])
            if m == "is_between" and len(args) >= 2:
                closed = kwargs.get("closed", ("const", "both"))
                if closed[0] != "const":
                    raise PredError("is_between with non-literal closed")
                lo = ">=" if closed[1] in ("both", "left") else ">"
                hi = "<=" if closed[1] in ("both", "right") else "<"
                return mk_and(("cmp", lo, recv_s, args[0]), ("cmp", hi, recv_s, args[1]))
            if m == "unique" and not args:
                return ("unique", recv_s)
            if m == "between" and len(args) >= 2:  # pyspark Column.between is inclusive; pandas takes inclusive=
                incl = kwargs.get("inclusive", args[2] if len(args) > 2 else ("const", "both"))
                if incl[0] != "const" or incl[1] not in ("both", "neither", "left", "right", True, False):
                    raise PredError("between with non-literal `inclusive`")
                iv = {True: "both", False: "neither"}.get(incl[1], incl[1])
                lo = ">=" if iv in ("both", "left") else ">"
                hi = "<=" if iv in ("both", "right") else "<"
                return mk_and(("cmp", lo, recv_s, args[0]), ("cmp", hi, recv_s, args[1]))
        if isinstance(recv, tuple) and recv and recv[0] in ("cmp", "and", "not", "isin", "str"):
            if m == "not_" and not args:
                return ("not", recv)
            if m == "and_" and len(args) == 1:
                return mk_and(recv, self.pred(args[0]))
        if isinstance(recv, tuple) and recv and recv[0] == "strns":
            opts = tuple(sorted((k, v[1]) for k, v in kwargs.items() if isinstance(v, tuple) and v[0] == "const" and k != "pattern"))
            pat = kwargs.get("pattern", args[0] if args else None)
            if m in ("len", "len_chars", "n_chars") and not args:
                return ("len", recv[1])
            if m in ("len_bytes", "n_bytes") and not args:
                return ("len_bytes", recv[1])   # byte length: a different quantity for non-ASCII text
            if m == "match":
                return ("str", "match", self.patform(pat), opts)
            if m == "contains":
                return ("str", "contains", self.patform(pat), opts)
            if m in ("startswith", "starts_with"):
                return ("str", "startswith", self.patform(pat), opts)
            if m in ("endswith", "ends_with"):
                return ("str", "endswith", self.patform(pat), opts)
        if m == "str" and False:
            pass
        raise PredError(f"unsupported call `{ast.unparse(e)[:70]}` in {self.fn.name}")

    def patform(self, v):
        """Form of a pattern argument: ("raw", param) or ("embedded", prefix, param, suffix, grouped)."""
        if v is None:
            raise PredError("missing pattern")
        if isinstance(v, tuple) and v[0] == "param":
            return ("raw", v[1])
        if isinstance(v, tuple) and v[0] == "patsrc":
            return ("rawsrc", v[1])
        if isinstance(v, tuple) and v[0] == "concat":
            flat = _flatten(v)
            if any(x[0] == "patsrc" for x in flat):
                return ("rawsrc", next(x[1] for x in flat if x[0] == "patsrc"))
            consts = [x for x in flat if x[0] == "const"]
            params = [x for x in flat if x[0] == "param"]
            if len(params) != 1 or len(consts) + len(params) != len(flat):
                raise PredError(f"unsupported pattern construction {v!r}")
            i = flat.index(params[0])
            prefix = "".join(str(x[1]) for x in flat[:i])
            suffix = "".join(str(x[1]) for x in flat[i + 1:])
            grouped = False
            for g in ("(?:", "("):
                if prefix.endswith(g) and suffix.startswith(")"):
                    grouped = True
                    prefix, suffix = prefix[: -len(g)], suffix[1:]
                    break
            return ("embedded", prefix, params[0][1], suffix, grouped)
        raise PredError(f"unsupported pattern value {v!r}")


def _flatten(v):
    if isinstance(v, tuple) and v and v[0] == "concat":
        out = []
        for x in v[1]:
            out += _flatten(x)
        return out
    return [v]


class NeedAtom(Exception):
    def __init__(self, name):
        self.name = name


class Ret(Exception):
    def __init__(self, v):
        self.v = v


class Rz(Exception):
    def __init__(self, what):
        self.what = what


def decision_table(func_node, flavour) -> Dict[Tuple[Tuple[str, bool], ...], object]:
    """All rows: assignment of the condition atoms the function consults -> result."""
    sym = Sym(func_node, flavour)
    table = {}
    todo = [dict()]
    guard = 0
    while todo:
        guard += 1
        if guard > 256:
            raise PredError(f"{func_node.name}: too many branches")
        a = todo.pop()
        try:
            res = sym.run(a)
        except NeedAtom as n:
            for v in (True, False):
                b = dict(a)
                b[n.name] = v
                todo.append(b)
            continue
        table[tuple(sorted(a.items()))] = res
    return table


def lookup(table, assign: Dict[str, bool]):
    """Result of a decision table under a (super)assignment."""
    hits = [r for k, r in table.items() if all(assign.get(n) == v for n, v in k)]
    if len(hits) != 1:
        raise PredError(f"assignment {assign} selects {len(hits)} rows")
    return hits[0]


def atoms_of(table) -> List[str]:
    out = []
    for k in table:
        for n, _ in k:
            if n not in out:
                out.append(n)
    return sorted(out)


def show(p) -> str:
    if isinstance(p, tuple):
        if p[0] == "cmp":
            return f"{show(p[2])} {p[1]} {show(p[3])}"
        if p[0] == "and":
            return " & ".join(f"({show(x)})" for x in p[1:])
        if p[0] == "not":
            return f"~({show(p[1])})"
        if p[0] == "param":
            return p[1]
        if p[0] in ("len", "len_bytes"):
            return f"{p[0]}({show(p[1])})"
        if p[0] == "isin":
            return f"{show(p[1])} in {show(p[2])}"
        if p[0] == "RAISE":
            return f"raise {p[1]}"
        if p[0] == "str":
            return f"str.{p[1]}({p[2]}{', ' + str(dict(p[3])) if p[3] else ''})"
        if p[0] == "seteq":
            return f"set(unique(D)) == {show(p[2])}"
    return str(p)
