"""Role finders: locate constructs by what they *are* in the repository
(the validate method of a registered backend, the list of core checks that a
loop calls, ...) rather than by text or position."""

from __future__ import annotations

import ast
from typing import Dict, List, Optional, Tuple

from .index import AnalysisError, ClassInfo, FuncInfo, Index, dotted, function_stmts, walk_no_nested
from .util import callee_last, calls_in

PANDAS_API = ("pandera/api/pandas/container.py::DataFrameSchema",
              "pandera/api/pandas/array.py::SeriesSchema",
              "pandera/api/pandas/components.py::Column",
              "pandera/api/pandas/components.py::Index",
              "pandera/api/pandas/components.py::MultiIndex")
POLARS_API = ("pandera/api/polars/container.py::DataFrameSchema",
              "pandera/api/polars/components.py::Column")


def api_classes(ix: Index, which=("pandas", "polars")) -> List[ClassInfo]:
    out = []
    if "pandas" in which:
        out += [ix.cls(q) for q in PANDAS_API]
    if "polars" in which:
        out += [ix.cls(q) for q in POLARS_API]
    return out


def backend_registry(ix: Index) -> Dict[str, List[ClassInfo]]:
    """schema class qual -> backend classes, parsed from the
    `X.register_backend(t, Backend)` calls of the register_* functions."""
    table: Dict[str, List[ClassInfo]] = {}
    n = 0
    for m in ix.modules.values():
        if not m.path.endswith("/register.py"):
            continue
        for f in m.all_functions:
            for c in calls_in(f.node):
                if callee_last(c) != "register_backend" or len(c.args) < 2:
                    continue
                recv = c.func.value  # type: ignore[attr-defined]
                r = ix.resolve_expr(m, recv, f)
                b = ix.resolve_expr(m, c.args[1], f)
                if r and r[0] == "class" and b and b[0] == "class":
                    lst = table.setdefault(r[1].qual, [])
                    if b[1] not in lst:
                        lst.append(b[1])
                    n += 1
    if n < 8:
        raise AnalysisError(f"backend registration table has only {n} rows")
    return table


def backends_for(ix: Index, cls: ClassInfo, registry=None) -> List[ClassInfo]:
    reg = registry if registry is not None else backend_registry(ix)
    for c in cls.mro():
        if c.qual in reg:
            return reg[c.qual]
    return []


def schema_backend_classes(ix: Index, which=("pandas", "polars")) -> List[ClassInfo]:
    base = ix.cls("pandera/backends/base/__init__.py::BaseSchemaBackend")
    out = []
    for c in base.all_subclasses():
        if any(f"/backends/{w}/" in c.module.path for w in which):
            out.append(c)
    return sorted(out, key=lambda c: c.qual)


def callable_list_loops(f: FuncInfo) -> List[Tuple[ast.For, List[ast.expr], str]]:
    """Loops of the form `for fn[, args] in L: ... fn(...)` where L is a local
    list literal of callables (optionally paired with argument tuples).
    Returns (loop, [callable exprs], list variable name)."""
    lists: Dict[str, ast.expr] = {}
    for s in function_stmts(f):
        tgt = val = None
        if isinstance(s, ast.Assign) and len(s.targets) == 1 and isinstance(s.targets[0], ast.Name):
            tgt, val = s.targets[0].id, s.value
        elif isinstance(s, ast.AnnAssign) and isinstance(s.target, ast.Name) and s.value is not None:
            tgt, val = s.target.id, s.value
        if tgt and isinstance(val, (ast.List, ast.Tuple)):
            lists[tgt] = val
    out = []
    for s in function_stmts(f):
        if not isinstance(s, ast.For):
            continue
        it = s.iter
        lit = None
        name = ""
        if isinstance(it, ast.Name) and it.id in lists:
            lit, name = lists[it.id], it.id
        elif isinstance(it, (ast.List, ast.Tuple)):
            lit, name = it, "<literal>"
        if lit is None:
            continue
        tv = s.target.elts[0] if isinstance(s.target, ast.Tuple) and s.target.elts else s.target
        if not isinstance(tv, ast.Name):
            continue
        called = any(isinstance(c.func, ast.Name) and c.func.id == tv.id for b in s.body for c in calls_in(b))
        if not called:
            continue
        fns = []
        for e in lit.elts:
            if isinstance(e, ast.Tuple) and e.elts:
                fns.append(e.elts[0])
            else:
                fns.append(e)
        out.append((s, fns, name))
    return out


def list_literal_of(f: FuncInfo, loop: ast.For):
    """The list/tuple literal a callable-list loop ranges over (written inline or bound to a local first)."""
    it = loop.iter
    if isinstance(it, (ast.List, ast.Tuple)):
        return it
    if isinstance(it, ast.Name):
        for s in function_stmts(f):
            if isinstance(s, ast.Assign) and len(s.targets) == 1 and isinstance(s.targets[0], ast.Name) and s.targets[0].id == it.id \
                    and isinstance(s.value, (ast.List, ast.Tuple)):
                return s.value
            if isinstance(s, ast.AnnAssign) and isinstance(s.target, ast.Name) and s.target.id == it.id and isinstance(s.value, (ast.List, ast.Tuple)):
                return s.value
    return None


def list_element_args(lit_elt) -> Optional[List[ast.expr]]:
    if isinstance(lit_elt, ast.Tuple) and len(lit_elt.elts) >= 2 and isinstance(lit_elt.elts[1], ast.Tuple):
        return list(lit_elt.elts[1].elts)
    return None


def self_method(ix: Index, cls: ClassInfo, expr) -> Optional[FuncInfo]:
    if isinstance(expr, ast.Attribute) and isinstance(expr.value, ast.Name) and expr.value.id in ("self", "cls"):
        return cls.lookup(expr.attr)
    return None


def reason_codes_in(node) -> List[str]:
    out = []
    for n in walk_no_nested(node):
        if isinstance(n, ast.Attribute) and isinstance(n.value, ast.Name) and n.value.id == "SchemaErrorReason":
            out.append(n.attr)
        elif isinstance(n, ast.Attribute) and isinstance(n.value, ast.Attribute) and n.value.attr == "SchemaErrorReason":
            out.append(n.attr)
    return out
