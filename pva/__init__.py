"""pva - pandera verification by static analysis (stdlib ast only)."""
