"""Spec rows of the built-in checks (DESIGN.md appendix B) and helpers to
compare the decision table of an implementation with them."""

from __future__ import annotations

from typing import Dict, List

from .index import AnalysisError
from .preds import PredError, atoms_of, decision_table, lookup, mk_and, show

D = "D"


def P(n):
    return ("param", n)


def cmp_(op, subj, p):
    return ("cmp", op, subj, P(p))


def spec(name: str, a: Dict[str, bool]):
    """Documented meaning of built-in check `name` under the assignment `a`
    of its option atoms (Check.<name> docstrings)."""
    if name == "equal_to":
        return cmp_("==", D, "value")
    if name == "not_equal_to":
        return cmp_("!=", D, "value")
    if name == "greater_than":
        return cmp_(">", D, "min_value")
    if name == "greater_than_or_equal_to":
        return cmp_(">=", D, "min_value")
    if name == "less_than":
        return cmp_("<", D, "max_value")
    if name == "less_than_or_equal_to":
        return cmp_("<=", D, "max_value")
    if name == "in_range":
        lo = cmp_(">=" if a.get("include_min", True) else ">", D, "min_value")
        hi = cmp_("<=" if a.get("include_max", True) else "<", D, "max_value")
        return mk_and(lo, hi)
    if name == "isin":
        return ("isin", D, P("allowed_values"))
    if name == "notin":
        return ("not", ("isin", D, P("forbidden_values")))
    if name == "str_matches":
        return ("strsem", "match", "pattern")
    if name == "str_contains":
        return ("strsem", "contains", "pattern")
    if name == "str_startswith":
        return ("strsem", "prefix", "string")
    if name == "str_endswith":
        return ("strsem", "suffix", "string")
    if name == "str_length":
        mn, mx = a.get("min_value is None", False), a.get("max_value is None", False)
        if mn and mx:
            return ("RAISE", "ValueError")
        if mx:
            return cmp_(">=", ("len", D), "min_value")
        if mn:
            return cmp_("<=", ("len", D), "max_value")
        return mk_and(cmp_(">=", ("len", D), "min_value"), cmp_("<=", ("len", D), "max_value"))
    if name == "unique_values_eq":
        return ("seteq", ("unique", D), P("values"))
    return None


SPEC_ATOMS = {
    "in_range": ["include_min", "include_max"],
    "str_length": ["min_value is None", "max_value is None"],
}
# `x is None` atoms ruled out by the Check.<name> constructor (it raises ValueError before a check object exists)
API_NONNULL = {
    "greater_than": ["min_value is None"], "greater_than_or_equal_to": ["min_value is None"],
    "less_than": ["max_value is None"], "less_than_or_equal_to": ["max_value is None"],
    "in_range": ["min_value is None", "max_value is None"],
}
BUILTINS = ["equal_to", "not_equal_to", "greater_than", "greater_than_or_equal_to", "less_than",
            "less_than_or_equal_to", "in_range", "isin", "notin", "str_matches", "str_contains",
            "str_startswith", "str_endswith", "str_length", "unique_values_eq"]


def sem(form, flavour: str):
    """Map implementation-level string forms to their meaning."""
    if isinstance(form, tuple) and form and form[0] == "str":
        _, kind, pat, opts = form
        o = dict(opts)
        if flavour == "pandas" and o.get("na", None) is not False:
            return ("strbad", "pandas string predicate without na=False: nulls propagate as NaN instead of failing")
        if pat[0] == "rawsrc":
            return ("strbad", f"the compiled pattern `{pat[1]}` is reduced to its source text (`.pattern`): its flags (re.IGNORECASE, re.DOTALL ...) "
                              "are dropped, so the check no longer means what the compiled pattern means")
        if kind == "match":
            if pat[0] == "raw":
                return ("strsem", "match", pat[1])
            return ("strbad", f"str.match on constructed pattern {pat}")
        if kind == "contains":
            if o.get("literal") is True:
                return ("strbad", "contains(literal=True) treats the pattern as a literal")
            if pat[0] == "raw":
                return ("strsem", "contains", pat[1])
            if pat[0] == "embedded":
                _, prefix, p, suffix, grouped = pat
                if prefix == "^" and suffix == "":
                    if grouped:
                        return ("strsem", "match", p)
                    return ("strbad", "user pattern embedded as '^' + pattern without a group: a top-level "
                                      "alternation (a|b) escapes the anchor, unlike re.match")
                return ("strbad", f"pattern embedded as {prefix!r}+pattern+{suffix!r}")
        if kind == "startswith" and pat[0] == "raw":
            return ("strsem", "prefix", pat[1])
        if kind == "endswith" and pat[0] == "raw":
            return ("strsem", "suffix", pat[1])
        return ("strbad", f"unrecognised string predicate {form}")
    if isinstance(form, tuple) and form and form[0] in ("and", "not"):
        return (form[0], *[sem(x, flavour) for x in form[1:]])
    return form


def compare_with_spec(name: str, func_node, flavour: str):
    """[(assignment, ok, detail)] rows comparing implementation and spec."""
    table = decision_table(func_node, flavour)
    atoms = set(atoms_of(table)) | set(SPEC_ATOMS.get(name, []))
    fixed_false = set(API_NONNULL.get(name, []))
    free = sorted(a for a in atoms if a not in fixed_false)
    rows = []
    n = len(free)
    for bits in range(1 << n):
        a = {free[i]: bool(bits >> i & 1) for i in range(n)}
        for f in fixed_false:
            a[f] = False
        got = sem(lookup(table, a), flavour)
        # atoms the spec does not know (e.g. isinstance(pattern, re.Pattern)) must not change the result
        want = spec(name, a)
        ok = got == want
        shown = {k: v for k, v in a.items() if k not in fixed_false}
        rows.append((shown, ok, f"implementation: {show(got)}; documented: {show(want)}"))
    return rows


def check_functions(ix, path) -> Dict[str, object]:
    m = ix.module(path)
    out = {}
    for name, f in m.functions.items():
        if any("register_builtin_check" in d for d in f.decorator_names()):
            out[name] = f
    return out
