"""Witness harness: evaluates the edits of pva/witnesses.py through the overlay.
  python -m pva.witness [PROP ...]      (prints a table, exit 0 iff every applicable witness behaves as expected)"""

from __future__ import annotations

import os
import sys
import time
from concurrent.futures import ProcessPoolExecutor

from .index import REPO, AnalysisError, Index


def _keys(ctx):
    return {o.key() for o in ctx.obs if not o.ok}


def run_one(wd, baseline_keys=None):
    from .cli import run_property
    path = os.path.join(REPO, wd["path"])
    try:
        src = open(path, encoding="utf-8").read()
    except OSError:
        return {**_brief(wd), "status": "skipped", "why": "file missing"}
    olds = wd["old"] if isinstance(wd["old"], list) else [wd["old"]]
    news = wd["new"] if isinstance(wd["new"], list) else [wd["new"]]
    new_src = src
    for o, n in zip(olds, news):
        if not o or new_src.count(o) < 1:
            return {**_brief(wd), "status": "skipped", "why": "pattern not in the current tree"}
        new_src = new_src.replace(o, n, 1)
    try:
        compile(new_src, wd["path"], "exec")
    except SyntaxError as e:
        return {**_brief(wd), "status": "skipped", "why": f"edit does not compile: {e}"}
    os.environ["PVA_NO_CACHE"] = "1"
    try:
        ix = Index(overlay={wd["path"]: new_src})
        rc, ctx = run_property(wd["prop"], "quick", ix=ix, write_evidence=False, quiet=True)
        keys = _keys(ctx)
        err = None
    except AnalysisError as e:
        keys, err = set(), str(e)
    except Exception as e:  # pragma: no cover
        keys, err = set(), f"{type(e).__name__}: {e}"
    new = sorted(keys - (baseline_keys or set()))
    if wd["kind"] == "break":
        ok = bool(new) and err is None
        status = "detected" if ok else ("analysis-error" if err else "MISSED")
    else:
        ok = not new and err is None
        status = "silent" if ok else ("analysis-error" if err else "FALSE-ALARM")
    return {**_brief(wd), "status": status, "ok": ok, "reported": [f"{k[0]} {k[1].split('::')[-1]}: {k[2][:70]}" for k in new[:3]], "error": err}


def _brief(wd):
    return {"prop": wd["prop"], "name": wd["name"], "kind": wd["kind"], "path": wd["path"]}


def baseline(prop):
    from .cli import run_property
    rc, ctx = run_property(prop, "quick", write_evidence=False, quiet=True)
    return _keys(ctx)


def _job(args):
    wd, base = args
    return run_one(wd, base)


def run_props(props, jobs=None):
    from .witnesses import W
    try:
        from .witnesses_seeded import W_SEEDED
    except ImportError:
        W_SEEDED = []
    todo = [x for x in list(W) + list(W_SEEDED) if x["prop"] in props]
    bases = {}
    for p in sorted({x["prop"] for x in todo}):
        bases[p] = baseline(p)
    jobs = jobs or min(16, os.cpu_count() or 4)
    with ProcessPoolExecutor(max_workers=jobs) as ex:
        res = list(ex.map(_job, [(x, bases[x["prop"]]) for x in todo]))
    return res


def summarize(res):
    applied = [r for r in res if r["status"] != "skipped"]
    br = [r for r in applied if r["kind"] == "break"]
    tw = [r for r in applied if r["kind"] == "twin"]
    return {
        "witnesses_total": len(res), "witnesses_applied": len(applied), "skipped": len(res) - len(applied),
        "breaking_applied": len(br), "breaking_detected": sum(1 for r in br if r["status"] == "detected"),
        "twins_applied": len(tw), "twins_silent": sum(1 for r in tw if r["status"] == "silent"),
        "missed": [f"{r['prop']} {r['name']}" for r in br if r["status"] != "detected"],
        "false_alarms": [f"{r['prop']} {r['name']}: {r['reported'] or r['error']}" for r in tw if r["status"] != "silent"],
    }


def main(argv=None):
    argv = argv if argv is not None else sys.argv[1:]
    props = [a.upper() for a in argv] or [f"C{i:02d}" for i in range(1, 21)]
    t0 = time.time()
    res = run_props(props)
    for r in res:
        extra = "; ".join(r.get("reported") or []) or (r.get("error") or r.get("why") or "")
        print(f"{r['prop']} [{r['kind']:5}] {r['status']:14} {r['name']}  {('-> ' + extra[:110]) if extra else ''}")
    s = summarize(res)
    print({k: v for k, v in s.items() if k not in ("missed", "false_alarms")}, f"wall={time.time() - t0:.1f}s")
    for m in s["missed"]:
        print("MISSED:", m)
    for m in s["false_alarms"]:
        print("FALSE-ALARM:", m)
    return 0 if not s["missed"] and not s["false_alarms"] else 1


if __name__ == "__main__":
    sys.exit(main())
