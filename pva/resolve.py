"""E2: call resolution to *sets* of pandera functions.

self/cls methods through the MRO plus overrides in subclasses, super() to the
next class in the MRO, statically resolvable names, `X.get_backend(..).m()`
through the backend registration table, callables stored in a local list
literal, receivers typed by a local constructor call or a parameter
annotation, and - as the last resort - class-hierarchy analysis by method
name restricted to names that pandas/polars objects do not also define."""

from __future__ import annotations

import ast
from typing import Dict, List, Optional, Set, Tuple

from .index import ClassInfo, FuncInfo, Index, dotted, function_stmts
from .index import walk_no_nested
from .roles import backend_registry, callable_list_loops

# method names that data objects (pandas / polars / numpy) define as well: never resolved by name alone
DATA_METHODS = {
    "apply", "groupby", "query", "aggregate", "transform", "isin", "between", "eq", "ne", "gt", "ge", "lt", "le",
    "unique", "empty", "set_index", "reset_index", "from_records", "to_json", "register", "names", "name", "dtype",
    "dtypes", "schema", "lazy", "select", "filter", "copy", "head", "tail", "sample", "drop", "rename", "cast",
    "collect", "get", "items", "values", "keys", "pop", "update", "append", "extend", "insert", "remove", "clear",
    "setdefault", "add", "discard", "sort", "popitem", "format", "join", "split", "strip", "replace", "index", "count",
    "map", "pipe", "astype", "fillna", "any", "all", "sum", "min", "max", "mean", "item", "tolist", "to_dict",
    "startswith", "endswith", "lower", "upper", "match", "search", "fullmatch", "group", "parse", "warn", "register_backend",
}
MUTATORS = {"pop", "update", "append", "extend", "insert", "remove", "clear", "setdefault", "add", "discard", "sort",
            "popitem", "reverse", "__setitem__", "__delitem__"}
CALLABLE_VAR_HINTS = {"check": ("pandera/api/checks.py::Check", "pandera/api/hypotheses.py::Hypothesis"),
                      "parser": ("pandera/api/parsers.py::Parser",),
                      "hypothesis": ("pandera/api/hypotheses.py::Hypothesis",)}


def _flavour(path: str):
    for fl in ("pandas", "polars", "pyspark"):
        if f"/{fl}/" in path or path.endswith(f"/{fl}.py") or f"{fl}_" in path.rsplit("/", 1)[-1]:
            return fl
    return None


class Resolver:
    def __init__(self, ix: Index, include_pyspark: bool = False):
        self.ix = ix
        self.include_pyspark = include_pyspark
        try:
            self.registry = backend_registry(ix)
        except Exception:
            if ix.root != "<memory>":
                raise
            self.registry = {}
        self._callable_lists: Dict[str, Dict[str, List[ast.expr]]] = {}
        self.stats = {"calls": 0, "resolved": 0, "by_kind": {}}

    # ------------------------------------------------------------------
    def _ok(self, f: FuncInfo) -> bool:
        return self.include_pyspark or "pyspark" not in f.module.path

    def class_of_self(self, f: FuncInfo) -> Optional[ClassInfo]:
        g = f
        while g is not None:
            if g.cls is not None:
                return g.cls
            g = g.parent
        return None

    def methods_named(self, cls: ClassInfo, name: str, with_subclasses=True) -> List[FuncInfo]:
        out = []
        m = cls.lookup(name)
        if m is not None:
            out.append(m)
        if with_subclasses:
            for s in cls.all_subclasses():
                for mm in s.methods.get(name, []):
                    if mm not in out and self._ok(mm):
                        out.append(mm)
        return out

    def super_target(self, f: FuncInfo, call_func: ast.Attribute) -> List[FuncInfo]:
        cls = self.class_of_self(f)
        if cls is None:
            return []
        sup = call_func.value
        start = cls
        if isinstance(sup, ast.Call) and sup.args:
            r = self.ix.resolve_expr(f.module, sup.args[0], f)
            if r and r[0] == "class":
                start = r[1]
        out = []
        # the runtime object may be any subclass: next-in-MRO after `start` for each
        for k in [cls] + cls.all_subclasses():
            mro = k.mro()
            if start in mro:
                for c in mro[mro.index(start) + 1:]:
                    m = c.method(call_func.attr)
                    if m is not None:
                        if m not in out:
                            out.append(m)
                        break
        return out

    def backends_of_receiver(self, f: FuncInfo, recv: ast.expr) -> List[ClassInfo]:
        """Backend classes for `<recv>.get_backend(...)`."""
        classes: List[ClassInfo] = []
        if isinstance(recv, ast.Name) and recv.id in ("self", "cls"):
            c = self.class_of_self(f)
            if c is not None:
                fam = [c] + c.all_subclasses()
                for k in fam:
                    for m in k.mro():
                        for b in self.registry.get(m.qual, []):
                            if b not in classes:
                                classes.append(b)
                        if m.qual in self.registry:
                            break
        else:
            r = self.ix.resolve_expr(f.module, recv, f)
            if r and r[0] == "class":
                for m in r[1].mro():
                    if m.qual in self.registry:
                        classes = list(self.registry[m.qual])
                        break
        if not classes:
            for lst in self.registry.values():
                for b in lst:
                    if b not in classes:
                        classes.append(b)
        return [b for b in classes if self.include_pyspark or "pyspark" not in b.module.path]

    def local_callable_list(self, f: FuncInfo) -> Dict[str, List[ast.expr]]:
        """loop variable name -> callable expressions it ranges over"""
        if f.qual not in self._callable_lists:
            d: Dict[str, List[ast.expr]] = {}
            for loop, fns, _ in callable_list_loops(f):
                tv = loop.target.elts[0] if isinstance(loop.target, ast.Tuple) else loop.target
                if isinstance(tv, ast.Name):
                    d.setdefault(tv.id, []).extend(fns)
            self._callable_lists[f.qual] = d
        return self._callable_lists[f.qual]

    def local_type(self, f: FuncInfo, name: str) -> List[ClassInfo]:
        """Class of a local variable / parameter when evident from a constructor
        call assigned to it or from its annotation."""
        out: List[ClassInfo] = []
        # the `schema` parameter of a schema backend method: the schema classes registered for that backend
        if name == "schema":
            bc = self.class_of_self(f)
            if bc is not None and bc.is_subclass_of("BaseSchemaBackend"):
                fam = {bc.qual} | {k.qual for k in bc.all_subclasses()}
                for sq, backends in self.registry.items():
                    if any(b.qual in fam for b in backends):
                        try:
                            sc = self.ix.cls(sq)
                        except Exception:
                            continue
                        if sc not in out:
                            out.append(sc)
                if out:
                    return out
        g = f
        while g is not None:
            ann = g.annotations().get(name)
            if ann is not None:
                for n in ast.walk(ann):
                    if isinstance(n, (ast.Name, ast.Attribute)):
                        r = self.ix.resolve_expr(g.module, n, g)
                        if r and r[0] == "class" and r[1] not in out:
                            out.append(r[1])
                    elif isinstance(n, ast.Constant) and isinstance(n.value, str):
                        for c in self.ix.classes_by_name.get(n.value, []):
                            if c not in out:
                                out.append(c)
            for s in function_stmts(g):
                if isinstance(s, ast.Assign) and isinstance(s.value, ast.Call) and any(
                        isinstance(t, ast.Name) and t.id == name for t in s.targets):
                    r = self.ix.resolve_expr(g.module, s.value.func, g)
                    if r and r[0] == "class" and r[1] not in out:
                        out.append(r[1])
                elif isinstance(s, ast.AnnAssign) and isinstance(s.target, ast.Name) and s.target.id == name:
                    r = self.ix.resolve_expr(g.module, s.annotation, g)
                    if r and r[0] == "class" and r[1] not in out:
                        out.append(r[1])
            if out:
                break
            g = g.parent
        return out

    # ------------------------------------------------------------------
    def resolve(self, f: FuncInfo, call: ast.Call) -> Tuple[List[FuncInfo], str]:
        """(callees, kind).  For constructor calls the callees are the
        __init__/__post_init__ of the class and kind == 'ctor'."""
        self.stats["calls"] += 1
        res, kind = self._resolve(f, call)
        res = [r for r in res if self._ok(r)]
        if res:
            self.stats["resolved"] += 1
            self.stats["by_kind"][kind] = self.stats["by_kind"].get(kind, 0) + 1
        return res, kind

    def _ctor(self, cls: ClassInfo) -> List[FuncInfo]:
        out = []
        for n in ("__init__", "__post_init__"):
            m = cls.lookup(n)
            if m is not None:
                out.append(m)
        return out

    def _resolve(self, f: FuncInfo, call: ast.Call):
        fn = call.func
        ix = self.ix
        if isinstance(fn, ast.Name):
            lists = self.local_callable_list(f)
            if fn.id in lists:
                out = []
                cls = self.class_of_self(f)
                for e in lists[fn.id]:
                    if isinstance(e, ast.Attribute) and isinstance(e.value, ast.Name) and e.value.id in ("self", "cls") and cls:
                        out += [m for m in self.methods_named(cls, e.attr) if m not in out]
                    else:
                        r = ix.resolve_expr(f.module, e, f)
                        if r and r[0] == "func" and r[1] not in out:
                            out.append(r[1])
                return out, "callable-list"
            r = ix.resolve_name(f.module, fn.id, f)
            if r:
                if r[0] == "func":
                    return [r[1]], "static"
                if r[0] == "class":
                    return self._ctor(r[1]), "ctor"
            if fn.id in CALLABLE_VAR_HINTS and r is None:
                out = []
                for q in CALLABLE_VAR_HINTS[fn.id]:
                    try:
                        m = ix.cls(q).lookup("__call__")
                    except Exception:
                        m = None
                    if m is not None and m not in out:
                        out.append(m)
                return out, "callable-var-hint"
            if fn.id == "cls":
                c = self.class_of_self(f)
                if c is not None:
                    return self._ctor(c), "ctor"
            return [], "unresolved"
        if not isinstance(fn, ast.Attribute):
            return [], "unresolved"
        v = fn.value
        name = fn.attr
        # super().m()
        if isinstance(v, ast.Call) and isinstance(v.func, ast.Name) and v.func.id == "super":
            return self.super_target(f, fn), "super"
        # self.m() / cls.m()
        if isinstance(v, ast.Name) and v.id in ("self", "cls"):
            c = self.class_of_self(f)
            if c is not None:
                ms = self.methods_named(c, name)
                if ms:
                    return ms, "self"
                return [], "unresolved"
        # X.get_backend(...).m()
        if isinstance(v, ast.Call) and isinstance(v.func, ast.Attribute) and v.func.attr == "get_backend":
            out = []
            for b in self.backends_of_receiver(f, v.func.value):
                m = b.lookup(name)
                if m is not None and m not in out:
                    out.append(m)
            return out, "backend-registry"
        # statically resolvable dotted expression (module.func, Class.method, Class(...))
        r = ix.resolve_expr(f.module, fn, f)
        if r:
            if r[0] == "func":
                return [r[1]], "static"
            if r[0] == "class":
                return self._ctor(r[1]), "ctor"
        if r is None:
            rb = ix.resolve_expr(f.module, v, f)
            if rb and rb[0] == "external":
                return [], "external"
        # typed receiver
        if isinstance(v, ast.Name):
            classes = self.local_type(f, v.id)
            out = []
            for c in classes:
                for m in self.methods_named(c, name):
                    if m not in out:
                        out.append(m)
            if out:
                return out, "typed-receiver"
            if classes:
                return [], "unresolved"
        # CHA by method name, narrowed by the receiver's role when its name tells it
        if name in DATA_METHODS or name.startswith("__"):
            return [], "unresolved"
        out = [m for m in ix.methods_by_name.get(name, []) if self._ok(m)]
        # a backend/api module of one dataframe library never holds objects of another library's classes
        fl = _flavour(f.module.path)
        if fl:
            same = [m for m in out if _flavour(m.module.path) in (None, fl)]
            if same:
                out = same
        fam = self.receiver_family(v) or self.family_by_definition(f, v)
        if fam:
            narrowed = [m for m in out if m.cls is not None and any(m.cls.is_subclass_of(b) for b in fam)]
            if narrowed:
                return narrowed, "cha-by-name+role"
        return out, "cha-by-name"

    ROLE_FAMILIES = (
        (("error_handler",), ("ErrorHandler",)),
        (("dtype", "data_type", "pandera_dtype", "datatype"), ("DataType",)),
        (("check", "hypothesis"), ("BaseCheck",)),
        (("parser",), ("BaseParser", "Parser")),
        (("backend",), ("BaseSchemaBackend", "BaseCheckBackend", "BaseParserBackend")),
        (("schema", "schema_component", "component", "index", "_index", "column", "col", "series_schema",
          "schema_copy"), ("BaseSchema",)),
    )

    # -- family of a receiver from what it is bound to (independent of how the local is called) ----------------
    ELEMENT_FAMILY = {"columns": ("BaseSchema",), "indexes": ("BaseSchema",), "checks": ("BaseCheck",), "parsers": ("BaseParser", "Parser")}

    def _bindings(self, f):
        """name -> list of ("value", expr) | ("element", iterable expr, position) bindings of plain locals of f (and of the
        functions enclosing it, for closures)."""
        cache = self.__dict__.setdefault("_bind_cache", {})
        if f.qual in cache:
            return cache[f.qual]
        out = {}
        scopes = [f]
        p = getattr(f, "parent", None)
        while p is not None:
            scopes.append(p)
            p = getattr(p, "parent", None)
        for g in scopes:
            for n in walk_no_nested(g.node):
                if isinstance(n, ast.Assign) and len(n.targets) == 1 and isinstance(n.targets[0], ast.Name):
                    out.setdefault(n.targets[0].id, []).append(("value", n.value, None))
                elif isinstance(n, (ast.For, ast.AsyncFor, ast.comprehension)):
                    t = n.target
                    if isinstance(t, ast.Name):
                        out.setdefault(t.id, []).append(("element", n.iter, None))
                    elif isinstance(t, ast.Tuple):
                        for i, e in enumerate(t.elts):
                            if isinstance(e, ast.Name):
                                out.setdefault(e.id, []).append(("element", n.iter, i))
        cache[f.qual] = out
        return out

    def family_by_definition(self, f, recv, depth=0):
        if depth > 4:
            return None
        if isinstance(recv, ast.Name):
            fams = set()
            for kind, e, pos in self._bindings(f).get(recv.id, []):
                fam = None
                if kind == "value":
                    fam = self.receiver_family(e) or self.family_by_definition(f, e, depth + 1)
                else:
                    it = e
                    # [s for s in X if ...] ranges over (a subset of) X
                    while isinstance(it, (ast.ListComp, ast.GeneratorExp, ast.SetComp)) and len(it.generators) == 1 \
                            and isinstance(it.elt, ast.Name) and isinstance(it.generators[0].target, ast.Name) \
                            and it.elt.id == it.generators[0].target.id:
                        it = it.generators[0].iter
                    # enumerate(X) -> element is position 1; X.items() -> value is position 1; X.values() / X -> the element
                    if isinstance(it, ast.Call) and isinstance(it.func, ast.Name) and it.func.id == "enumerate" and it.args:
                        if pos != 1:
                            continue
                        it = it.args[0]
                    if isinstance(it, ast.Call) and isinstance(it.func, ast.Attribute) and it.func.attr in ("items", "values"):
                        if it.func.attr == "items" and pos != 1:
                            continue
                        it = it.func.value
                    last = it.attr if isinstance(it, ast.Attribute) else (it.id if isinstance(it, ast.Name) else None)
                    if last is not None and last.lstrip("_") in self.ELEMENT_FAMILY:
                        fam = self.ELEMENT_FAMILY[last.lstrip("_")]
                    elif isinstance(it, ast.Name):
                        # a local list of components / checks: look at what it is bound to
                        for k2, e2, _ in self._bindings(f).get(it.id, []):
                            if k2 == "value":
                                l2 = e2.attr if isinstance(e2, ast.Attribute) else None
                                if l2 and l2.lstrip("_") in self.ELEMENT_FAMILY:
                                    fam = self.ELEMENT_FAMILY[l2.lstrip("_")]
                if fam:
                    fams.add(tuple(fam))
            if len(fams) == 1:
                return fams.pop()
            return None
        if isinstance(recv, ast.Attribute):
            if recv.attr in ("dtype",):
                return ("DataType",)
            if recv.attr in ("index",):
                return ("BaseSchema",)
        return None

    def receiver_family(self, recv: ast.expr):
        last = None
        if isinstance(recv, ast.Name):
            last = recv.id
        elif isinstance(recv, ast.Attribute):
            last = recv.attr
        elif isinstance(recv, ast.Subscript):
            return self.receiver_family(recv.value) if isinstance(recv.value, (ast.Name, ast.Attribute)) and \
                (recv.value.attr if isinstance(recv.value, ast.Attribute) else recv.value.id) in ("columns", "indexes", "checks", "parsers") else None
        elif isinstance(recv, ast.Call) and isinstance(recv.func, ast.Attribute) and recv.func.attr in ("to_schema", "set_name"):
            return ("BaseSchema",)
        if last is None:
            return None
        low = last.lower().lstrip("_")
        if low in ("columns", "indexes"):
            return ("BaseSchema",)
        if low in ("checks",):
            return ("BaseCheck",)
        for keys, fam in self.ROLE_FAMILIES:
            for k in keys:
                if low == k or low.endswith("_" + k) or (k in ("schema", "dtype", "check", "parser", "backend") and low.endswith(k)):
                    return fam
        return None
