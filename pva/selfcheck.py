"""setup_cmd: verify the toolchain and that the anchors resolve (parses /repo)."""
import sys
from .index import Index, AnalysisError

def main():
    try:
        ix = Index()
    except AnalysisError as e:
        print("ANALYSIS-ERROR setup:", e)
        return 2
    print(f"pva ready: python {sys.version.split()[0]}, {len(ix.modules)} modules, {len(ix.funcs)} functions indexed")
    return 0

if __name__ == "__main__":
    sys.exit(main())
