"""setup_cmd: verify the toolchain, that the anchors resolve (parses /repo), and warm the effect-summary cache
(/verif/.cache, keyed by a digest of every analysed source file and of the analyser: any edit to /repo or to pva
invalidates it, so a stale summary can never be used)."""
import sys
import time

from .index import AnalysisError, Index


def main():
    t0 = time.time()
    try:
        ix = Index()
    except AnalysisError as e:
        print("ANALYSIS-ERROR setup:", e)
        return 2
    print(f"pva ready: python {sys.version.split()[0]}, {len(ix.modules)} modules, {len(ix.funcs)} functions indexed")
    try:
        from .effprops import engine
        eng = engine(ix)
        print(f"effect summaries: {len(eng.summaries)} functions, {'cache hit' if getattr(eng, 'from_cache', False) else 'computed'} "
              f"in {time.time() - t0:.1f}s")
    except Exception as e:  # the checks recompute on demand; setup must not fail because of the optional cache
        print(f"effect summaries not pre-computed ({type(e).__name__}: {e}); checks will compute them")
    return 0


if __name__ == "__main__":
    sys.exit(main())
