"""Flow-sensitive def-use expansion.

`FlowExpander(func).expand_at(node_id, expr)` rewrites `expr` so that it no longer mentions the plain locals a
developer may rename freely: a local with exactly ONE reaching definition at that program point is replaced by its
definition (recursively, evaluated at the defining point); a loop variable by a token derived from the iterable it
ranges over (KEY_/VAL_/ELEM_<iterable>); an accumulator (a local initialised empty and filled by append / item
stores) by ACC_<keyword it finally flows into>; parameters by role tokens supplied by the caller.  Names with
several reaching definitions are left alone (the rule then depends on the spelling, which is reported as such).

Reaching definitions come from the statement-level CFG, so name re-use (`col_name` bound by three successive loops)
is handled correctly - a flow-insensitive expansion merges them."""

from __future__ import annotations

import ast
from typing import Dict, Optional

from .cfg import cfg_of
from .index import norm, walk_no_nested
from .util import clone


def _ident(text: str) -> str:
    return "".join(ch if ch.isalnum() else "_" for ch in text).strip("_")


class FlowExpander:
    def __init__(self, func_node, param_roles: Optional[Dict[str, str]] = None, max_depth: int = 8):
        self.fn = func_node
        self.cfg = cfg_of(func_node)
        self.rd = self.cfg.reaching_defs()
        self.roles = dict(param_roles or {})
        self.max_depth = max_depth
        self.by_ast = {}
        for n in self.cfg.nodes:
            if n.ast is not None:
                self.by_ast[id(n.ast)] = n.id
        # accumulators and where they end up
        self.acc = {}
        filled = set()
        for n in walk_no_nested(func_node):
            if isinstance(n, ast.Call) and isinstance(n.func, ast.Attribute) and isinstance(n.func.value, ast.Name) \
                    and n.func.attr in ("append", "extend", "update", "add", "insert", "setdefault"):
                filled.add(n.func.value.id)
            if isinstance(n, ast.Assign):
                for t in n.targets:
                    if isinstance(t, ast.Subscript) and isinstance(t.value, ast.Name):
                        filled.add(t.value.id)
        self.filled = filled
        for n in walk_no_nested(func_node):
            if isinstance(n, ast.Call):
                callee = n.func.attr if isinstance(n.func, ast.Attribute) else (n.func.id if isinstance(n.func, ast.Name) else "")
                ctor = callee[:1].isupper()
                if callee in ("append", "extend", "update", "add", "insert", "setdefault", "len", "list", "set", "sorted", "frozenset", "fromkeys"):
                    continue
                for k in n.keywords:
                    if k.arg:
                        for x in ast.walk(k.value):
                            if isinstance(x, ast.Name) and x.id in filled and x.id not in self.acc:
                                self.acc[x.id] = f"ACC_{k.arg}" if ctor else f"ACC_{callee}"
                if not ctor:
                    for a in n.args:
                        for x in ast.walk(a):
                            if isinstance(x, ast.Name) and x.id in filled and x.id not in self.acc:
                                self.acc[x.id] = f"ACC_{callee}"

    # -- node lookup -----------------------------------------------------------------
    def node_id_of(self, node) -> Optional[int]:
        """CFG node that evaluates `node` (a statement, a test expression, or anything inside one)."""
        from .index import parent
        p = node
        while p is not None:
            if id(p) in self.by_ast:
                return self.by_ast[id(p)]
            p = parent(p)
        return None

    # -- expansion ---------------------------------------------------------------------
    def expand(self, expr):
        """Expansion at the point where `expr` is evaluated (works for nodes of the analysed tree)."""
        nid = self.node_id_of(expr)
        if nid is None:
            return clone(expr)
        return self.expand_at(nid, expr)

    def expand_at(self, nid: int, expr, _depth=0, _stack=()):
        fx = self

        class T(ast.NodeTransformer):
            def visit_Name(self, n):
                if not isinstance(n.ctx, ast.Load):
                    return n
                return fx._resolve(nid, n, _depth, _stack)

            def visit_Lambda(self, n):
                return n

        return T().visit(clone(expr))

    def _resolve(self, nid, name_node, depth, stack):
        name = name_node.id
        if name in self.roles and self._only_entry(nid, name):
            return ast.Name(id=self.roles[name], ctx=ast.Load())
        if name in self.acc:
            return ast.Name(id=self.acc[name], ctx=ast.Load())
        defs = self.rd.get(nid, {}).get(name)
        if not defs or len(defs) != 1 or depth >= self.max_depth:
            return name_node
        d = self.cfg.nodes[next(iter(defs))]
        if (d.id, name) in stack:
            return name_node
        a = d.ast
        if d.kind == "stmt" and isinstance(a, ast.Assign) and len(a.targets) == 1 and isinstance(a.targets[0], ast.Name) \
                and a.targets[0].id == name and name not in self.filled:
            return self.expand_at(d.id, a.value, depth + 1, stack + ((d.id, name),))
        if d.kind == "stmt" and isinstance(a, ast.AnnAssign) and isinstance(a.target, ast.Name) and a.value is not None and name not in self.filled:
            return self.expand_at(d.id, a.value, depth + 1, stack + ((d.id, name),))
        if d.kind == "for" and isinstance(a, (ast.For, ast.AsyncFor)):
            it = a.iter
            if isinstance(it, ast.Call) and isinstance(it.func, ast.Attribute) and it.func.attr == "items" and isinstance(a.target, ast.Tuple) \
                    and len(a.target.elts) == 2 and all(isinstance(t, ast.Name) for t in a.target.elts):
                base = _ident(norm(self.expand_at(d.id, it.func.value, depth + 1, stack + ((d.id, name),))))
                if a.target.elts[0].id == name:
                    return ast.Name(id=f"KEY_{base}", ctx=ast.Load())
                return ast.Subscript(value=self.expand_at(d.id, it.func.value, depth + 1, stack + ((d.id, name),)),
                                     slice=ast.Name(id=f"KEY_{base}", ctx=ast.Load()), ctx=ast.Load())
            if isinstance(a.target, ast.Name) and a.target.id == name:
                base = _ident(norm(self.expand_at(d.id, it, depth + 1, stack + ((d.id, name),))))
                return ast.Name(id=f"ELEM_{base}", ctx=ast.Load())
        return name_node

    def _only_entry(self, nid, name) -> bool:
        defs = self.rd.get(nid, {}).get(name)
        return not defs or defs == {self.cfg.entry.id}

    def text_at(self, nid, expr) -> str:
        return norm(self.expand_at(nid, expr))
