"""Thorough tier: on top of the quick rules (already evaluated on the unchanged tree by the caller) the checker
itself is exercised on the current tree.

1. Witness suite of the property (pva/witnesses.py): each breaking edit must be reported, each behaviour-preserving
   twin must stay silent.  Evaluated through the in-memory overlay of the *current* sources.
2. Silence under refactoring: every file the property's rules looked at is put through the behaviour-preserving AST
   transformations of pva/refactor_fuzz.py (one file x one transformation per variant); an obligation violated on a
   variant but not on the unchanged tree is a false alarm of the checker.

Neither can produce a VIOLATION line: they test the analyser, not pandera.  Their results go into the evidence file
(`witnesses`, `silence`); a missed witness or a false alarm is listed there by name."""

from __future__ import annotations

import os
from concurrent.futures import ProcessPoolExecutor

from .index import REPO


def _silence_job(a):
    path, tname, prop, base_keys, base_rf = a
    os.environ["PVA_NO_CACHE"] = "1"
    from . import refactor_fuzz as rf
    from .cli import run_property
    from .index import AnalysisError, Index
    try:
        src = open(os.path.join(REPO, path), encoding="utf-8").read()
        new = rf.make_variant(src, tname)
    except Exception as e:  # transformation not applicable to this file
        return (path, tname, "skipped", f"{type(e).__name__}: {e}")
    import ast
    if tname != "reformat" and ast.unparse(ast.parse(src)) == new:
        return (path, tname, "unchanged", "")
    try:
        rc, ctx = run_property(prop, "quick", ix=Index(overlay={path: new}), write_evidence=False, quiet=True)
    except AnalysisError as e:
        return (path, tname, "analysis-error", str(e)[:200])
    except Exception as e:
        return (path, tname, "analysis-error", f"{type(e).__name__}: {e}"[:200])
    new_v = [o for o in ctx.obs if not o.ok and o.key() not in base_keys and (o.rule, o.func) not in base_rf]
    if new_v:
        return (path, tname, "false-alarm", "; ".join(f"{o.rule} {o.func.split('::')[-1]}: {o.construct[:60]}" for o in new_v[:3]))
    return (path, tname, "silent", "")


def thorough_extra(prop: str, ctx, jobs: int = None) -> dict:
    from . import refactor_fuzz as rf
    from .witness import run_props, summarize
    out = {}
    res = run_props([prop])
    s = summarize(res)
    out["witnesses"] = {k: s[k] for k in ("witnesses_applied", "breaking_applied", "breaking_detected", "twins_applied", "twins_silent",
                                          "skipped", "missed", "false_alarms")}
    out["witnesses"]["names"] = [f"{r['name']} -> {r['status']}" for r in res]
    files = sorted({q.split("::")[0] for q in ctx.functions_analysed if q.startswith("pandera/") and q.split("::")[0].endswith(".py")
                    and os.path.exists(os.path.join(REPO, q.split("::")[0]))})
    base_keys = {o.key() for o in ctx.obs if not o.ok}
    base_rf = {(o.rule, o.func) for o in ctx.obs if not o.ok}
    work = [(f, t, prop, base_keys, base_rf) for f in files for t in rf.TRANSFORMS]
    counts = {"silent": 0, "unchanged": 0, "false-alarm": 0, "analysis-error": 0, "skipped": 0}
    problems = []
    jobs = jobs or min(16, os.cpu_count() or 4)
    with ProcessPoolExecutor(max_workers=jobs) as ex:
        for path, tname, status, detail in ex.map(_silence_job, work, chunksize=1):
            counts[status] += 1
            if status in ("false-alarm", "analysis-error"):
                problems.append(f"{status}: {path} [{tname}] {detail}")
    out["silence"] = {"files": files, "transforms": sorted(rf.TRANSFORMS), "variants": len(work), **counts, "problems": problems[:40]}
    return out
