"""Shared helpers for the ownership properties (C04-C07, C15, C16): one effect
engine per process, entry points by role, flavour filtering, obligations."""

from __future__ import annotations

from typing import Dict, Iterable, List, Optional, Tuple

from .effects import Effect, Effects, show_effect
from .index import AnalysisError, FuncInfo
from .resolve import _flavour
from .roles import PANDAS_API, POLARS_API

_ENGINES: Dict[Tuple[int, bool], Effects] = {}


def engine(ix, include_pyspark=False) -> Effects:
    k = (id(ix), include_pyspark)
    if k not in _ENGINES:
        eng = Effects(ix, include_pyspark)
        eng.run(max_rounds=60)
        if eng.trace and eng.trace[-1][2] == -1:
            raise AnalysisError(f"effect summaries did not reach a fixpoint in {eng.rounds} rounds")
        _ENGINES[k] = eng
    return _ENGINES[k]


def api_entries(ix, names=("validate", "__call__")) -> List[Tuple[str, FuncInfo, str]]:
    """(class qual, resolved function, flavour) for the public entry methods."""
    out = []
    for q in PANDAS_API + POLARS_API:
        c = ix.cls(q)
        fl = "pandas" if q in PANDAS_API else "polars"
        for n in names:
            f = c.lookup(n)
            if f is None:
                raise AnalysisError(f"{q} has no method {n}")
            out.append((q, f, fl))
    return out


def consistent_flavour(e: Effect, flavour: Optional[str]) -> bool:
    """An effect reached from a pandas (polars) entry through a polars
    (pandas) backend module is an artefact of the context-insensitive
    summaries: backends are registered per data type and never mix."""
    if flavour is None:
        return True
    other = {"pandas": ("polars", "pyspark"), "polars": ("pandas", "pyspark"), "pyspark": ("pandas", "polars")}[flavour]
    paths = [e.site[0]] + [v[0] for v in e.via]
    for p in paths:
        mod = p.split("::")[0]
        fl = _flavour(mod)
        if fl in other and "/engines/" not in mod:
            return False
    return True


def inplace_only(e: Effect) -> bool:
    return ("inplace", True) in e.cond


def dedupe(effects: Iterable[Effect]) -> List[Effect]:
    seen = {}
    for e in effects:
        k = (e.root, e.path[:3], e.kind, e.site, inplace_only(e))
        if k not in seen or len(e.via) < len(seen[k].via):
            seen[k] = e
    return sorted(seen.values(), key=lambda e: (e.site, e.root, e.path))


def chain(e: Effect) -> str:
    if not e.via:
        return ""
    return " <- ".join(f"{v[0].split('::')[1]}:{v[1]}" for v in e.via[:5])


def site_key(e: Effect) -> Tuple[str, str]:
    """(function qual, construct text) identifying a write site independent of line numbers."""
    return e.site[0], e.site[2]


def site_loc(e: Effect) -> str:
    return f"{e.site[0].split('::')[0]}:{e.site[1]}"
