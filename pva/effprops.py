"""Shared helpers for the ownership properties (C04-C07, C15, C16): one effect
engine per process, entry points by role, flavour filtering, obligations."""

from __future__ import annotations

import os
import pickle
from typing import Dict, Iterable, List, Optional, Tuple

from .effects import Effect, Effects, show_effect
from .index import AnalysisError, FuncInfo
from .resolve import _flavour
from .roles import PANDAS_API, POLARS_API

_ENGINES: Dict[Tuple[int, bool], Effects] = {}


def _digest(ix, include_pyspark) -> str:
    import hashlib
    h = hashlib.sha256()
    h.update(b"pyspark" if include_pyspark else b"core")
    for path in sorted(ix.by_path):
        h.update(path.encode())
        h.update(ix.by_path[path].source.encode())
    here = os.path.dirname(os.path.abspath(__file__))
    for fn in sorted(os.listdir(here)):
        if fn.endswith(".py"):
            with open(os.path.join(here, fn), "rb") as fh:
                h.update(fh.read())
    return h.hexdigest()[:24]


def engine(ix, include_pyspark=False) -> Effects:
    """One effect engine per process; summaries are cached on disk keyed by a digest of every analysed
    source file and of the analyser itself (any edit to /repo or to the engine invalidates the cache)."""
    k = (id(ix), include_pyspark)
    if k in _ENGINES:
        return _ENGINES[k]
    eng = Effects(ix, include_pyspark)
    cache_dir = os.path.join(os.path.dirname(os.path.dirname(os.path.abspath(__file__))), ".cache")
    path = None
    if os.environ.get("PVA_NO_CACHE") != "1" and ix.root != "<memory>":
        try:
            path = os.path.join(cache_dir, f"effects-{_digest(ix, include_pyspark)}.pkl")
            if os.path.exists(path):
                with open(path, "rb") as fh:
                    d = pickle.load(fh)
                eng.summaries, eng.restores, eng.param_callables = d["summaries"], d["restores"], d["param_callables"]
                eng.trace, eng.rounds = d["trace"], d["rounds"]
                eng.res.stats = d["stats"]
                eng.from_cache = True
                _ENGINES[k] = eng
                return eng
        except Exception:
            path = None
    eng.run(max_rounds=60)
    if eng.trace and eng.trace[-1][2] == -1:
        raise AnalysisError(f"effect summaries did not reach a fixpoint in {eng.rounds} rounds")
    eng.from_cache = False
    if path is not None:
        try:
            os.makedirs(cache_dir, exist_ok=True)
            tmp = path + f".{os.getpid()}.tmp"
            with open(tmp, "wb") as fh:
                pickle.dump({"summaries": eng.summaries, "restores": eng.restores, "param_callables": eng.param_callables,
                             "trace": eng.trace, "rounds": eng.rounds, "stats": eng.res.stats}, fh)
            os.replace(tmp, path)
            old = sorted((os.path.getmtime(os.path.join(cache_dir, f)), f) for f in os.listdir(cache_dir) if f.startswith("effects-"))
            for _, f in old[:-4]:
                os.remove(os.path.join(cache_dir, f))
        except Exception:
            pass
    _ENGINES[k] = eng
    return eng


def api_entries(ix, names=("validate", "__call__")) -> List[Tuple[str, FuncInfo, str]]:
    """(class qual, resolved function, flavour) for the public entry methods."""
    out = []
    for q in PANDAS_API + POLARS_API:
        c = ix.cls(q)
        fl = "pandas" if q in PANDAS_API else "polars"
        for n in names:
            f = c.lookup(n)
            if f is None:
                raise AnalysisError(f"{q} has no method {n}")
            out.append((q, f, fl))
    return out


def consistent_flavour(e: Effect, flavour: Optional[str]) -> bool:
    """An effect reached from a pandas (polars) entry through a polars
    (pandas) backend module is an artefact of the context-insensitive
    summaries: backends are registered per data type and never mix."""
    if flavour is None:
        return True
    other = {"pandas": ("polars", "pyspark"), "polars": ("pandas", "pyspark"), "pyspark": ("pandas", "polars")}[flavour]
    paths = [e.site[0]] + [v[0] for v in e.via]
    for p in paths:
        mod = p.split("::")[0]
        fl = _flavour(mod)
        if fl in other and "/engines/" not in mod:
            return False
    return True


def inplace_only(e: Effect) -> bool:
    return ("inplace", True) in e.cond


def dedupe(effects: Iterable[Effect]) -> List[Effect]:
    seen = {}
    for e in effects:
        k = (e.root, e.path[:3], e.kind, e.site, inplace_only(e))
        if k not in seen or len(e.via) < len(seen[k].via):
            seen[k] = e
    return sorted(seen.values(), key=lambda e: (e.site, e.root, e.path))


def chain(e: Effect) -> str:
    if not e.via:
        return ""
    return " <- ".join(f"{v[0].split('::')[1]}:{v[1]}" for v in e.via[:5])


def site_key(e: Effect) -> Tuple[str, str]:
    """(function qual, construct text) identifying a write site independent of line numbers."""
    return e.site[0], e.site[2]


def site_loc(e: Effect) -> str:
    return f"{e.site[0].split('::')[0]}:{e.site[1]}"
