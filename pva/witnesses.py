"""Checking the checker: source edits evaluated through the in-memory overlay.

Each witness is (property, name, relative path, old text, new text, kind) with
kind "break" (must be reported by the property's rules, on top of what the
unchanged tree reports) or "twin" (behaviour preserving, must stay silent).
A witness whose `old` text no longer occurs in the current tree is skipped."""

from __future__ import annotations

W = []


def w(prop, name, path, old, new, kind="break"):
    W.append({"prop": prop, "name": name, "path": path, "old": old, "new": new, "kind": kind})


BP = "pandera/backends/pandas/"
BL = "pandera/backends/polars/"

# ---- C01 -------------------------------------------------------------------------------------
w("C01", "drop check_dtype from the array pipeline", BP + "array.py",
  "            (self.check_dtype, (field_obj_subsample, schema)),\n", "")
w("C01", "collect_error skipped for check errors", BP + "container.py",
  "                if result.passed:\n                    continue\n\n                if result.schema_error is not None:",
  "                if result.passed or result.original_exc is not None:\n                    continue\n\n                if result.schema_error is not None:")
w("C01", "in_range ignores include_max", BP + "builtin_checks.py",
  "right_op = operator.ge if include_max else operator.gt", "right_op = operator.ge")
w("C01", "greater_than becomes >=", BP + "builtin_checks.py", "    return data > min_value", "    return data >= min_value")
w("C01", "notin loses its negation", BP + "builtin_checks.py", "return ~data.isin(forbidden_values)", "return data.isin(forbidden_values)")
w("C01", "report_duplicates exclude_last mapped to first", "pandera/backends/utils.py",
  'keep_argument = "last"', 'keep_argument = "first"')
w("C01", "nullable no longer consulted", BP + "array.py",
  ["        if schema.nullable or not check_obj.hasnans:", "        passed = schema.nullable or not isna.any()"],
  ["        if not check_obj.hasnans:", "        passed = not isna.any()"])
w("C01", "dropna without ignore_na", BP + "checks.py",
  "            if self.check.ignore_na and check_obj.hasnans:\n                return check_obj.dropna()",
  "            if check_obj.hasnans:\n                return check_obj.dropna()")
w("C01", "defaults filled although none declared", BP + "container.py",
  "            if (\n                pd.isna(col_schema.default)\n                or col_name not in check_obj.columns\n            ):\n                continue",
  "            if col_name not in check_obj.columns:\n                continue")
w("C01", "twin: data > min written as min < data", BP + "builtin_checks.py", "    return data > min_value", "    return min_value < data", "twin")
w("C01", "twin: rename local in check_unique", BP + "array.py", "keep_argument = convert_uniquesettings(schema.report_duplicates)",
  "keep_argument = convert_uniquesettings(\n                schema.report_duplicates\n            )", "twin")

# ---- C02 -------------------------------------------------------------------------------------
w("C02", "collect_error forgets the summary list", "pandera/api/base/error_handler.py",
  "        self._schema_errors.append(schema_error)\n", "        if reason_code is not None:\n            self._schema_errors.append(schema_error)\n")
w("C02", "swallow component SchemaError", BP + "container.py",
  "            except SchemaError as err:\n                check_results.append(\n                    CoreCheckResult(\n                        passed=False,\n                        check=\"schema_component_checks\",\n                        reason_code=SchemaErrorReason.SCHEMA_COMPONENT_CHECK,\n                        schema_error=err,\n                    )\n                )",
  "            except SchemaError as err:\n                check_passed.append(err is not None)")
w("C02", "lazy selects which parsers run", BP + "array.py",
  "            if is_field(check_obj) and schema.coerce:", "            if is_field(check_obj) and schema.coerce and not lazy:")
w("C02", "final raise only in eager mode lost", BL + "container.py",
  "        if error_handler.collected_errors:\n            if getattr(schema, \"drop_invalid_rows\", False):",
  "        if error_handler.collected_errors and head is None:\n            if getattr(schema, \"drop_invalid_rows\", False):")
w("C02", "column coercion fence catches the wrong class again", BP + "components.py",
  "                except SchemaError as exc:\n                    error_handler.collect_error(\n                        validation_type(exc.reason_code),\n                        exc.reason_code,\n                        exc,\n                    )\n                except SchemaErrors as exc:\n                    error_handler.collect_errors(exc.schema_errors)",
  "                except SchemaErrors as exc:\n                    error_handler.collect_errors(exc.schema_errors)")
w("C02", "twin: handler variable renamed", BP + "array.py",
  "        except SchemaError as exc:\n            error_handler.collect_error(\n                validation_type(exc.reason_code),\n                exc.reason_code,\n                exc,\n            )\n\n        # run custom parsers",
  "        except SchemaError as err_:\n            error_handler.collect_error(\n                validation_type(err_.reason_code),\n                err_.reason_code,\n                err_,\n            )\n\n        # run custom parsers", "twin")

# ---- C03 -------------------------------------------------------------------------------------
w("C03", "index validated on the unparsed series again", "pandera/api/pandas/array.py",
  "                validated_obj = self.index.validate(\n                    validated_obj,", "                validated_obj = self.index.validate(\n                    check_obj,")
w("C03", "polars validate returns the input frame", "pandera/api/polars/container.py",
  "        if is_dataframe:\n            output = output.collect()\n\n        return output", "        if is_dataframe:\n            output = output.collect()\n            return output\n\n        return check_obj")
w("C03", "parser result dropped in the array backend", BP + "array.py",
  "        check_obj = self.run_parsers(\n            schema,\n            check_obj,\n        )", "        self.run_parsers(\n            schema,\n            check_obj,\n        )")
w("C03", "twin: working name renamed in polars api", "pandera/api/polars/container.py",
  "        if is_dataframe:\n            output = output.collect()\n\n        return output", "        result = output\n        if is_dataframe:\n            result = result.collect()\n\n        return result", "twin")

# ---- C04 -------------------------------------------------------------------------------------
w("C04", "column backend loses its copy", BP + "components.py",
  "        if not inplace:\n            check_obj = check_obj.copy()\n\n        error_handler = ErrorHandler(lazy=lazy)", "        error_handler = ErrorHandler(lazy=lazy)")
w("C04", "array preprocess returns the argument", BP + "array.py", "return check_obj if inplace else check_obj.copy()", "return check_obj")
w("C04", "index backend coerces the caller's index again", BP + "components.py",
  "        error_handler = ErrorHandler(lazy)\n\n        if not inplace:\n            check_obj = check_obj.copy()\n", "        error_handler = ErrorHandler(lazy)\n")
w("C04", "copy condition inverted", BP + "container.py", "        if not inplace:\n            check_obj = check_obj.copy()\n        return check_obj",
  "        if inplace:\n            check_obj = check_obj.copy()\n        return check_obj")
w("C04", "polars column forgets to collect", "pandera/api/polars/components.py",
  "        if is_dataframe:\n            output = output.collect()\n\n        return output", "        return output")
w("C04", "twin: ternary copy instead of if", BP + "container.py", "        if not inplace:\n            check_obj = check_obj.copy()\n        return check_obj",
  "        return check_obj if inplace else check_obj.copy()", "twin")

# ---- C05 -------------------------------------------------------------------------------------
w("C05", "parse_checks writes into the live statistics again", "pandera/schema_statistics/pandas.py",
  "{} if check.statistics is None else {**check.statistics}", "{} if check.statistics is None else check.statistics")
w("C05", "to_check pops from the shared kwargs again", "pandera/api/base/model_components.py",
  "        check_kwargs = {**self.check_kwargs}\n        name = check_kwargs.pop(\"name\", None)", "        check_kwargs = self.check_kwargs\n        name = check_kwargs.pop(\"name\", None)")
w("C05", "__setstate__ aliases the dict again", "pandera/api/base/schema.py", "self.__dict__ = {**state}", "self.__dict__ = state")
w("C05", "remove_columns pops from self", "pandera/api/dataframe/container.py",
  "        for col in cols_to_remove:\n            schema_copy.columns.pop(col)", "        for col in cols_to_remove:\n            schema_copy.columns.pop(col)\n            self.columns.pop(col, None)")
w("C05", "validation caches the resolved dtype on the schema", BP + "array.py",
  "        if schema.dtype is not None:\n            dtype_check_results = schema.dtype.check(", "        if schema.dtype is not None:\n            schema.last_checked = str(check_obj.dtype)\n            dtype_check_results = schema.dtype.check(")
w("C05", "twin: statistics copied with dict()", "pandera/schema_statistics/pandas.py",
  "{} if check.statistics is None else {**check.statistics}", "{} if check.statistics is None else dict(check.statistics)", "twin")

# ---- C06 -------------------------------------------------------------------------------------
w("C06", "pandas dataframe checks lose their fence", BP + "container.py",
  "            except Exception as err:  # pylint: disable=broad-except\n                # catch other exceptions that may occur when executing the check\n                err_msg = f'\"{err.args[0]}\"' if len(err.args) > 0 else \"\"\n                err_str = f\"{err.__class__.__name__}({ err_msg})\"",
  "            except (ValueError, TypeError) as err:  # pylint: disable=broad-except\n                # catch other exceptions that may occur when executing the check\n                err_msg = f'\"{err.args[0]}\"' if len(err.args) > 0 else \"\"\n                err_str = f\"{err.__class__.__name__}({ err_msg})\"")
w("C06", "config_context restores outside finally", "pandera/config.py",
  "        yield\n    finally:\n        reset_config_context(_outer_config_ctx)", "        yield\n    finally:\n        pass\n    reset_config_context(_outer_config_ctx)")
w("C06", "new undocumented raise in strict_filter_columns", BP + "container.py",
  "        if not (schema.strict or schema.ordered):\n            return check_obj\n\n        # strictness and order are schema-level constraints",
  "        if not (schema.strict or schema.ordered):\n            return check_obj\n        if not column_info.destuttered_column_names:\n            raise KeyError(\"no columns\")\n\n        # strictness and order are schema-level constraints")
w("C06", "MultiIndex error rewrite assumes frames", BP + "components.py",
  "                if is_table(schema_error.failure_cases):\n                    failure_cases = schema_error.failure_cases.assign(\n                        column=schema_error.schema.name\n                    )\n                else:\n                    failure_cases = schema_error.failure_cases",
  "                failure_cases = schema_error.failure_cases.assign(\n                    column=schema_error.schema.name\n                )")
w("C06", "twin: fence variable renamed", BL + "components.py", "            except Exception as err:  # pylint: disable=broad-except\n                # catch other exceptions that may occur when executing the Check\n                err_msg = f'\"{err.args[0]}\"' if len(err.args) > 0 else \"\"\n                msg = f\"{err.__class__.__name__}({err_msg})\"\n                check_results.append(\n                    CoreCheckResult(\n                        passed=False,\n                        check=check,\n                        check_index=check_index,\n                        reason_code=SchemaErrorReason.CHECK_ERROR,\n                        message=msg,\n                        failure_cases=msg,\n                        original_exc=err,",
  "            except Exception as exc_:  # pylint: disable=broad-except\n                # catch other exceptions that may occur when executing the Check\n                err_msg = f'\"{exc_.args[0]}\"' if len(exc_.args) > 0 else \"\"\n                msg = f\"{exc_.__class__.__name__}({err_msg})\"\n                check_results.append(\n                    CoreCheckResult(\n                        passed=False,\n                        check=check,\n                        check_index=check_index,\n                        reason_code=SchemaErrorReason.CHECK_ERROR,\n                        message=msg,\n                        failure_cases=msg,\n                        original_exc=exc_,", "twin")

# ---- C07 -------------------------------------------------------------------------------------
w("C07", "pandas components overridden in place again", BP + "container.py",
  "            schema_component = copy.copy(schema_component)\n", "")
w("C07", "polars components not copied", BL + "container.py", "                col = copy.deepcopy(col)\n", "")
w("C07", "regex column renamed in place", BP + "components.py", "copy(schema).set_name(column_name)", "schema.set_name(column_name)")
w("C07", "module level counter updated by validate", BP + "array.py",
  "        error_handler = ErrorHandler(lazy)\n        check_obj = self.preprocess(check_obj, inplace)", "        global _VALIDATIONS\n        _VALIDATIONS = _VALIDATIONS + 1\n        error_handler = ErrorHandler(lazy)\n        check_obj = self.preprocess(check_obj, inplace)")

# ---- C08 -------------------------------------------------------------------------------------
w("C08", "polars str_matches ungrouped again", BL + "builtin_checks.py", 'pattern=f"^(?:{pattern})"', 'pattern=f"^{pattern}"')
w("C08", "polars less_than_or_equal_to strict", BL + "builtin_checks.py", "pl.col(data.key).le(max_value)", "pl.col(data.key).lt(max_value)")
w("C08", "polars in_range swaps include flags", BL + "builtin_checks.py",
  "is_in_min = col.ge(min_value) if include_min else col.gt(min_value)", "is_in_min = col.ge(min_value) if include_max else col.gt(min_value)")
w("C08", "polars str_length closed on one side", BL + "builtin_checks.py", "n_chars.is_between(min_value, max_value)", 'n_chars.is_between(min_value, max_value, closed="left")')
w("C08", "polars add_missing_columns ignores nullable", BL + "container.py",
  "if col_schema.default is None and not col_schema.nullable:", "if col_schema.default is None:")
w("C08", "polars strict test loosened", BL + "container.py", "if schema_level and schema.strict is True and not is_schema_col:", "if schema_level and schema.strict and not is_schema_col:")
w("C08", "signature default drift", BL + "builtin_checks.py", "    include_min: bool = True,\n    include_max: bool = True,\n) -> pl.LazyFrame:", "    include_min: bool = True,\n    include_max: bool = False,\n) -> pl.LazyFrame:")
w("C08", "twin: polars ge via not lt is avoided; use reordered and_", BL + "builtin_checks.py",
  "return data.lazyframe.select(is_in_min.and_(is_in_max))", "return data.lazyframe.select(is_in_max.and_(is_in_min))", "twin")

# ---- C09 -------------------------------------------------------------------------------------
w("C09", "timedelta registered under datetime again", "pandera/engines/numpy_engine.py",
  "        datetime.timedelta,\n        np.timedelta64,", "        datetime.datetime,\n        np.timedelta64,")
w("C09", "Int16 declares the wrong width", "pandera/engines/numpy_engine.py",
  '    type = np.dtype("int16")  # type: ignore\n    bit_width: int = 16', '    type = np.dtype("int16")  # type: ignore\n    bit_width: int = 32')
w("C09", "Int.check forgets signedness", "pandera/dtypes.py",
  "            isinstance(pandera_dtype, Int)\n            and self.signed == pandera_dtype.signed\n            and self.bit_width == pandera_dtype.bit_width",
  "            isinstance(pandera_dtype, Int)\n            and self.bit_width == pandera_dtype.bit_width")
w("C09", "registered dtype not immutable", "pandera/engines/numpy_engine.py",
  '@Engine.register_dtype(equivalents=["bytes", bytes, np.bytes_])\n@immutable\nclass Bytes(DataType):', '@Engine.register_dtype(equivalents=["bytes", bytes, np.bytes_])\nclass Bytes(DataType):')
w("C09", "string alias names another width", "pandera/engines/polars_engine.py", '"int32"', '"int16"')
w("C09", "twin: reorder equivalents", "pandera/engines/numpy_engine.py",
  'equivalents=["object", "O", object, np.object_]', 'equivalents=["O", "object", np.object_, object]', "twin")

# ---- C10 -------------------------------------------------------------------------------------
w("C10", "numpy try_coerce returns the input on failure", "pandera/engines/numpy_engine.py",
  "        except Exception as exc:  # pylint:disable=broad-except\n            raise errors.ParserError(\n                f\"Could not coerce {type(data_container)} data_container \"\n                f\"into type {self.type}\",\n                failure_cases=utils.numpy_pandas_coerce_failure_cases(\n                    data_container, self.type\n                ),\n            ) from exc",
  "        except Exception:  # pylint:disable=broad-except\n            return data_container")
w("C10", "array backend drops the failure cases", BP + "array.py",
  "                failure_cases=exc.failure_cases,\n                check=f\"coerce_dtype('{schema.dtype}')\",\n                reason_code=SchemaErrorReason.DATATYPE_COERCION,",
  "                check=f\"coerce_dtype('{schema.dtype}')\",\n                reason_code=SchemaErrorReason.DATATYPE_COERCION,")
w("C10", "coercible flag inverted on exception", "pandera/engines/utils.py",
  "        except Exception:  # pylint:disable=broad-except\n            return False", "        except Exception:  # pylint:disable=broad-except\n            return True")
w("C10", "polars failure filter keeps the coercible rows", "pandera/engines/polars_engine.py",
  ").filter(pl.col(CHECK_OUTPUT_KEY).not_())", ").filter(pl.col(CHECK_OUTPUT_KEY))")
w("C10", "polars column drops failure cases again", BL + "components.py", "                failure_cases=exc.failure_cases,\n", "")

# ---- C11 -------------------------------------------------------------------------------------
w("C11", "drop keeps the failing rows", BP + "base.py", "mask = ~check_obj.index.isin(index_values)", "mask = check_obj.index.isin(index_values)")
w("C11", "only the first error is folded", BP + "base.py", "        for err in errors:\n            index_values", "        for err in errors[:1]:\n            index_values")
w("C11", "lazy precondition dropped in the array backend", BP + "array.py",
  "        if getattr(schema, \"drop_invalid_rows\", False) and not lazy:\n            raise SchemaDefinitionError(\n                \"When drop_invalid_rows is True, lazy must be set to True.\"\n            )\n\n        # fill nans", "        # fill nans")
w("C11", "polars fold starts from False", BL + "base.py", "acc=pl.lit(True)", "acc=pl.lit(False)")
w("C11", "polars fold uses or", BL + "base.py", "function=lambda acc, x: acc & x,\n                exprs=pl.col(pl.Boolean),", "function=lambda acc, x: acc | x,\n                exprs=pl.col(pl.Boolean),")

# ---- C12 -------------------------------------------------------------------------------------
w("C12", "index unique slot removed again", "pandera/io/pandas_io.py", "    nullable={nullable},\n    unique={unique},\n    coerce={coerce},\n    name={name},", "    nullable={nullable},\n    coerce={coerce},\n    name={name},")
w("C12", "ordered not read back", "pandera/io/pandas_io.py", 'ordered=serialized_schema.get("ordered", False),', "ordered=False,")
w("C12", "title unquoted in script", "pandera/io/pandas_io.py", "title=dataframe_schema.title.__repr__(),", "title=dataframe_schema.title,")
w("C12", "regex dropped from component stats", "pandera/io/pandas_io.py",
  '                "coerce",\n                "required",\n                "regex",\n            ]\n            if key in component_stats', '                "coerce",\n                "required",\n            ]\n            if key in component_stats')
w("C12", "statistics read unique from the wrong attribute", "pandera/schema_statistics/pandas.py", '"unique": column.unique,', '"unique": column.required,')
w("C12", "reader default differs from constructor", "pandera/io/pandas_io.py", 'report_duplicates=serialized_schema.get("report_duplicates", "all"),', 'report_duplicates=serialized_schema.get("report_duplicates", "exclude_first"),')
w("C12", "twin: repr() builtin instead of __repr__", "pandera/io/pandas_io.py", "title=dataframe_schema.title.__repr__(),", "title=repr(dataframe_schema.title),", "twin")

# ---- C13 -------------------------------------------------------------------------------------
w("C13", "eq_strategy replaces the parent again", "pandera/strategies/pandas_strategies.py",
  "    if strategy is None:\n        return pandas_dtype_strategy(pandera_dtype, st.just(value))\n    return strategy.filter(partial(operator.eq, value))",
  "    return pandas_dtype_strategy(pandera_dtype, st.just(value))")
w("C13", "gt_strategy filters with <=", "pandera/strategies/pandas_strategies.py", "return strategy.filter(partial(operator.lt, min_value))", "return strategy.filter(partial(operator.le, min_value))")
w("C13", "in_range ignores include_max when chained", "pandera/strategies/pandas_strategies.py", "max_op = operator.ge if include_max else operator.gt", "max_op = operator.ge")
w("C13", "le_strategy excludes nothing but bound strict", "pandera/strategies/pandas_strategies.py",
  "            max_value=max_value,\n            exclude_max=False if is_float(pandera_dtype) else None,\n        )\n    return strategy.filter(partial(operator.ge, max_value))",
  "            max_value=max_value,\n            exclude_max=False if is_float(pandera_dtype) else None,\n        )\n    return strategy.filter(partial(operator.gt, max_value))")
w("C13", "notin strategy checks membership", "pandera/strategies/pandas_strategies.py", "return strategy.filter(lambda x: x not in forbidden_values)", "return strategy.filter(lambda x: x in forbidden_values)")
w("C13", "series fallback no longer filters by the check", "pandera/strategies/pandas_strategies.py",
  "        def _check_fn(series):\n            return check(series).check_passed\n\n        return strategy.filter(_check_fn)", "        return strategy")

# ---- C14 -------------------------------------------------------------------------------------
w("C14", "upper bound taken from min", "pandera/schema_statistics/pandas.py", '"less_than_or_equal_to": float(x.max()),', '"less_than_or_equal_to": float(x.min()),')
w("C14", "strict lower bound inferred", "pandera/schema_statistics/pandas.py",
  '        check_stats = {\n            "greater_than_or_equal_to": float(x.min()),', '        check_stats = {\n            "greater_than": float(x.min()),')
w("C14", "nullable not forwarded to Column", "pandera/schema_inference/pandas.py",
  '                checks=parse_check_statistics(properties["checks"]),\n                nullable=properties["nullable"],\n            )\n            for colname, properties', '                checks=parse_check_statistics(properties["checks"]),\n            )\n            for colname, properties')
w("C14", "series nullable from all()", "pandera/schema_statistics/pandas.py", '"nullable": bool(series.isna().any()),', '"nullable": bool(series.isna().all()),')

# ---- C15 -------------------------------------------------------------------------------------
w("C15", "properties loses drop_invalid_rows again", "pandera/api/pandas/components.py", '            "drop_invalid_rows": self.drop_invalid_rows,\n', "")
w("C15", "set_index forgets title", "pandera/api/dataframe/container.py", "                    title=new_schema.columns[col].title,\n", "")
w("C15", "update_column edits the original column", "pandera/api/dataframe/container.py",
  "        column_copy = copy.deepcopy(schema.columns[column_name]).set_name(\n            column_name\n        )", "        column_copy = schema.columns[column_name].set_name(\n            column_name\n        )")
w("C15", "select_columns raises KeyError", "pandera/api/dataframe/container.py", "", "", "skip")
w("C15", "twin: deepcopy imported name", "pandera/api/dataframe/container.py", "        new_schema = copy.deepcopy(self)\n\n        keys_temp", "        new_schema = copy.deepcopy(self)\n        keys_temp", "twin")

# ---- C16 -------------------------------------------------------------------------------------
w("C16", "parser override guard removed again", "pandera/api/dataframe/model.py",
  "                if attr_name in method_names:  # overridden by subclass\n                    continue\n                method_names.add(attr_name)\n                parser_info = getattr(",
  "                method_names.add(attr_name)\n                parser_info = getattr(")
w("C16", "Config.ordered not forwarded", "pandera/api/dataframe/model.py", '                "ordered": cls.__config__.ordered,\n', "")
w("C16", "le dispatched to less_than", "pandera/api/dataframe/model_components.py", '"le": Check.less_than_or_equal_to,', '"le": Check.less_than,')
w("C16", "column_properties forgets default", "pandera/api/dataframe/model_components.py",
  "            title=self.title,\n            description=self.description,\n            default=self.default,\n            metadata=self.metadata,\n        )\n\n    def index_properties",
  "            title=self.title,\n            description=self.description,\n            metadata=self.metadata,\n        )\n\n    def index_properties")
w("C16", "to_check mutates the shared info", "pandera/api/base/model_components.py",
  "        check_kwargs = {**self.check_kwargs}\n        name = check_kwargs.pop(\"name\", None)", "        check_kwargs = self.check_kwargs\n        name = check_kwargs.pop(\"name\", None)")

# ---- C17 -------------------------------------------------------------------------------------
w("C17", "int getter drops the options again", "pandera/decorators.py",
  "                    args[arg_idx] = schema.validate(\n                        args[arg_idx], *validate_args\n                    )", "                    args[arg_idx] = schema.validate(args[arg_idx])")
w("C17", "kwargs branch validates but keeps the raw object", "pandera/decorators.py",
  "                    kwargs[obj_getter] = schema.validate(\n                        kwargs[obj_getter], *validate_args\n                    )", "                    schema.validate(kwargs[obj_getter], *validate_args)")
w("C17", "check_io swaps lazy and inplace", "pandera/decorators.py", "    check_args = (head, tail, sample, random_state, lazy, inplace)", "    check_args = (head, tail, sample, random_state, inplace, lazy)")
w("C17", "async output returned unvalidated", "pandera/decorators.py", "                    return validate(res, wrapped)", "                    validate(res, wrapped)\n                    return res")
w("C17", "check_types partial drops sample", "pandera/decorators.py",
  "            tail=tail,\n            sample=sample,\n            random_state=random_state,\n            lazy=lazy,\n            inplace=inplace,\n        )\n\n    # Front-load", "            tail=tail,\n            random_state=random_state,\n            lazy=lazy,\n            inplace=inplace,\n        )\n\n    # Front-load")

# ---- C18 -------------------------------------------------------------------------------------
w("C18", "env parsing always true again", "pandera/config.py", 'os.environ.get("PANDERA_VALIDATION_ENABLED", "True") != "False"',
  'os.environ.get("PANDERA_VALIDATION_ENABLED", None) == "True" or True')
w("C18", "config_context restore lost on exception", "pandera/config.py",
  "        yield\n    finally:\n        reset_config_context(_outer_config_ctx)", "        yield\n        reset_config_context(_outer_config_ctx)\n    finally:\n        pass")
w("C18", "reset aliases CONFIG", "pandera/config.py", "_CONTEXT_CONFIG = copy(conf or CONFIG)", "_CONTEXT_CONFIG = conf or CONFIG")
w("C18", "check_unique loses its scope", BP + "array.py", "    @validate_scope(scope=ValidationScope.DATA)\n    def check_unique(", "    def check_unique(")
w("C18", "check_dtype declared data level", BP + "array.py", "    @validate_scope(scope=ValidationScope.SCHEMA)\n    def check_dtype(", "    @validate_scope(scope=ValidationScope.DATA)\n    def check_dtype(")
w("C18", "component validate ignores validation_enabled again", "pandera/api/dataframe/components.py",
  "        if not get_config_context().validation_enabled:\n            return check_obj\n\n        return self.get_backend(check_obj).validate(", "        return self.get_backend(check_obj).validate(")
w("C18", "disabled validation returns a copy", "pandera/api/pandas/array.py",
  "        if not get_config_context().validation_enabled:\n            return check_obj\n\n        if not is_field(check_obj):", "        if not get_config_context().validation_enabled:\n            return check_obj.copy()\n\n        if not is_field(check_obj):")
w("C18", "polars depth computed after conversion", "pandera/api/polars/container.py",
  "        with config_context(validation_depth=get_validation_depth(check_obj)):\n            if is_dataframe:\n                # if validating a polars DataFrame, use the global config setting\n                check_obj = check_obj.lazy()\n",
  "        if is_dataframe:\n            check_obj = check_obj.lazy()\n        with config_context(validation_depth=get_validation_depth(check_obj)):\n")
w("C18", "lazyframe default becomes full depth", "pandera/api/polars/utils.py",
  "        validation_depth = ValidationDepth.SCHEMA_ONLY\n    elif is_dataframe", "        validation_depth = ValidationDepth.SCHEMA_AND_DATA\n    elif is_dataframe")
w("C18", "twin: disabled branch returns via local", "pandera/api/pandas/array.py", "", "", "skip")

# ---- C19 -------------------------------------------------------------------------------------
w("C19", "between drops include_max", "pandera/api/checks.py",
  "        return cls.in_range(\n            min_value,\n            max_value,\n            include_min,\n            include_max,\n            **kwargs,\n        )",
  "        return cls.in_range(\n            min_value,\n            max_value,\n            include_min,\n            **kwargs,\n        )")
w("C19", "le alias points to less_than", "pandera/api/checks.py", "return cls.less_than_or_equal_to(max_value, **kwargs)", "return cls.less_than(max_value, **kwargs)")
w("C19", "element_wise ignored for tables", BP + "checks.py",
  "        if self.check.element_wise:\n            return check_obj.apply(self.check_fn, axis=1)\n        return self.check_fn(check_obj)", "        return self.check_fn(check_obj)")
w("C19", "n_failure_cases changes the verdict", BP + "checks.py",
  "        return CheckResult(\n            check_output,\n            check_output.all(),\n            check_obj,\n            self._get_series_failure_cases(check_obj, check_output),\n        )\n\n    def postprocess_table_with_field_output",
  "        if self.check.n_failure_cases is not None:\n            check_output = check_output.head(self.check.n_failure_cases)\n        return CheckResult(\n            check_output,\n            check_output.all(),\n            check_obj,\n            self._get_series_failure_cases(check_obj, check_output),\n        )\n\n    def postprocess_table_with_field_output")
w("C19", "raise_warning also when passed", "pandera/backends/polars/base.py",
  "            # raise a warning without exiting if the check is specified to do so\n            # but make sure the check passes\n            if check.raise_warning:\n                warnings.warn(", "", "skip")
w("C19", "polars ignore_na or-ing unconditional", BL + "checks.py",
  "        if self.check.ignore_na:\n            results = results.with_columns(", "        if True:\n            results = results.with_columns(")
w("C19", "groups filter dropped", BP + "checks.py", "            if group_key in groups:\n                output[group_key] = group", "            output[group_key] = group")

# ---- C20 -------------------------------------------------------------------------------------
w("C20", "run_checks sees the full object", BP + "container.py", "            (self.run_checks, (sample, schema)),", "            (self.run_checks, (check_obj, schema)),")
w("C20", "tail rows taken when tail is None too", BP + "base.py", "        if tail is not None:\n            pandas_obj_subsample.append(check_obj.tail(tail))", "        pandas_obj_subsample.append(check_obj.tail(tail))")
w("C20", "random_state not forwarded", BP + "base.py", "check_obj.sample(sample, random_state=random_state)", "check_obj.sample(sample)")
w("C20", "polars validate returns the subsample", BL + "container.py", "        sample = self.subsample(check_obj, head, tail, sample, random_state)\n",
  "        sample = self.subsample(check_obj, head, tail, sample, random_state)\n        check_obj = sample if head is not None else check_obj\n")
w("C20", "head and tail swapped in the subsample call", BP + "container.py", "sample = self.subsample(check_obj, head, tail, sample, random_state)", "sample = self.subsample(check_obj, tail, head, sample, random_state)")

W[:] = [x for x in W if x["kind"] != "skip"]

# ---- definite assignment (C06.R6, C10.R8, C12.R10, C13.R10) ------------------------------------------------------------
w("C06", "check_dtype: default of `msg` dropped (unbound when dtype is None)", BP + "array.py",
  "        passed = True\n        failure_cases = None\n        msg = None\n\n        if schema.dtype is not None:\n            dtype_check_results = schema.dtype.check(",
  "        passed = True\n        failure_cases = None\n\n        if schema.dtype is not None:\n            dtype_check_results = schema.dtype.check(")
w("C12", "_serialize_component_stats: serialized_checks only assigned when checks are present", "pandera/io/pandas_io.py",
  "    serialized_checks = None\n    if component_stats[\"checks\"] is not None:", "    if component_stats[\"checks\"] is not None:")
w("C10", "String coercion helper: reverter only bound on the pyspark branch", "pandera/engines/pandas_engine.py",
  "            reverter = None\n            if type(obj).__module__.startswith(\"pyspark.pandas\"):", "            if type(obj).__module__.startswith(\"pyspark.pandas\"):")
w("C06", "twin: defaults of check_dtype moved into an else branch", BP + "array.py",
  "        passed = True\n        failure_cases = None\n        msg = None\n\n        if schema.dtype is not None:\n            dtype_check_results = schema.dtype.check(",
  "        passed = True\n        failure_cases = None\n        if schema.dtype is None:\n            msg = None\n        else:\n            msg = None\n\n        if schema.dtype is not None:\n            dtype_check_results = schema.dtype.check(", "twin")

# ---- C11.R6 (labels survive delegation; the defect repaired by 6c4f493 must be reported again if it returns) --------
w("C11", "index checks validated on a positional copy again", BP + "components.py",
  "                check_obj.index.to_series(),\n", "                check_obj.index.to_series().reset_index(drop=True),\n")
w("C11", "twin: index series bound to a local first", BP + "components.py",
  "        try:\n            _validated_obj = super().validate(\n                check_obj.index.to_series(),\n",
  "        index_series = check_obj.index.to_series()\n        try:\n            _validated_obj = super().validate(\n                index_series,\n", "twin")

# ---- C08.R7 / R8 (defects found in round 3; R7 repaired by ad92cac, must be reported again if it returns) -------------
w("C08", "polars float default fills NaN only again", BL + "components.py",
  "            expr = expr.fill_nan(default_value).fill_null(default_value)\n", "            expr = expr.fill_nan(default_value)\n")
w("C08", "pandas add_missing_columns re-selects the schema columns only", BP + "container.py",
  "        concat_obj = concat_obj[concat_ordered_cols]\n", "        concat_ordered_cols = [*schema.columns]\n        concat_obj = concat_obj[concat_ordered_cols]\n")

# ---- defects found by the round-3 hunt and repaired (must be reported again if they return) -----------------------
w("C08", "polars add_missing_columns passes the default bare again", BL + "container.py",
  "                k: (\n                    v.default\n                    if isinstance(v.default, pl.Expr)\n                    else pl.lit(v.default)\n                )\n",
  "                k: v.default\n")
w("C11", "polars check_nullable renames instead of selecting the output column", BL + "components.py",
  "                    check_output=isna.select(\n                        pl.col(column).alias(CHECK_OUTPUT_KEY)\n                    ).collect(),",
  "                    check_output=isna.collect().rename(\n                        {column: CHECK_OUTPUT_KEY}\n                    ),")
w("C19", "polars null outputs undecided when ignore_na is False", BL + "checks.py",
  "        else:\n            # polars aggregations skip nulls: a null output counts as a\n            # failure when null values are not ignored\n            results = results.with_columns(\n                pl.col(CHECK_OUTPUT_KEY).fill_null(False)\n            )\n", "")
w("C12", "dataframe-level dtype written as an object again", "pandera/io/pandas_io.py",
  "        \"dtype\": (\n            None\n            if dataframe_schema.dtype is None\n            else str(dataframe_schema.dtype)\n        ),\n",
  "        \"dtype\": dataframe_schema.dtype,\n")
w("C03", "optional result of validate_column stored unguarded again", BP + "components.py",
  "                if schema.parsers and validated_column is not None:\n                    check_obj[column_name] = validated_column\n",
  "                if schema.parsers:\n                    check_obj[column_name] = validated_column\n")
w("C15", "rename_columns forgets the unique list again", "pandera/api/dataframe/container.py",
  "        if new_schema.unique is not None:\n            new_schema.unique = [\n                (\n                    [rename_dict.get(col, col) for col in item]\n                    if isinstance(item, list)\n                    else rename_dict.get(item, item)\n                )\n                for item in new_schema.unique\n            ]\n", "")
w("C13", "SeriesSchema strategy ignores the index again", "pandera/api/pandas/array.py",
  "        if index is not None:\n            strategy = st.set_pandas_index(strategy, index)\n        return strategy\n", "        return strategy\n")
w("C02", "SeriesSchema value validation unfenced again (index errors lost in lazy mode)", "pandera/api/pandas/array.py",
  "        except errors.SchemaErrors as exc:\n            if self.index is None:\n                raise\n", "        except errors.SchemaInitError as exc:\n            if self.index is None:\n                raise\n")
w("C12", "column labels hand-quoted in the generated script again", "pandera/io/pandas_io.py",
  "    column_str = \", \".join(f\"{k!r}: {v}\" for k, v in columns.items())", "    column_str = \", \".join(f\"'{k}': {v}\" for k, v in columns.items())")
w("C12", "index name hand-quoted again", "pandera/io/pandas_io.py",
  "            name=repr(properties[\"name\"]),", "            name=(\"None\" if properties[\"name\"] is None else f\"\\\"{properties['name']}\\\"\"),")
w("C08", "polars container fills defaults for absent columns again", BL + "container.py",
  "            if not col_schema.regex and col_schema.name not in lf_columns:\n                continue\n            backend = col_schema.get_backend(check_obj)", "            backend = col_schema.get_backend(check_obj)")
w("C13", "index_strategy loses its fallback filter", "pandera/strategies/pandas_strategies.py",
  "            strategy = strategy.filter(\n                # pylint: disable=cell-var-from-loop\n                lambda index, check=check: check(\n                    index.to_series().reset_index(drop=True)\n                ).check_passed\n            )\n",
  "            pass\n")
w("C10", "Decimal.coerce uses .apply on an Index again", "pandera/engines/pandas_engine.py",
  "        if isinstance(data_container, pd.Index):\n            # an Index has no ``apply`` method\n            return data_container.map(self.coerce_value)\n", "")

# ---- defects of the second hunt wave, repaired (d842528, 4ee22e7, ce2cdd2, 00edac0) -----------------------------------
w("C06", "joint uniqueness selects an empty column list again (pandas)", BP + "container.py",
  "            if not subset:\n                # none of the columns is in the dataframe, e.g. optional\n                # columns that were not supplied\n                continue\n            duplicates = check_obj.duplicated(", "            duplicates = check_obj.duplicated(")
w("C01", "unique_column_names decided by the truth value of the labels again", BP + "container.py",
  "        if len(failed) > 0:", "        if failed.any():")
w("C20", "polars sample on the LazyFrame again", BL + "base.py",
  "                check_obj.collect()\n                .sample(sample, seed=random_state)\n                .lazy()", "                check_obj.sample(sample, seed=random_state)")
w("C02", "polars scalar failure case not cast to string again", BL + "base.py",
  "                        \"failure_case\": pl.Utf8,\n                        \"check_number\": pl.Int32,\n                        \"column\": pl.String,\n                        \"index\": pl.Int32,\n                    }\n                )\n\n            failure_case_collection.append",
  "                        \"check_number\": pl.Int32,\n                        \"column\": pl.String,\n                        \"index\": pl.Int32,\n                    }\n                )\n\n            failure_case_collection.append")
w("C07", "class namespace iterated live again", "pandera/api/dataframe/model.py",
  "            for attr_name, attr_value in list(vars(base).items()):\n                # a name hides the same name in the bases, whatever it is\n                # bound to (as attribute lookup does)\n                if attr_name in method_names:  # overridden by subclass\n                    continue\n                method_names.add(attr_name)\n                check_info",
  "            for attr_name, attr_value in vars(base).items():\n                # a name hides the same name in the bases, whatever it is\n                # bound to (as attribute lookup does)\n                if attr_name in method_names:  # overridden by subclass\n                    continue\n                method_names.add(attr_name)\n                check_info")
w("C09", "polars Decimal.check asserts the kind again", "pandera/engines/polars_engine.py",
  "        if not isinstance(pandera_dtype, Decimal):\n            # a data type of another kind is not a decimal\n            return False\n",
  "        assert isinstance(pandera_dtype, Decimal), \"expected Decimal\"\n")
w("C14", "column statistics dereferenced without a None test again", "pandera/schema_inference/pandas.py",
  "            for colname, properties in (\n                # a dataframe without columns has no column statistics\n                df_statistics[\"columns\"]\n                or {}\n            ).items()\n",
  "            for colname, properties in df_statistics[\"columns\"].items()\n")
w("C05", "Check.__call__ re-binds on the name alone again", "pandera/api/checks.py",
  "            and self.is_builtin_check(self.name)\n            and isinstance(self._check_fn, Dispatcher)\n", "            and self.is_builtin_check(self.name)\n")

# ---- third hunt wave, repaired (2d9cd1c, da38b09, 2f933ed, 44e2552) ---------------------------------------------------
w("C19", "pandas <NA> check outputs left undecided again", BP + "checks.py",
  "        if check_output.hasnans:\n            # nullable dtypes answer <NA> for null elements, which ``all()``\n            # skips: nulls that are not ignored fail the check, as they do\n            # for numpy dtypes (NaN > 0 is False)\n            check_output = check_output.fillna(False)\n\n        return CheckResult(\n            check_output,\n            check_output.all(),\n            check_obj,\n            self._get_series_failure_cases(check_obj, check_output),",
  "        return CheckResult(\n            check_output,\n            check_output.all(),\n            check_obj,\n            self._get_series_failure_cases(check_obj, check_output),")
w("C19", "grouped field keeps its nulls again (preprocess_field)", BP + "checks.py",
  "            self._drop_group_nulls(\n                self._format_groupby_input(\n                    self.groupby(check_obj), self.check.groups\n                )\n            ),",
  "            self._format_groupby_input(\n                self.groupby(check_obj), self.check.groups\n            ),")
w("C19", "grouped column keeps its nulls again (preprocess_table_with_key)", BP + "checks.py",
  "            self._drop_group_nulls(\n                self._format_groupby_input(\n                    self.groupby(check_obj)[key], self.check.groups\n                )\n            ),",
  "            self._format_groupby_input(\n                self.groupby(check_obj)[key], self.check.groups\n            ),")
w("C19", "group nulls dropped regardless of ignore_na", BP + "checks.py",
  "        if not self.check.ignore_na:\n            return groups\n        return {\n            k: group.dropna()", "        return {\n            k: group.dropna()")
w("C16", "@check hashes the unnamed Field objects again", "pandera/api/dataframe/model_components.py",
  "FieldCheckInfo(tuple(fields), check_fn, regex, **check_kwargs)", "FieldCheckInfo(set(fields), check_fn, regex, **check_kwargs)")
w("C16", "@parser hashes the unnamed Field objects again", "pandera/api/dataframe/model_components.py",
  "FieldParserInfo(tuple(fields), parser_fn, **parser_kwargs)", "FieldParserInfo(frozenset(fields), parser_fn, **parser_kwargs)")
w("C16", "pyspark @check hashes the unnamed Field objects again", "pandera/api/pyspark/model_components.py",
  "FieldCheckInfo(tuple(fields), check_fn, regex, **check_kwargs)", "FieldCheckInfo(set(fields), check_fn, regex, **check_kwargs)")
w("C17", "positional list rebuilt from the arguments mapping again", "pandera/decorators.py",
  "                    args = list(bound_args.args)", "                    args = list(pos_args.values())")
w("C17", "positional list rebuilt from the owner's arguments mapping", "pandera/decorators.py",
  "                    args = list(bound_args.args)", "                    args = [*bound_args.arguments.values()]")
w("C14", "infer_dtype label resolved unfenced again", "pandera/schema_statistics/pandas.py",
  "            try:\n                data_type = pandas_engine.Engine.dtype(inferred_alias)\n            except TypeError:\n                # labels that do not name a data type (\"empty\", \"period\",\n                # \"unknown-array\"): the array keeps the object dtype\n                pass\n",
  "            data_type = pandas_engine.Engine.dtype(inferred_alias)\n")
w("C14", "the fence around the label resolution re-raises", "pandera/schema_statistics/pandas.py",
  "                # \"unknown-array\"): the array keeps the object dtype\n                pass\n", "                raise\n")
w("C17", "tuple result rebuilt with the base constructor again", "pandera/decorators.py",
  "                out = (\n                    out._make(items)  # type: ignore[attr-defined]\n                    if hasattr(out, \"_make\")\n                    else type(out)(items)\n                )\n", "                out = tuple(items)\n")
w("C04", "frame re-bound to the array-level result without a kind test again", "pandera/backends/pandas/components.py",
  "                    if is_table(validated_obj):\n                        check_obj = validated_obj\n                    elif validated_obj is not None:",
  "                    if validated_obj is not None and not schema.regex:\n                        check_obj = validated_obj\n                    elif validated_obj is not None:")
w("C04", "frame re-bound to a copy of the array-level result", "pandera/backends/pandas/components.py",
  "                        check_obj = check_obj[~check_obj.index.isin(dropped)]\n", "                        check_obj = validated_obj.copy()\n")

# ---- third hunt wave, continued (e3ec463, 2b58729, 15e1875, b48ef30) ---------------------------------------------------
w("C16", "check names recorded only after the kind filter again", "pandera/api/dataframe/model.py",
  "                if attr_name in method_names:  # overridden by subclass\n                    continue\n                method_names.add(attr_name)\n                check_info = getattr(attr_value, key, None)\n                if not isinstance(check_info, CheckInfo):\n                    continue\n",
  "                check_info = getattr(attr_value, key, None)\n                if not isinstance(check_info, CheckInfo):\n                    continue\n                if attr_name in method_names:  # overridden by subclass\n                    continue\n                method_names.add(attr_name)\n")
w("C16", "parser names recorded only after the kind filter again", "pandera/api/dataframe/model.py",
  "                if attr_name in method_names:  # overridden by subclass\n                    continue\n                method_names.add(attr_name)\n                parser_info = getattr(attr_value, key, None)\n                if not isinstance(parser_info, ParserInfo):\n                    continue\n",
  "                parser_info = getattr(attr_value, key, None)\n                if not isinstance(parser_info, ParserInfo):\n                    continue\n                if attr_name in method_names:  # overridden by subclass\n                    continue\n                method_names.add(attr_name)\n")
w("C18", "strict raised at every depth again (pandas)", BP + "container.py",
  "            if schema_level and schema.strict is True and not is_schema_col:", "            if schema.strict is True and not is_schema_col:")
w("C18", "ordered raised at every depth again (polars)", BL + "container.py",
  "                if schema_level and next_ordered_col != column:", "                if next_ordered_col != column:")
w("C18", "typed frame marked as validated while validation is disabled again", "pandera/typing/common.py",
  "                if not get_config_context().validation_enabled:\n                    # nothing was validated: the object must not look validated\n                    return\n", "")
w("C19", "group keys unwrapped without a tuple test again (returned mapping)", BP + "checks.py",
  "                (k[0] if isinstance(k, tuple) and len(k) == 1 else k): v\n", "                (k[0] if len(k) == 1 else k): v\n")
w("C19", "group keys unwrapped without a tuple test again (valid keys)", BP + "checks.py",
  "            k[0] if isinstance(k, tuple) and len(k) == 1 else k\n            for k, _ in groupby_obj", "            k[0] if len(k) == 1 else k\n            for k, _ in groupby_obj")
w("C09", "numpy default number instance registered for every width again", "pandera/engines/numpy_engine.py",
  "                getattr(dtypes, f\"{pandera_name}{bit_width}\")(),\n            }\n", "                getattr(dtypes, f\"{pandera_name}{bit_width}\")(),\n                getattr(dtypes, pandera_name)(),\n            }\n")
w("C09", "pandas default number class registered for every width", "pandera/engines/pandas_engine.py",
  "            getattr(dtypes, f\"{pandera_name}{bit_width}\")(),\n        }\n\n        if np_dtype == default_pd_dtype:", "            getattr(dtypes, f\"{pandera_name}{bit_width}\")(),\n            getattr(dtypes, pandera_name),\n        }\n\n        if np_dtype == default_pd_dtype:")
w("C12", "writer recognises only the naive DateTime dtype again", "pandera/io/pandas_io.py",
  "            dtype is not None\n            and dtypes.is_datetime(dtype)\n            and hasattr(stat, \"strftime\")", "            pandas_engine.Engine.dtype(dtypes.DateTime).check(dtype)\n            and hasattr(stat, \"strftime\")")
w("C12", "reader recognises only the naive DateTime dtype again", "pandera/io/pandas_io.py",
  "            if dtype is not None and dtypes.is_datetime(dtype):\n                try:", "            if pandas_engine.Engine.dtype(dtypes.DateTime).check(dtype):\n                try:")
w("C17", "*args bundle recognised by comparing lengths again", "pandera/decorators.py",
  "        if star_args_name in named_arguments:\n            star_args_values = named_arguments.pop(star_args_name)\n",
  "        if len(arguments) > len(named_arguments):\n            star_args_values = named_arguments.pop(star_args_name)\n")
w("C17", "**kwargs bundle recognised by comparing key sets again", "pandera/decorators.py",
  "        if star_kwargs_name in named_kwargs:\n            star_kwargs_dict = named_kwargs.pop(star_kwargs_name)\n",
  "        if kwargs.keys() != named_kwargs.keys():\n            _, star_kwargs_dict = named_kwargs.popitem()\n")
w("C16", "polars builder resolves the raw annotation before looking at the Annotated parameters", "pandera/api/polars/model.py",
  "            if annotation.metadata:\n                # the parameters of ``Annotated[dtype, *params]`` must not be\n                # dropped by resolving the annotation through its origin\n                if field.dtype_kwargs:",
  "            if annotation.metadata and not is_polars_dtype and annotation.origin is Series:\n                if field.dtype_kwargs:")
w("C15", "rename_columns accepts repeated new names again", "pandera/api/dataframe/container.py",
  "        if repeated:\n            raise errors.SchemaInitError(\n                f\"Keys {repeated} are the new name of more than one column!\"\n            )\n", "")
w("C10", "polars coercible mask ignores the input's nulls again", "pandera/engines/polars_engine.py",
  "        pl.col(key).is_null()\n        | pl.col(key).cast(type_, strict=False).is_not_null()\n", "        pl.col(key).cast(type_, strict=False).is_not_null()\n")
w("C10", "polars coercible mask taken from the cast frame alone (original form)", "pandera/engines/polars_engine.py",
  "    coercible = data_container.lazyframe.select(\n        pl.col(key).is_null()\n        | pl.col(key).cast(type_, strict=False).is_not_null()\n    )\n",
  "    coercible = data_container.lazyframe.cast(\n        {key: type_}, strict=False\n    ).select(pl.col(key).is_not_null())\n")
w("C05", "hypothesis backend writes the groups on the shared check again", BP + "hypotheses.py",
  "            if self.check.groupby is None:\n                return super().preprocess(check_obj, key)\n", "            self.check.groups = self.check.samples\n            if self.check.groupby is None:\n                return super().preprocess(check_obj, key)\n")
w("C05", "check backend caches on the shared check", BP + "checks.py",
  "        if self.check.element_wise:\n            return check_obj.map(self.check_fn)\n", "        if self.check.element_wise:\n            self.check.statistics[\"_seen\"] = len(check_obj)\n            return check_obj.map(self.check_fn)\n")
w("C01", "dataframe dtype overrides the index dtype again", BP + "container.py",
  "                if schema.dtype is not None and not is_index_component:", "                if schema.dtype is not None:")
w("C12", "writer's stat converter ignores collection-valued statistics again", "pandera/io/pandas_io.py",
  "        if isinstance(stat, (list, tuple)):\n            # collection-valued statistics, e.g. the allowed values of\n            # ``isin``: serialize the elements\n            return [handle_stat_dtype(item) for item in stat]\n", "")
w("C12", "reader's stat converter ignores collection-valued statistics again", "pandera/io/pandas_io.py",
  "        if isinstance(stat, (list, tuple)):\n            return [handle_stat_dtype(item) for item in stat]\n        try:", "        try:")
w("C15", "reset_index orders the labels by a set again", "pandera/api/dataframe/container.py",
  "            else list(dict.fromkeys(level))\n", "            else list(set(level))\n")
w("C15", "set_index orders the keys by a set again", "pandera/api/dataframe/container.py",
  "            list(dict.fromkeys(keys)) if not isinstance(keys, list) else keys\n", "            list(set(keys)) if not isinstance(keys, list) else keys\n")
w("C15", "reset_index removes levels through the inherited remove_columns again", "pandera/api/dataframe/container.py",
  "            if len(kept_levels) == 1:\n                new_index = kept_levels[0]\n", "            if len(kept_levels) == 1:\n                new_index = kept_levels[0]\n            elif len(kept_levels) == 2:\n                new_index = new_schema.index.remove_columns(level_temp)\n")
