"""E9: obligations, known-findings protocol, evidence and replay files."""

from __future__ import annotations

import json
import os
import time
from typing import Dict, List, Optional

from .index import AnalysisError, Index

VERIF = os.path.dirname(os.path.dirname(os.path.abspath(__file__)))
KNOWN_FILE = os.path.join(VERIF, "known_findings.json")


class Ob:
    __slots__ = ("rule", "func", "construct", "ok", "detail", "loc")

    def __init__(self, rule, func, construct, ok, detail="", loc=""):
        self.rule = rule
        self.func = func
        self.construct = " ".join(str(construct).split())
        self.ok = bool(ok)
        self.detail = detail
        self.loc = loc

    def key(self):
        return (self.rule, self.func, self.construct)

    def as_dict(self):
        return {
            "rule": self.rule,
            "function": self.func,
            "construct": self.construct,
            "verdict": "holds" if self.ok else "VIOLATED",
            "detail": self.detail,
            "loc": self.loc,
        }


class Ctx:
    """Everything one property run needs: the index, the tier, a sink for
    obligations, counters for evidence."""

    def __init__(self, prop: str, ix: Index, tier: str = "quick"):
        self.prop = prop
        self.ix = ix
        self.tier = tier
        self.obs: List[Ob] = []
        self.stats: Dict[str, object] = {}
        self.assumptions: List[str] = []
        self.functions_analysed: set = set()
        self.notes: List[str] = []

    def ob(self, rule, func, construct, ok, detail="", loc=""):
        fq = func.qual if hasattr(func, "qual") else str(func)
        if hasattr(func, "qual"):
            self.functions_analysed.add(fq)
        if not loc and hasattr(func, "loc"):
            loc = func.loc()
        o = Ob(f"{self.prop}.{rule}" if not rule.startswith(self.prop) else rule, fq, construct, ok, detail, loc)
        self.obs.append(o)
        return o

    def touched(self, *funcs):
        for f in funcs:
            self.functions_analysed.add(f.qual if hasattr(f, "qual") else str(f))

    def assume(self, text):
        if text not in self.assumptions:
            self.assumptions.append(text)

    def count(self, rule) -> int:
        r = rule if rule.startswith(self.prop) else f"{self.prop}.{rule}"
        return sum(1 for o in self.obs if o.rule == r)


def load_known() -> dict:
    if not os.path.exists(KNOWN_FILE):
        return {"known": [], "fixed": []}
    with open(KNOWN_FILE) as fh:
        return json.load(fh)


def finish(ctx: Ctx, floors: Dict[str, int], explanation: str, level_rule: str,
           t0: float, seed: int, write_evidence: bool = True,
           extra_cov: Optional[dict] = None, quiet: bool = False) -> int:
    """Compare obligations with floors and known findings, print the verdict
    lines, write evidence; returns the process exit code."""
    prop = ctx.prop
    for rule, floor in floors.items():
        n = ctx.count(rule)
        if n < floor:
            raise AnalysisError(
                f"rule {prop}.{rule} enumerated {n} instance(s), fewer than the "
                f"{floor} confirmed by hand: the rule no longer sees its subject"
            )
    known = load_known()
    known_keys = {}
    for k in known.get("known", []):
        if k["property"] == prop:
            known_keys[(k["rule"], k["function"], " ".join(k["construct"].split()))] = k
    viol = [o for o in ctx.obs if not o.ok]
    new_viol, known_hit = [], []
    seen = set()
    for o in viol:
        if o.key() in seen:
            continue
        seen.add(o.key())
        if o.key() in known_keys:
            known_hit.append(o)
        else:
            new_viol.append(o)
    replay_dir = os.path.join(VERIF, "evidence", "replay")
    lines = []
    for o in known_hit:
        k = known_keys[o.key()]
        lines.append(f"KNOWN-FINDING: property={prop} rule={o.rule} at {o.loc} {o.func}: {k.get('what', o.detail)}")
    replays = []
    if new_viol:
        os.makedirs(replay_dir, exist_ok=True)
    for i, o in enumerate(new_viol):
        path = os.path.join(replay_dir, f"{prop}-{i}.json")
        with open(path, "w") as fh:
            json.dump({"property": prop, **o.as_dict()}, fh, indent=1)
        replays.append(path)
        lines.append(f"  {o.rule} {o.loc} {o.func}\n    construct: {o.construct}\n    {o.detail}")
        lines.append(f"VIOLATION property={prop} replay={path}")
    if not quiet:
        for l in lines:
            print(l)
    rules = sorted({o.rule for o in ctx.obs})
    per_rule = {r: {"instances": sum(1 for o in ctx.obs if o.rule == r),
                    "violated": sum(1 for o in ctx.obs if o.rule == r and not o.ok)} for r in rules}
    distinct = len({o.key() for o in ctx.obs})
    samples = []
    for r in rules:  # two samples per rule, violated ones first
        rs = sorted([o for o in ctx.obs if o.rule == r], key=lambda o: o.ok)
        samples += [o.as_dict() for o in rs[:2]]
    cov = {
        "explanation": explanation,
        "obligations": len(ctx.obs),
        "discharged": sum(1 for o in ctx.obs if o.ok),
        "evaluations": len(ctx.obs),
        "distinct_nontrivial": distinct,
        "rule": level_rule,
        "rule_instances": per_rule,
        "functions_analysed": len(ctx.functions_analysed),
        "functions": sorted(ctx.functions_analysed)[:400],
        "modules_parsed": len(ctx.ix.modules),
        "known_findings_matched": [o.as_dict() for o in known_hit],
        "new_violations": [o.as_dict() for o in new_viol],
        "samples": samples[:60],
        "stats": ctx.stats,
        "notes": ctx.notes,
        "exhaustive": True,
    }
    if extra_cov:
        cov.update(extra_cov)
    ev = {
        "property_id": prop,
        "tier": ctx.tier,
        "seed": seed,
        "level": "other",
        "coverage": cov,
        "assumptions": ctx.assumptions,
        "wall_s": round(time.time() - t0, 3),
        "violations": len(new_viol),
    }
    if write_evidence:
        os.makedirs(os.path.join(VERIF, "evidence"), exist_ok=True)
        with open(os.path.join(VERIF, "evidence", f"{prop}.json"), "w") as fh:
            json.dump(ev, fh, indent=1, default=str)
    if not quiet:
        print(f"{prop} [{ctx.tier}] obligations={len(ctx.obs)} discharged={cov['discharged']} "
              f"known={len(known_hit)} new_violations={len(new_viol)} "
              f"functions={len(ctx.functions_analysed)} wall={ev['wall_s']}s")
    return 1 if new_viol else 0
