"""E5: effect / ownership analysis (write-site census with local points-to).

For every function a *summary* is computed to a fixpoint over the call graph:

  effects : set of Effect(root, path, cond, kind, site, via)
            root  = ("P", name)  parameter (or free variable of the enclosing function)
                  | ("G", "module.name") module global
            path  = access path written below the root, e.g. ("columns", "[*]", "name")
            cond  = frozenset of (flag parameter, bool) under which the write
                    touches the caller's object (copy-unless-inplace)
            kind  = write | init | restored | restored-unsafe | memo | rebind
  returns : abstract value (set of origins) the function may return

Origins (`Org`) are access paths rooted at a parameter / global, or FRESH
(allocation, copy, result of an unresolved external call), optionally with a
*shadow* (shallow copy: top level fresh, contents alias).  The points-to is
flow-sensitive inside a function (strong updates of local names, merge at
joins, `if flag:` branches tag origins with the flag)."""

from __future__ import annotations

import ast
from collections import namedtuple
from typing import Dict, FrozenSet, List, Optional, Set, Tuple

from .index import FuncInfo, Index, dotted, function_stmts, norm, parent
from .resolve import MUTATORS, Resolver

Org = namedtuple("Org", "root path cond shadow")
Effect = namedtuple("Effect", "root path cond kind site via")
FRESH = ("F",)
MAXPATH = 4
EFFPATH = 3
OPTION_PARAMS = {"head", "tail", "sample", "random_state", "lazy", "inplace", "size", "n_regex_columns"}

INIT_METHODS = {"__init__", "__post_init__", "__set_name__", "__setstate__", "__init_subclass__", "__new__",
                "__class_getitem__", "__getstate__"}
COPY_FRESH = {"deepcopy", "copy_deep"}
DATA_COPY_METHODS = {"copy", "clone", "to_frame", "to_series", "reset_index", "astype", "fillna", "dropna", "head",
                     "tail", "sample", "lazy", "collect", "with_columns", "select", "filter", "cast", "rename",
                     "assign", "concat", "drop_duplicates", "to_numpy", "tolist", "to_dict", "unique", "duplicated",
                     "isna", "notna", "isin", "map", "apply", "pipe", "groupby", "agg", "transform", "sort_values",
                     "drop", "reindex", "get_level_values", "from_arrays", "from_tuples", "strftime", "replace",
                     "format", "join", "split", "strip", "lower", "upper"}
MEMO_NAMES = {
    "MODEL_CACHE": "class -> schema cache, filled once per class",
    "GENERIC_SCHEMA_CACHE": "generic model cache keyed by (class, params)",
    "BACKEND_REGISTRY": "backend registration, write-once per (class, type)",
    "CHECK_FUNCTION_REGISTRY": "built-in check dispatchers registered at import",
    "REGISTERED_CUSTOM_CHECKS": "extension checks registered at import",
    "STRATEGY_DISPATCHER": "strategies registered at import",
    "_registry": "dtype engine registry filled at class creation",
    "_registered_dtypes": "dtype engine registry filled at class creation",
    "__fields__": "model class memo filled by to_schema/__init_subclass__",
    "__checks__": "model class memo", "__parsers__": "model class memo",
    "__root_checks__": "model class memo", "__root_parsers__": "model class memo",
    "__schema__": "model class memo", "__config__": "model class memo", "__extras__": "model class memo",
    "_function_map": "Dispatcher registration at import", "_functions": "Dispatcher registration at import",
}


def org(root, path=(), cond=frozenset(), shadow=None) -> Org:
    if root != FRESH and len(path) > MAXPATH:
        path = tuple(path[:MAXPATH]) + ("...",)
    if root == FRESH and len(path) > 4:
        return Org(FRESH, (), frozenset(cond), None)   # too deeply nested local containers: treat as fresh
    # shadows are never nested: the shadow of a shallow copy is a non-fresh origin
    while shadow is not None and shadow.root == FRESH:
        shadow = shadow.shadow
    if shadow is not None and shadow.shadow is not None:
        shadow = Org(shadow.root, shadow.path, shadow.cond, None)
    if root != FRESH:
        shadow = None
    cond = frozenset(cond)
    if len(cond) > 3:
        cond = frozenset(sorted(cond)[:3])
    return Org(root, tuple(path), cond, shadow)


def fresh() -> FrozenSet[Org]:
    return frozenset([org(FRESH)])


def is_fresh(o: Org) -> bool:
    return o.root == FRESH and o.shadow is None


def extend(o: Org, field: str) -> Optional[Org]:
    """FRESH-rooted origins use their path as a stack of markers: "^" / "^:key" =
    one local container layer (popped by an element access; a keyed layer only by
    the same key or by an unknown key), "=" = the element *is* the shadow object.
    A FRESH origin with a shadow and no markers is a shallow copy of the shadow
    (top level local, contents alias).  Returns None when a keyed layer is read
    with a different constant key."""
    is_elem = field.startswith("[")
    if o.root == FRESH:
        if o.path and o.path[0].startswith("^"):
            if is_elem:
                layer = o.path[0]
                if layer != "^" and field != "[*]" and layer[2:] != field[1:-1]:
                    return None
                rest = o.path[1:]
                if rest == ("=",):
                    sh = o.shadow
                    return org(sh.root, sh.path, sh.cond | o.cond, None) if sh is not None else org(FRESH, (), o.cond)
                return org(FRESH, rest, o.cond, o.shadow)
            return o
        if o.shadow is not None:
            sh = o.shadow
            return org(sh.root, sh.path + (field,), sh.cond | o.cond, None)
        return o
    if o.path and o.path[-1] == "...":
        return o
    return org(o.root, o.path + (field,), o.cond, None)


def ext(val, field: str):
    out = set()
    for o in val:
        x = extend(o, field)
        if x is not None:
            out.add(x)
    return frozenset(out)


def consistent(cond) -> bool:
    d = {}
    for k, v in cond:
        if d.setdefault(k, v) != v:
            return False
    return True


def tag(val, cond):
    if not cond:
        return val
    out = set()
    for o in val:
        c = o.cond | cond
        if consistent(c):
            out.add(org(o.root, o.path, c, o.shadow))
    return frozenset(out)


def merge_env(a: dict, b: dict) -> dict:
    out = {}
    for k in set(a) | set(b):
        out[k] = a.get(k, frozenset()) | b.get(k, frozenset())
    return out


class Summary:

    def __init__(self):
        self.effects: Set[Effect] = set()
        self.returns: FrozenSet[Org] = frozenset()
        self.raises: Set[str] = set()

    def key(self):
        return (frozenset((e.root, e.path, e.cond, e.kind, e.site) for e in self.effects), self.returns)


class Effects:
    def __init__(self, ix: Index, include_pyspark=False):
        self.ix = ix
        self.res = Resolver(ix, include_pyspark)
        self.include_pyspark = include_pyspark
        self.summaries: Dict[str, Summary] = {}
        self.funcs = [f for f in ix.funcs.values() if include_pyspark or "pyspark" not in f.module.path]
        self._resolved: Dict[int, Tuple[List[FuncInfo], str]] = {}
        self.param_callables: Dict[Tuple[str, str], Set[str]] = {}
        self.sites_total = 0
        self.rounds = 0
        self.restores: Dict[str, Dict[Tuple, bool]] = {}
        self._expanded: Dict[str, Dict[int, List[ast.Call]]] = {}
        self.trace = []
        self.verbose = False
        self._family_env: Dict[str, dict] = {}

    # ------------------------------------------------------------------
    def resolve(self, f, call):
        k = id(call)
        if k not in self._resolved:
            self._resolved[k] = self.res.resolve(f, call)
        return self._resolved[k]

    def run(self, max_rounds=12):
        for f in self.funcs:
            self.summaries[f.qual] = Summary()
        dirty = {f.qual for f in self.funcs}
        self.deps: Dict[str, Set[str]] = {}
        while dirty and self.rounds < max_rounds:
            self.rounds += 1
            changed_now: Set[str] = set()
            self._new_callables: Set[str] = set()
            n = 0
            for f in self.funcs:
                if f.qual not in dirty:
                    continue
                n += 1
                old = self.summaries[f.qual].key()
                old_env = self._family_env.get(f.qual)
                fa = FuncAnalysis(self, f)
                s = fa.run()
                self.summaries[f.qual] = s
                self.deps[f.qual] = fa.used
                if s.key() != old or self._family_env.get(f.qual) != old_env:
                    changed_now.add(f.qual)
            self.trace.append((self.rounds, len(changed_now), sum(len(x.effects) for x in self.summaries.values())))
            if self.verbose:
                print("round", self.trace[-1], "analysed", n, flush=True)
            trigger = changed_now | self._new_callables
            dirty = set(self._new_callables)
            if trigger:
                for f in self.funcs:
                    d = self.deps.get(f.qual, ())
                    if f.qual in dirty:
                        continue
                    if any(t in d for t in trigger) or (f.parent is not None and f.parent.qual in changed_now):
                        dirty.add(f.qual)
        if dirty:
            self.trace.append((self.rounds, len(dirty), -1))
        return self

    def summary(self, f: FuncInfo) -> Summary:
        return self.summaries.get(f.qual) or Summary()


def _is_setter(f: FuncInfo) -> bool:
    return any(n.endswith(".setter") for n in f.decorator_names())


class FuncAnalysis:
    def __init__(self, eng: Effects, f: FuncInfo):
        self.eng = eng
        self.f = f
        self.ix = eng.ix
        self.sum = Summary()
        self.params = set(f.params)
        self.globals_decl: Set[str] = set()
        self.pc: Dict[str, bool] = {}
        self.saved: Dict[str, FrozenSet[Tuple]] = {}
        self.restores: Dict[Tuple, bool] = {}   # (root, path) -> restored in a finally?
        self.own_effects: List[Effect] = []
        self._eff_keys: Set[Tuple] = set()
        self.family_params = set()
        g = f
        while g is not None:
            self.family_params |= set(g.params)
            g = g.parent
        self.is_init = f.name in INIT_METHODS or _is_setter(f)
        self.finally_depth = 0
        self.used: Set[str] = set()
        self._tuples = None
        self._pairs = None
        self._expanded = eng._expanded.setdefault(f.qual, {})

    # -- environment -------------------------------------------------------
    def initial_env(self):
        env = {}
        for p in self.f.params:
            env[p] = frozenset([org(("P", p))])
        return env

    def free_var(self, name):
        """Value of a free variable: parameter or local of an enclosing function."""
        g = self.f.parent
        while g is not None:
            if name in g.params:
                return frozenset([org(("P", name))])
            fam = self.eng._family_env.get(g.qual)
            if fam and name in fam:
                return fam[name]
            g = g.parent
        return None

    def run(self) -> Summary:
        env = self.initial_env()
        node = self.f.node
        if isinstance(node, ast.Lambda):
            self.sum.returns = self.ev(node.body, env)
        else:
            env = self.block(node.body, env)
        self.sum.returns = _compact(self.sum.returns)
        self.eng._family_env[self.f.qual] = {k: _compact(v) for k, v in env.items()}
        if self.restores:
            self.eng.restores[self.f.qual] = dict(self.restores)
        # classify restored effects
        final = set()
        for e in self.own_effects:
            k = (e.root, e.path)
            kind = e.kind
            if kind in ("write",) and k in self.restores:
                kind = "restored" if self.restores[k] else "restored-unsafe"
            final.add(Effect(e.root, e.path, e.cond, kind, e.site, e.via))
        self.sum.effects = final
        return self.sum

    # -- statements ----------------------------------------------------------
    def block(self, stmts, env):
        for s in stmts:
            env = self.stmt(s, env)
        return env

    def flag_test(self, e):
        pol = True
        while isinstance(e, ast.UnaryOp) and isinstance(e.op, ast.Not):
            e, pol = e.operand, not pol
        if isinstance(e, ast.Name) and e.id in self.family_params:
            return e.id, pol
        return None

    def stmt(self, s, env):
        if isinstance(s, ast.Expr):
            self.ev(s.value, env)
            return env
        if isinstance(s, ast.Assign):
            val = self.ev(s.value, env)
            for t in s.targets:
                self.assign(t, val, env, s, s.value)
            return env
        if isinstance(s, ast.AnnAssign):
            if s.value is not None:
                val = self.ev(s.value, env)
                self.assign(s.target, val, env, s, s.value)
            return env
        if isinstance(s, ast.AugAssign):
            val = self.ev(s.value, env)
            if isinstance(s.target, ast.Name):
                cur = self.lookup(s.target.id, env)
                # in-place operators on mutable containers (|=, +=) write the object
                self.write(cur, None, s, f"{norm(s.target)} {type(s.op).__name__}= ...", aug_name=True)
                env[s.target.id] = (cur or frozenset()) | val
            else:
                self.assign(s.target, val, env, s, s.value)
            return env
        if isinstance(s, ast.Delete):
            for t in s.targets:
                if isinstance(t, (ast.Attribute, ast.Subscript)):
                    base = self.ev(t.value, env)
                    fld = t.attr if isinstance(t, ast.Attribute) else "[*]"
                    self.write(base, fld, s, f"del {norm(t)}")
                elif isinstance(t, ast.Name):
                    env.pop(t.id, None)
            return env
        if isinstance(s, ast.Return):
            if s.value is not None:
                self.sum.returns = self.sum.returns | tag(self.ev(s.value, env), frozenset(self.pc.items()))
            return env
        if isinstance(s, ast.If):
            ft = self.flag_test(s.test)
            self.ev(s.test, env)
            if ft is not None:
                name, pol = ft
                if name in self.pc:
                    # nested test on the same flag: only the consistent branch is live
                    live = s.body if self.pc[name] == pol else s.orelse
                    return self.block(live, dict(env))
                self.pc[name] = pol
                e1 = self.block(s.body, dict(env))
                self.pc[name] = not pol
                e2 = self.block(s.orelse, dict(env))
                del self.pc[name]
                out = {}
                for k in set(e1) | set(e2):
                    v1, v2 = e1.get(k, frozenset()), e2.get(k, frozenset())
                    if v1 == v2:
                        out[k] = v1
                    else:
                        out[k] = tag(v1, frozenset([(name, pol)])) | tag(v2, frozenset([(name, not pol)]))
                # a branch that cannot fall through (return/raise) contributes nothing
                if _terminates(s.body):
                    return {k: tag(v, frozenset([(name, not pol)])) if e1.get(k) != v else v for k, v in e2.items()}
                if s.orelse and _terminates(s.orelse):
                    return {k: tag(v, frozenset([(name, pol)])) if e2.get(k) != v else v for k, v in e1.items()}
                return out
            e1 = self.block(s.body, dict(env))
            e2 = self.block(s.orelse, dict(env))
            if _terminates(s.body):
                return e2
            if s.orelse and _terminates(s.orelse):
                return e1
            return merge_env(e1, e2)
        if isinstance(s, (ast.For, ast.AsyncFor)):
            it = self.ev(s.iter, env)
            elem = self.elements(it)
            for _ in range(2):
                self.bind_target(s.target, elem, env)
                e2 = self.block(s.body, dict(env))
                env = merge_env(env, e2)
            env = self.block(s.orelse, env)
            return env
        if isinstance(s, ast.While):
            self.ev(s.test, env)
            for _ in range(2):
                e2 = self.block(s.body, dict(env))
                env = merge_env(env, e2)
            return self.block(s.orelse, env)
        if isinstance(s, (ast.With, ast.AsyncWith)):
            for it in s.items:
                v = self.ev(it.context_expr, env)
                if it.optional_vars is not None:
                    self.bind_target(it.optional_vars, v, env)
            return self.block(s.body, env)
        if isinstance(s, ast.Try) or s.__class__.__name__ == "TryStar":
            before = dict(env)
            e_body = self.block(s.body, dict(env))
            mid = merge_env(before, e_body)
            outs = [self.block(s.orelse, dict(e_body))]
            for h in s.handlers:
                eh = dict(mid)
                if h.name:
                    eh[h.name] = fresh()
                outs.append(self.block(h.body, eh))
            out = outs[0]
            for o in outs[1:]:
                out = merge_env(out, o)
            if s.finalbody:
                self.finally_depth += 1
                out = self.block(s.finalbody, merge_env(out, mid))
                self.finally_depth -= 1
            return out
        if isinstance(s, ast.Global):
            self.globals_decl |= set(s.names)
            return env
        if isinstance(s, (ast.FunctionDef, ast.AsyncFunctionDef)):
            env[s.name] = frozenset()
            return env
        if isinstance(s, ast.Raise):
            if s.exc is not None:
                self.ev(s.exc, env)
            return env
        if isinstance(s, ast.Assert):
            self.ev(s.test, env)
            return env
        if isinstance(s, ast.Match):
            self.ev(s.subject, env)
            outs = [self.block(c.body, dict(env)) for c in s.cases]
            out = env
            for o in outs:
                out = merge_env(out, o)
            return out
        return env

    def bind_target(self, t, val, env):
        if isinstance(t, ast.Name):
            env[t.id] = val
        elif isinstance(t, (ast.Tuple, ast.List)):
            for e in t.elts:
                self.bind_target(e, val, env)
        elif isinstance(t, ast.Starred):
            self.bind_target(t.value, val, env)
        elif isinstance(t, (ast.Attribute, ast.Subscript)):
            base = self.ev(t.value, env)
            self.write(base, t.attr if isinstance(t, ast.Attribute) else "[*]", t, f"{norm(t)} = <loop target>")

    def assign(self, t, val, env, stmt, value_node):
        if isinstance(t, ast.Name):
            if t.id in self.globals_decl:
                self.record(("G", f"{self.f.module.name}.{t.id}"), (), frozenset(self.pc.items()), "rebind", stmt,
                            f"global {t.id} = {norm(value_node)[:40]}")
            # save pattern:  tmp = X.f
            if isinstance(value_node, ast.Attribute):
                self.saved[t.id] = frozenset((o.root, o.path) for o in val if o.root != FRESH)
            else:
                self.saved.pop(t.id, None)
            env[t.id] = val
            return
        if isinstance(t, (ast.Tuple, ast.List)):
            if isinstance(value_node, (ast.Tuple, ast.List)) and len(value_node.elts) == len(t.elts):
                for te, ve in zip(t.elts, value_node.elts):
                    self.assign(te, self.ev(ve, env), env, stmt, ve)
            else:
                ev = self.elements(val)
                for te in t.elts:
                    self.assign(te, ev, env, stmt, value_node)
            return
        if isinstance(t, ast.Starred):
            self.assign(t.value, val, env, stmt, value_node)
            return
        if isinstance(t, ast.Attribute):
            base = self.ev(t.value, env)
            # restore pattern:  X.f = tmp
            if isinstance(value_node, ast.Name) and value_node.id in self.saved:
                tgt = frozenset((o.root, o.path + (t.attr,)) for o in base if o.root != FRESH)
                if tgt and tgt == self.saved[value_node.id]:
                    for k in tgt:
                        infin = self.finally_depth > 0
                        self.restores[k] = self.restores.get(k, False) or infin
            kind = None
            if _guarded_by_inequality(stmt, t, value_node):
                kind = "idempotent"      # `if X.f != v: X.f = v`
            elif val and all(o.root != FRESH and _memo_path(o) for o in val):
                kind = "memo"            # value looked up in a write-once registry: re-binding is idempotent
            self.write(base, t.attr, stmt, f"{norm(t)} = {norm(value_node)[:40]}", kind=kind)
            return
        if isinstance(t, ast.Subscript):
            base = self.ev(t.value, env)
            self.ev(t.slice, env)
            self.write(base, "[*]", stmt, f"{norm(t)[:50]} = {norm(value_node)[:30]}")
            if isinstance(t.value, ast.Name) and t.value.id in env and any(o.root != FRESH or o.shadow is not None or o.path for o in val):
                env[t.value.id] = env[t.value.id] | self.container_of(val)

    # -- effects -------------------------------------------------------------
    def record(self, root, path, cond, kind, node, text, via=()):
        if not consistent(cond):
            return
        if len(path) > MAXPATH:
            path = tuple(path[:MAXPATH]) + ("...",)
        site = (self.f.qual, getattr(node, "lineno", 0), " ".join(text.split())[:110])
        self.add_effect(Effect(root, tuple(path), frozenset(cond), kind, site, tuple(via)))

    def add_effect(self, e: Effect):
        if e.root[0] == "P" and e.root[1] in OPTION_PARAMS:
            return  # scalar validation options, reached only through over-approximate *args binding
        if len(e.path) > EFFPATH:
            e = Effect(e.root, tuple(e.path[:EFFPATH]) + ("...",), e.cond, e.kind, e.site, e.via)
        k = (e.root, e.path, e.cond, e.kind, e.site)
        if k not in self._eff_keys:
            self._eff_keys.add(k)
            self.own_effects.append(e)

    def site_kind(self, o: Org, path) -> str:
        if self.is_init and o.root in (("P", "self"), ("P", "cls")) :
            return "init"
        # a write *into the memo slot itself* (X.MEMO = v, X.MEMO[k] = v); writes below objects stored in
        # a memo mutate shared objects and stay ordinary writes
        full = ((o.root[1].split(".")[-1],) if o.root[0] == "G" else ()) + tuple(path)
        tail = list(full)
        while tail and tail[-1] == "[*]":
            tail.pop()
        if tail and tail[-1] in MEMO_NAMES and len(full) - len(tail) <= 1:
            return "memo"
        return "write"

    def write(self, base_val, field, node, text, aug_name=False, kind=None):
        if not base_val:
            return
        pc = frozenset(self.pc.items())
        for o in base_val:
            if o.root == FRESH:
                continue  # a fresh object (or the top level of a shallow copy) is local
            path = o.path + ((field,) if field is not None else ())
            k0 = self.site_kind(o, path)
            self.record(o.root, path, o.cond | pc, kind if (kind and k0 == "write") else k0, node, text)

    # -- expressions -----------------------------------------------------------
    def lookup(self, name, env):
        if name in env:
            return env[name]
        fv = self.free_var(name)
        if fv is not None:
            return fv
        r = self.ix.resolve_name(self.f.module, name, self.f)
        if r and r[0] == "global":
            m, n = r[1]
            return frozenset([org(("G", f"{m.name}.{n}"))])
        return frozenset()

    def elements(self, val):
        return ext(val, "[*]")

    def ev(self, e, env) -> FrozenSet[Org]:
        if e is None:
            return frozenset()
        if isinstance(e, ast.Name):
            return self.lookup(e.id, env)
        if isinstance(e, ast.Constant):
            return frozenset()
        if isinstance(e, ast.Attribute):
            base = self.ev(e.value, env)
            if not base:
                r = self.ix.resolve_expr(self.f.module, e, self.f)
                if r and r[0] == "global":
                    m, n = r[1]
                    return frozenset([org(("G", f"{m.name}.{n}"))])
                if r and r[0] == "classattr":
                    c, n = r[1]
                    return frozenset([org(("G", f"{c.module.name}.{c.name}.{n}"))])
                return frozenset()
            return ext(base, e.attr)
        if isinstance(e, ast.Subscript):
            base = self.ev(e.value, env)
            self.ev(e.slice, env)
            if isinstance(e.slice, ast.Constant) and isinstance(e.slice.value, str):
                return ext(base, f"[{e.slice.value}]")
            return self.elements(base)
        if isinstance(e, ast.Call):
            return self.call(e, env)
        if isinstance(e, ast.IfExp):
            self.ev(e.test, env)
            ft = self.flag_test(e.test)
            a, b = self.ev(e.body, env), self.ev(e.orelse, env)
            if ft is not None:
                name, pol = ft
                return tag(a, frozenset([(name, pol)])) | tag(b, frozenset([(name, not pol)]))
            return a | b
        if isinstance(e, ast.BoolOp):
            out = frozenset()
            for v in e.values:
                out |= self.ev(v, env)
            return out
        if isinstance(e, (ast.BinOp,)):
            self.ev(e.left, env)
            self.ev(e.right, env)
            return fresh()
        if isinstance(e, ast.UnaryOp):
            self.ev(e.operand, env)
            return fresh()
        if isinstance(e, ast.Compare):
            self.ev(e.left, env)
            for c in e.comparators:
                self.ev(c, env)
            return frozenset()
        if isinstance(e, (ast.List, ast.Tuple, ast.Set)):
            shadow = frozenset()
            for x in e.elts:
                v = self.ev(x.value if isinstance(x, ast.Starred) else x, env)
                shadow |= v
            return self.container_of(shadow)
        if isinstance(e, ast.Dict):
            out = frozenset()
            for k, v in zip(e.keys, e.values):
                vv = self.ev(v, env)
                if k is None:
                    # {**d}: a shallow copy of d
                    out |= frozenset(org(FRESH, o.path if o.root == FRESH else (), o.cond, o if o.root != FRESH else o.shadow) for o in vv)
                    continue
                self.ev(k, env)
                key = k.value if isinstance(k, ast.Constant) and isinstance(k.value, str) else None
                c = self.container_of(vv, key)
                if c != fresh():
                    out |= c
            return out if out else fresh()
        if isinstance(e, (ast.ListComp, ast.SetComp, ast.GeneratorExp, ast.DictComp)):
            env2 = dict(env)
            for g in e.generators:
                it = self.ev(g.iter, env2)
                self.bind_target(g.target, self.elements(it), env2)
                for c in g.ifs:
                    self.ev(c, env2)
            if isinstance(e, ast.DictComp):
                self.ev(e.key, env2)
                v = self.ev(e.value, env2)
            else:
                v = self.ev(e.elt, env2)
            return self.container_of(v)
        if isinstance(e, ast.JoinedStr):
            for p in e.values:
                if isinstance(p, ast.FormattedValue):
                    self.ev(p.value, env)
            return frozenset()
        if isinstance(e, ast.FormattedValue):
            return self.ev(e.value, env)
        if isinstance(e, ast.Lambda):
            return frozenset()
        if isinstance(e, ast.Starred):
            return self.ev(e.value, env)
        if isinstance(e, ast.NamedExpr):
            v = self.ev(e.value, env)
            self.bind_target(e.target, v, env)
            return v
        if isinstance(e, (ast.Await, ast.YieldFrom)):
            return self.ev(e.value, env)
        if isinstance(e, ast.Yield):
            return self.ev(e.value, env) if e.value is not None else frozenset()
        if isinstance(e, ast.Slice):
            return frozenset()
        return frozenset()

    def container_of(self, contents, key=None):
        """A fresh local container whose elements (under `key`, if given) are exactly `contents`."""
        out = set()
        layer = "^" if key is None else f"^:{key}"
        for o in contents:
            if o.root == FRESH:
                if o.shadow is None and not o.path:
                    continue
                out.add(org(FRESH, (layer,) + o.path, o.cond, o.shadow))
            else:
                out.add(org(FRESH, (layer, "="), o.cond, o))
        return frozenset(out) if out else fresh()

    # -- calls -------------------------------------------------------------------
    def _tuple_literals(self):
        """local name -> tuple/list literal when assigned exactly once"""
        if self._tuples is None:
            count, lit = {}, {}
            for s in function_stmts(self.f):
                tgts = []
                if isinstance(s, ast.Assign):
                    tgts = [t for t in s.targets if isinstance(t, ast.Name)]
                    val = s.value
                elif isinstance(s, ast.AnnAssign) and isinstance(s.target, ast.Name) and s.value is not None:
                    tgts, val = [s.target], s.value
                for t in tgts:
                    count[t.id] = count.get(t.id, 0) + 1
                    if isinstance(val, (ast.Tuple, ast.List)) and not any(isinstance(x, ast.Starred) for x in val.elts):
                        lit[t.id] = val
                if isinstance(s, (ast.For, ast.AsyncFor)):
                    for n in ast.walk(s.target):
                        if isinstance(n, ast.Name):
                            count[n.id] = count.get(n.id, 0) + 1
            self._tuples = {k: v for k, v in lit.items() if count.get(k) == 1}
        return self._tuples

    def _callable_pairs(self):
        """loop variable -> (name of the paired args variable or None, [(callable expr, [arg exprs] or None)])"""
        if self._pairs is None:
            from .roles import callable_list_loops, list_element_args
            self._pairs = {}
            lists = {}
            for s in function_stmts(self.f):
                if isinstance(s, ast.Assign) and len(s.targets) == 1 and isinstance(s.targets[0], ast.Name) and isinstance(s.value, (ast.List, ast.Tuple)):
                    lists[s.targets[0].id] = s.value
                elif isinstance(s, ast.AnnAssign) and isinstance(s.target, ast.Name) and isinstance(s.value, (ast.List, ast.Tuple)):
                    lists[s.target.id] = s.value
            for loop, fns, lname in callable_list_loops(self.f):
                lit = lists.get(lname) if lname in lists else (loop.iter if isinstance(loop.iter, (ast.List, ast.Tuple)) else None)
                if lit is None:
                    continue
                if isinstance(loop.target, ast.Tuple) and len(loop.target.elts) == 2 and all(isinstance(x, ast.Name) for x in loop.target.elts):
                    fv, av = loop.target.elts[0].id, loop.target.elts[1].id
                    self._pairs[fv] = (av, [(el.elts[0] if isinstance(el, ast.Tuple) else el, list_element_args(el)) for el in lit.elts])
                elif isinstance(loop.target, ast.Name):
                    self._pairs[loop.target.id] = (None, [(el, None) for el in lit.elts])
        return self._pairs

    def expand_call(self, e: ast.Call) -> List[ast.Call]:
        """Rewrite `fn(x, *args)` over a list of (callable, args) pairs into one
        precise call per pair, and expand `*name` of a local tuple literal."""
        key = id(e)
        if key in self._expanded:
            return self._expanded[key]
        out = [e]
        fn = e.func
        pairs = self._callable_pairs()
        tl = self._tuple_literals()

        def expand_args(args, argsvar, elem_args):
            res = []
            for a in args:
                if isinstance(a, ast.Starred) and isinstance(a.value, ast.Name):
                    if argsvar is not None and a.value.id == argsvar and elem_args is not None:
                        res += elem_args
                        continue
                    if a.value.id in tl:
                        res += list(tl[a.value.id].elts)
                        continue
                res.append(a)
            return res
        if isinstance(fn, ast.Name) and fn.id in pairs:
            argsvar, elems = pairs[fn.id]
            out = []
            for cexpr, elem_args in elems:
                c = ast.Call(func=cexpr, args=expand_args(e.args, argsvar, elem_args), keywords=e.keywords)
                ast.copy_location(c, e)
                out.append(c)
        elif any(isinstance(a, ast.Starred) and isinstance(a.value, ast.Name) and a.value.id in tl for a in e.args):
            c = ast.Call(func=fn, args=expand_args(e.args, None, None), keywords=e.keywords)
            ast.copy_location(c, e)
            out = [c]
        self._expanded[key] = out
        return out

    def call(self, e: ast.Call, env) -> FrozenSet[Org]:
        ex = self.expand_call(e)
        if len(ex) != 1 or ex[0] is not e:
            out = frozenset()
            for c in ex:
                out |= self.call1(c, env)
            return out
        return self.call1(e, env)

    def call1(self, e: ast.Call, env) -> FrozenSet[Org]:
        fn = e.func
        argvals = [self.ev(a.value if isinstance(a, ast.Starred) else a, env) for a in e.args]
        kwvals = {}
        for k in e.keywords:
            v = self.ev(k.value, env)
            if k.arg is not None:
                kwvals[k.arg] = v
        recv_val = None
        if isinstance(fn, ast.Attribute):
            recv_val = self.ev(fn.value, env)
        d = dotted(fn) or ""
        last = fn.attr if isinstance(fn, ast.Attribute) else (fn.id if isinstance(fn, ast.Name) else "")
        # --- intrinsic writes ---------------------------------------------------
        if isinstance(fn, ast.Attribute) and last in MUTATORS and recv_val:
            self.write(recv_val, "[*]", e, f"{norm(fn)}(...)")
        # contents of local containers: x.append(v) makes x[*] alias v
        if isinstance(fn, ast.Attribute) and isinstance(fn.value, ast.Name) and last in (
                "append", "add", "insert", "extend", "update", "setdefault") and fn.value.id in env:
            added = frozenset()
            for v in argvals[-1:] if last in ("insert", "setdefault") else argvals:
                added |= self.elements(v) if last in ("extend", "update") else v
            for v in kwvals.values():
                added |= v
            if any(o.root != FRESH or o.shadow is not None or o.path for o in added):
                env[fn.value.id] = env[fn.value.id] | self.container_of(added)
        ip = next((k.value for k in e.keywords if k.arg == "inplace"), None)
        if ip is not None and isinstance(ip, ast.Constant) and ip.value is True and recv_val is not None:
            if not self.eng.resolve(self.f, e)[0]:
                self.write(recv_val, None, e, f"{norm(fn)}(..., inplace=True)")
        if last in ("setattr", "delattr") and isinstance(fn, ast.Name) and argvals:
            fld = e.args[1].value if len(e.args) > 1 and isinstance(e.args[1], ast.Constant) else "*"
            self.write(argvals[0], str(fld), e, f"{last}({norm(e.args[0])}, {fld!r}, ...)")
        if d == "object.__setattr__" and argvals:
            fld = e.args[1].value if len(e.args) > 1 and isinstance(e.args[1], ast.Constant) else "*"
            self.write(argvals[0], str(fld), e, f"object.__setattr__({norm(e.args[0])}, {fld!r}, ...)")
        # --- intrinsic results ---------------------------------------------------
        if last in ("deepcopy",) or d in ("copy.deepcopy",):
            return fresh()
        if (d in ("copy.copy",) or (isinstance(fn, ast.Name) and fn.id == "copy")) and argvals and e.args \
                and self.copy_aliases(e.args[0]):
            # the class restores `__dict__ = state` in __setstate__: copy.copy shares the attribute dict
            return argvals[0]
        if (d in ("copy.copy",) or (isinstance(fn, ast.Name) and fn.id == "copy")) and argvals:
            return frozenset(org(FRESH, o.path if o.root == FRESH else (), o.cond, o if o.root != FRESH else o.shadow)
                             for o in argvals[0]) or fresh()
        if isinstance(fn, ast.Name) and fn.id in ("list", "dict", "tuple", "set", "frozenset", "sorted", "reversed") and argvals:
            return self.container_of(self.elements(argvals[0]))
        if isinstance(fn, ast.Name) and fn.id in ("iter", "enumerate", "zip", "filter", "map", "next", "cast", "getattr", "vars"):
            out = frozenset()
            if fn.id == "cast" and len(argvals) > 1:
                return argvals[1]
            if fn.id == "getattr" and argvals:
                fld = e.args[1].value if len(e.args) > 1 and isinstance(e.args[1], ast.Constant) else "*"
                return ext(argvals[0], str(fld))
            if fn.id == "next" and argvals:
                return self.elements(argvals[0])
            for v in argvals:
                out |= v
            return out
        if isinstance(fn, ast.Attribute) and last in ("items", "values", "keys", "get", "pop", "setdefault", "popitem") and recv_val:
            callees, _ = self.eng.resolve(self.f, e)
            if not callees:
                if last in ("items", "values", "keys"):
                    return recv_val
                if e.args and isinstance(e.args[0], ast.Constant) and isinstance(e.args[0].value, str):
                    return ext(recv_val, f"[{e.args[0].value}]")
                return self.elements(recv_val)
        if last == "getmro" and argvals:
            # the class and its bases: shared class-level objects of the same family
            return self.container_of(argvals[0])
        # --- resolved callees -------------------------------------------------------
        callees, kind = self.eng.resolve(self.f, e)
        if not callees and isinstance(fn, ast.Name):
            # call of a parameter / local holding a function reference
            refs = self.callable_refs(fn.id, env)
            callees = refs
            kind = "callable-param" if refs else kind
        if not callees:
            if isinstance(fn, ast.Attribute) and last in ("copy", "clone", "view") and recv_val:
                # pandas: copy(deep=False) / view() share the data buffers with the receiver - not a defensive copy
                deep = next((k.value for k in e.keywords if k.arg == "deep"), e.args[0] if (e.args and last == "copy") else None)
                shallow = last == "view" or (deep is not None and not (isinstance(deep, ast.Constant) and deep.value is True))
                if shallow:
                    return recv_val
            return fresh()
        ret = frozenset()
        for g in callees:
            ret |= self.apply_summary(g, e, env, argvals, kwvals, recv_val, kind)
        if kind == "ctor":
            return fresh()
        return ret if ret else fresh()

    def copy_aliases(self, arg: ast.expr) -> bool:
        """copy.copy(arg) yields an object sharing arg's __dict__ when the (statically known)
        class of arg defines `__setstate__(self, state): self.__dict__ = state`."""
        classes = []
        if isinstance(arg, ast.Name) and arg.id in ("self",):
            c = self.eng.res.class_of_self(self.f)
            if c is not None:
                classes = [c]
        elif isinstance(arg, ast.Name):
            classes = self.eng.res.local_type(self.f, arg.id)
        for c in classes:
            m = c.lookup("__setstate__")
            if m is not None and aliasing_setstate(m):
                return True
        return False

    def callable_refs(self, name, env) -> List[FuncInfo]:
        key = (self.f.qual, name)
        quals = self.eng.param_callables.get(key, set())
        return [self.ix.funcs[q] for q in sorted(quals) if q in self.ix.funcs]

    def note_callable_args(self, g: FuncInfo, binding_exprs: Dict[str, ast.expr]):
        for p, ex in binding_exprs.items():
            target = None
            if isinstance(ex, ast.Name):
                r = self.ix.resolve_name(self.f.module, ex.id, self.f)
                if r and r[0] == "func":
                    target = [r[1]]
            elif isinstance(ex, ast.Attribute):
                r = self.ix.resolve_expr(self.f.module, ex, self.f)
                if r and r[0] == "func":
                    target = [r[1]]
                elif isinstance(ex.value, ast.Name) and ex.value.id in ("self", "cls"):
                    c = self.eng.res.class_of_self(self.f)
                    if c is not None:
                        target = self.eng.res.methods_named(c, ex.attr)
                elif ex.attr not in ("append", "get") and ex.attr in self.ix.methods_by_name and ex.attr in (
                        "coerce_dtype", "validate", "coerce", "try_coerce", "_validate"):
                    target = [m for m in self.ix.methods_by_name[ex.attr] if self.eng.res._ok(m)]
            if target:
                s = self.eng.param_callables.setdefault((g.qual, p), set())
                for t in target:
                    if t.qual not in s:
                        s.add(t.qual)
                        getattr(self.eng, "_new_callables", set()).add(g.qual)

    def bind(self, g: FuncInfo, e: ast.Call, argvals, kwvals, recv_val, kind):
        """parameter name -> (abstract value, argument expression or None)"""
        params = list(g.positional)
        binding: Dict[str, Tuple[FrozenSet[Org], Optional[ast.expr]]] = {}
        bound_self = False
        is_method = g.cls is not None and not g.is_static()
        if kind == "ctor" and is_method:
            binding[params[0]] = (fresh(), None)
            params = params[1:]
            bound_self = True
        elif is_method and isinstance(e.func, ast.Attribute):
            # instance/class method called through a receiver
            rv = recv_val if recv_val is not None else frozenset()
            recv_expr = e.func.value
            if isinstance(recv_expr, ast.Call) and isinstance(recv_expr.func, ast.Name) and recv_expr.func.id == "super":
                rv = frozenset([org(("P", self.f.positional[0]))]) if self.f.positional else frozenset()
                recv_expr = ast.Name(id=self.f.positional[0] if self.f.positional else "self", ctx=ast.Load())
            if isinstance(recv_expr, ast.Call) and isinstance(recv_expr.func, ast.Attribute) and recv_expr.func.attr == "get_backend":
                rv = fresh()  # get_backend() instantiates a backend object
            if g.is_classmethod() or not (isinstance(recv_expr, ast.Name) and self._is_class_ref(recv_expr)):
                binding[params[0]] = (rv, recv_expr)
                params = params[1:]
                bound_self = True
        elif is_method and isinstance(e.func, ast.Name) and kind in ("callable-list",):
            binding[params[0]] = (frozenset([org(("P", "self"))]), None)
            params = params[1:]
        elif is_method and isinstance(e.func, ast.Name) and kind in ("callable-param", "callable-var-hint"):
            binding[params[0]] = (frozenset(), None)
            params = params[1:]
        i = 0
        for a, v in zip(e.args, argvals):
            if isinstance(a, ast.Starred):
                # *args: spread over the remaining positional parameters
                for p in params[i:]:
                    binding.setdefault(p, (self.elements(v), None))
                if g.node.args.vararg:
                    binding[g.node.args.vararg.arg] = (v, None)
                i = len(params)
                continue
            if i < len(params):
                binding[params[i]] = (v, a)
            elif g.node.args.vararg:
                old = binding.get(g.node.args.vararg.arg, (frozenset(), None))[0]
                binding[g.node.args.vararg.arg] = (old | self.container_of(v), None)
            i += 1
        for k in e.keywords:
            if k.arg is None:
                continue
            if k.arg in g.params:
                binding[k.arg] = (kwvals[k.arg], k.value)
            elif g.node.args.kwarg:
                old = binding.get(g.node.args.kwarg.arg, (frozenset(), None))[0]
                binding[g.node.args.kwarg.arg] = (old | self.container_of(kwvals[k.arg]), None)
        return binding

    def _is_class_ref(self, name_node: ast.Name) -> bool:
        r = self.ix.resolve_name(self.f.module, name_node.id, self.f)
        return bool(r and r[0] == "class")

    def translate_cond(self, g: FuncInfo, cond, binding):
        """Callee flag conditions expressed over the caller's flags; returns None
        when the condition is false at this call site."""
        out = set()
        defaults = g.defaults()
        for flag, val in cond:
            if flag not in g.params:
                # flag of an enclosing function of the callee (free variable): same name space
                if flag in self.family_params:
                    out.add((flag, val))
                continue
            ex = binding.get(flag, (None, None))[1]
            if ex is None:
                if flag in binding:
                    continue  # passed, but not as a plain expression: unknown
                ex = defaults.get(flag)
                if ex is None:
                    continue
            if isinstance(ex, ast.Constant):
                if bool(ex.value) != val:
                    return None
                continue
            ft = self.flag_test(ex)
            if ft is not None:
                name, pol = ft
                out.add((name, val if pol else not val))
        return frozenset(out)

    def apply_summary(self, g: FuncInfo, e: ast.Call, env, argvals, kwvals, recv_val, kind):
        s = self.eng.summary(g)
        self.used.add(g.qual)
        binding = self.bind(g, e, argvals, kwvals, recv_val, kind)
        self.note_callable_args(g, {p: ex for p, (v, ex) in binding.items() if ex is not None})
        pc = frozenset(self.pc.items())
        call_site = (self.f.qual, getattr(e, "lineno", 0), norm(e.func)[:60])
        for ef in s.effects:
            c2 = self.translate_cond(g, ef.cond, binding)
            if c2 is None:
                continue
            if ef.root[0] == "G":
                self.add_effect(Effect(ef.root, ef.path, c2 | pc, ef.kind, ef.site, (call_site,) + ef.via[:5]))
                continue
            pname = ef.root[1]
            if pname in binding:
                vals = binding[pname][0]
            elif pname not in g.params and pname in self.family_params:
                vals = frozenset([org(("P", pname))])   # free variable shared with the enclosing function
            elif pname not in g.params:
                fv = env.get(pname)
                vals = fv if fv is not None else frozenset()
            else:
                continue
            for o in vals:
                oo = o
                for fld in ef.path[:-1]:
                    oo = extend(oo, fld)
                    if oo is None:
                        break
                if oo is None or oo.root == FRESH:
                    continue    # the written object is local to the caller (fresh, or top level of a copy)
                cond = oo.cond | c2 | pc
                if not consistent(cond):
                    continue
                kind2 = ef.kind
                full = oo.path + tuple(ef.path[-1:])
                if kind2 == "init":
                    kind2 = "init" if (self.is_init and oo.root in (("P", "self"), ("P", "cls"))) else "write"
                if kind2 == "write":
                    kind2 = self.site_kind(oo, full)
                if len(full) > MAXPATH:
                    full = tuple(full[:MAXPATH]) + ("...",)
                self.add_effect(Effect(oo.root, tuple(full), frozenset(cond), kind2, ef.site, (call_site,) + ef.via[:5]))
        # return value
        out = set()
        for o in s.returns:
            c2 = self.translate_cond(g, o.cond, binding)
            if c2 is None:
                continue
            if o.root == FRESH and o.shadow is None:
                out.add(org(FRESH, (), c2))
                continue
            base = o if o.root != FRESH else o.shadow
            if base.root[0] == "G":
                out.add(org(base.root, base.path, c2, None))
                continue
            pname = base.root[1]
            if pname in binding:
                vals = binding[pname][0]
            elif pname not in g.params and pname in self.family_params:
                vals = frozenset([org(("P", pname))])
            else:
                vals = frozenset()
            for v in vals:
                x = v
                for fld in base.path:
                    x = extend(x, fld)
                    if x is None:
                        break
                if x is None:
                    continue
                x = org(x.root, x.path, x.cond | c2, x.shadow)
                if o.root == FRESH:   # shallow copy / local container built from a parameter
                    if x.root == FRESH:
                        x = org(FRESH, o.path + x.path, x.cond, x.shadow)
                    else:
                        x = org(FRESH, o.path, x.cond, x)
                if consistent(x.cond):
                    out.add(x)
        return frozenset(out)


RETPATH = 2


def _compact(val):
    """Bound returned / captured abstract values (deterministic, size independent, hence monotone):
    paths of non-fresh origins and of shadows are cut to depth RETPATH, at most two flag conditions kept."""
    out = set()
    for o in val:
        path, shadow, cond = o.path, o.shadow, o.cond
        if o.root != FRESH and len(path) > RETPATH:
            path = tuple(path[:RETPATH]) + ("...",)
        if shadow is not None and len(shadow.path) > RETPATH:
            shadow = Org(shadow.root, tuple(shadow.path[:RETPATH]) + ("...",), frozenset(), None)
        elif shadow is not None and shadow.cond:
            shadow = Org(shadow.root, shadow.path, frozenset(), None)
        if len(cond) > 1:
            keep = [c for c in sorted(cond) if c[0] == "inplace"] or sorted(cond)[:1]
            cond = frozenset(keep[:1])
        out.add(Org(o.root, path, cond, shadow))
    return frozenset(out)


def aliasing_setstate(m: FuncInfo) -> bool:
    """`self.__dict__ = state` with the state parameter itself (no copy)."""
    if len(m.positional) < 2:
        return False
    st = m.positional[1]
    for s_ in function_stmts(m):
        if isinstance(s_, ast.Assign) and any(isinstance(t, ast.Attribute) and t.attr == "__dict__" for t in s_.targets) \
                and isinstance(s_.value, ast.Name) and s_.value.id == st:
            return True
    return False


def _memo_path(o: Org) -> bool:
    names = set(o.path) | ({o.root[1].split(".")[-1]} if o.root[0] == "G" else set())
    return bool(names & set(MEMO_NAMES))


def _guarded_by_inequality(stmt, target, value_node) -> bool:
    p = parent(stmt)
    if isinstance(p, ast.If) and stmt in p.body and isinstance(p.test, ast.Compare) and len(p.test.ops) == 1 \
            and isinstance(p.test.ops[0], (ast.NotEq, ast.IsNot)):
        a, b = norm(p.test.left), norm(p.test.comparators[0])
        return {a, b} == {norm(target), norm(value_node)}
    return False


def _terminates(stmts) -> bool:
    if not stmts:
        return False
    last = stmts[-1]
    if isinstance(last, (ast.Return, ast.Raise, ast.Continue, ast.Break)):
        return True
    if isinstance(last, ast.If):
        return bool(last.orelse) and _terminates(last.body) and _terminates(last.orelse)
    return False


def show_effect(e: Effect) -> str:
    root = e.root[1] if e.root[0] in ("P", "G") else "?"
    path = "".join(f".{p}" if not p.startswith("[") else p for p in e.path)
    cond = " when " + " and ".join(f"{k}={v}" for k, v in sorted(e.cond)) if e.cond else ""
    via = " via " + " <- ".join(f"{v[0].split('::')[1]}:{v[1]}" for v in e.via[:4]) if e.via else ""
    return f"{root}{path} [{e.kind}]{cond} written at {e.site[0].split('::')[0]}:{e.site[1]} `{e.site[2]}`{via}"
