"""Semantics-preserving normalisation applied to every parsed module before any rule looks at it.

The rules are about the *resolved program*, not about how a developer happened to spell it, so
two spellings that every Python implementation executes identically are mapped to one form:

N1  single-use temporaries are propagated (`t = E; S[t]` -> `S[E]`) when `t` is a plain local that
    is stored once and loaded once in the whole function, the load is in the statement that directly
    follows the store, and it is evaluated exactly once there (not inside a loop body, a nested
    function, a lambda or a comprehension).
N2  dead stores of constants to names that are never read are dropped (`_unused = None`).
N3  `if not c: A else: B` is written `if c: B else: A` (both branches present, B not an elif chain).
N4  an `else` after a branch that always leaves (return / raise / continue / break) is hoisted:
    `if c: ...; return x  else: REST` -> `if c: ...; return x` followed by REST.
N5  `if a: if b: X` (no else on either) is written `if a and b: X`.
N6  a conditional expression that is the whole value of an assignment to a plain name or of a return is
    spelled with statements: `t = A if c else B` -> `if c: t = A else: t = B`;
    `return A if c else B` -> `if c: return A` followed by `return B` (so the CFG carries the guard).
N9  guard-clause form: when an `if` branch and the statements after it both always leave (return / raise), the
    shorter alternative is the guarded branch, ties go to the un-negated test (`if ok: <long>; return x` / `raise E` == `if not ok: raise E` / <long>).
N10 expression-like helpers (a private module-level `_helper` or a nested function whose body is only let-bindings and a
    decision of `return`s) are expanded at their call sites in the same module; the definition stays.
N8  keyword arguments of a call are ordered by name (no `**` splat present): evaluation order of pure
    argument expressions is irrelevant to every rule.

Line numbers of the surviving nodes are untouched, so reports still point at the real source."""

from __future__ import annotations

import ast
from typing import Dict, List, Optional

_SCOPES = (ast.FunctionDef, ast.AsyncFunctionDef, ast.Lambda, ast.ClassDef)
_MULTI = (ast.Lambda, ast.ListComp, ast.SetComp, ast.DictComp, ast.GeneratorExp, ast.FunctionDef, ast.AsyncFunctionDef, ast.ClassDef)


def _params(fn) -> set:
    a = fn.args
    out = {x.arg for x in a.posonlyargs + a.args + a.kwonlyargs}
    if a.vararg:
        out.add(a.vararg.arg)
    if a.kwarg:
        out.add(a.kwarg.arg)
    return out


def _counts(fn):
    loads: Dict[str, int] = {}
    stores: Dict[str, int] = {}
    banned = set(_params(fn))
    for n in ast.walk(fn):
        if isinstance(n, ast.Name):
            if isinstance(n.ctx, ast.Load):
                loads[n.id] = loads.get(n.id, 0) + 1
            else:
                stores[n.id] = stores.get(n.id, 0) + 1
        elif isinstance(n, (ast.Global, ast.Nonlocal)):
            banned.update(n.names)
        elif isinstance(n, ast.ExceptHandler) and n.name:
            banned.add(n.name)
        elif isinstance(n, (ast.FunctionDef, ast.AsyncFunctionDef, ast.ClassDef)) and n is not fn:
            banned.add(n.name)
            if not isinstance(n, ast.ClassDef):
                banned.update(_params(n))
        elif isinstance(n, ast.Lambda):
            banned.update(_params(n))
        elif isinstance(n, (ast.Import, ast.ImportFrom)):
            for al in n.names:
                banned.add((al.asname or al.name).split(".")[0])
        elif isinstance(n, ast.Call) and isinstance(n.func, ast.Name) and (
                n.func.id in ("locals", "eval", "exec") or (n.func.id in ("vars", "dir") and not n.args)):
            return None
    return loads, stores, banned


def _single_eval_exprs(s: ast.stmt) -> List[ast.AST]:
    """Sub-expressions of statement `s` that are evaluated exactly once, first thing, when `s` runs."""
    if isinstance(s, (ast.Return, ast.Expr)):
        return [s.value] if s.value is not None else []
    if isinstance(s, ast.Assign):
        return [s.value]
    if isinstance(s, ast.AnnAssign):
        return [s.value] if s.value is not None else []
    if isinstance(s, ast.AugAssign):
        return [s.value]
    if isinstance(s, ast.Raise):
        return [x for x in (s.exc, s.cause) if x is not None]
    if isinstance(s, ast.If):
        return [s.test]
    if isinstance(s, (ast.For, ast.AsyncFor)):
        return [s.iter]
    if isinstance(s, (ast.With, ast.AsyncWith)):
        return [s.items[0].context_expr] if s.items else []
    if isinstance(s, ast.Assert):
        return [s.test]
    return []


def _find_single_load(root: ast.AST, name: str) -> Optional[ast.Name]:
    """The unique Load of `name` under root, provided it is not inside a construct evaluated lazily/repeatedly."""
    found = []

    def walk(n, lazy):
        if isinstance(n, ast.Name) and n.id == name and isinstance(n.ctx, ast.Load):
            found.append((n, lazy))
        for ch in ast.iter_child_nodes(n):
            walk(ch, lazy or isinstance(ch, _MULTI))

    walk(root, isinstance(root, _MULTI))
    if len(found) == 1 and not found[0][1]:
        return found[0][0]
    return None


class _Replace(ast.NodeTransformer):
    def __init__(self, target: ast.Name, value: ast.expr):
        self.target, self.value = target, value

    def visit_Name(self, node):
        return self.value if node is self.target else node


def _blocks(fn):
    """Every statement list belonging to fn's own scope (nested defs are separate scopes)."""
    out = []

    def walk(n):
        for fld in ("body", "orelse", "finalbody"):
            v = getattr(n, fld, None)
            if isinstance(v, list) and v and isinstance(v[0], ast.stmt):
                out.append((n, fld))
                for s in v:
                    if not isinstance(s, _SCOPES):
                        walk(s)
        for h in getattr(n, "handlers", []) or []:
            walk(h)
        if isinstance(n, ast.Match):
            for c in n.cases:
                walk(c)

    walk(fn)
    return out


def _normalize_function(fn) -> int:
    changed_total = 0
    for _ in range(8):
        c = _counts(fn)
        if c is None:
            return changed_total
        loads, stores, banned = c
        changed = 0
        for owner, fld in _blocks(fn):
            stmts = getattr(owner, fld)
            i = 0
            while i < len(stmts):
                s = stmts[i]
                if isinstance(s, ast.Assign) and len(s.targets) == 1 and isinstance(s.targets[0], ast.Name):
                    t = s.targets[0].id
                    if t not in banned and stores.get(t, 0) == 1:
                        nl = loads.get(t, 0)
                        # N2 dead constant store
                        if nl == 0 and isinstance(s.value, ast.Constant) and len(stmts) > 1:
                            del stmts[i]
                            changed += 1
                            continue
                        # N1 single-use temporary consumed by the next statement
                        if nl == 1 and i + 1 < len(stmts) and not isinstance(s.value, (ast.Yield, ast.YieldFrom, ast.Await)):
                            nxt = stmts[i + 1]
                            hit = None
                            for e in _single_eval_exprs(nxt):
                                hit = _find_single_load(e, t)
                                if hit is not None:
                                    break
                            if hit is not None:
                                _Replace(hit, s.value).visit(nxt)
                                del stmts[i]
                                loads[t] = 0
                                stores[t] = 0
                                changed += 1
                                continue
                i += 1
        changed_total += changed
        if not changed:
            break
    return changed_total


def _ends_in_jump(block) -> bool:
    return bool(block) and isinstance(block[-1], (ast.Return, ast.Raise, ast.Continue, ast.Break))


def _size(block) -> int:
    return sum(1 for st in block for n in ast.walk(st) if isinstance(n, ast.stmt))


def _single_assign(block):
    if len(block) == 1 and isinstance(block[0], ast.Assign) and len(block[0].targets) == 1 and isinstance(block[0].targets[0], ast.Name):
        return block[0]
    return None


def _single_return(block):
    if len(block) == 1 and isinstance(block[0], ast.Return) and block[0].value is not None:
        return block[0]
    return None


def _structural(fn) -> int:
    """N3-N6 on every statement list of fn's own scope, N8 on every call; to a fixpoint."""
    total = 0
    for _ in range(6):
        changed = 0
        for owner, fld in _blocks(fn):
            stmts = getattr(owner, fld)
            i = 0
            while i < len(stmts):
                s = stmts[i]
                if isinstance(s, ast.If):
                    # N4 (first): else after a branch that always leaves
                    if s.orelse and _ends_in_jump(s.body):
                        rest = s.orelse
                        s.orelse = []
                        stmts[i + 1:i + 1] = rest
                        changed += 1
                    # N3
                    if s.orelse and isinstance(s.test, ast.UnaryOp) and isinstance(s.test.op, ast.Not) \
                            and not (len(s.orelse) == 1 and isinstance(s.orelse[0], ast.If)):
                        s.test = s.test.operand
                        s.body, s.orelse = s.orelse, s.body
                        changed += 1
                    # N9 guard-clause form: of two alternatives that both leave, the shorter one is the guarded branch
                    if not s.orelse and _ends_in_jump(s.body) and i + 1 < len(stmts) and _ends_in_jump(stmts[i + 1:]) \
                            and not isinstance(owner, (ast.For, ast.AsyncFor, ast.While, ast.Try, ast.With, ast.AsyncWith)):
                        tail = stmts[i + 1:]
                        neg = isinstance(s.test, ast.UnaryOp) and isinstance(s.test.op, ast.Not)
                        if (_size(s.body) > _size(tail) or (_size(s.body) == _size(tail) and neg)) and not any(isinstance(x, (ast.FunctionDef, ast.AsyncFunctionDef, ast.ClassDef)) for x in tail):
                            body = s.body
                            s.test = s.test.operand if isinstance(s.test, ast.UnaryOp) and isinstance(s.test.op, ast.Not) else \
                                ast.copy_location(ast.UnaryOp(op=ast.Not(), operand=s.test), s.test)
                            s.body = tail
                            del stmts[i + 1:]
                            stmts.extend(body)
                            changed += 1
                    # N6: a conditional expression that is the whole value of an assignment / return is spelled as statements
                if isinstance(s, ast.Assign) and isinstance(s.value, ast.IfExp) and len(s.targets) == 1 and isinstance(s.targets[0], ast.Name):
                    v = s.value
                    a = ast.copy_location(ast.Assign(targets=[ast.Name(id=s.targets[0].id, ctx=ast.Store())], value=v.body), v.body)
                    b = ast.copy_location(ast.Assign(targets=[ast.Name(id=s.targets[0].id, ctx=ast.Store())], value=v.orelse), v.orelse)
                    new = ast.copy_location(ast.If(test=v.test, body=[a], orelse=[b]), s)
                    ast.fix_missing_locations(new)
                    stmts[i] = new
                    changed += 1
                    continue
                if isinstance(s, ast.Return) and isinstance(s.value, ast.IfExp):
                    v = s.value
                    a = ast.copy_location(ast.Return(value=v.body), v.body)
                    b = ast.copy_location(ast.Return(value=v.orelse), v.orelse)
                    new = ast.copy_location(ast.If(test=v.test, body=[a], orelse=[]), s)
                    ast.fix_missing_locations(new)
                    stmts[i] = new
                    stmts.insert(i + 1, b)
                    changed += 1
                    continue
                if isinstance(s, ast.If):
                    # N5
                    if not s.orelse and len(s.body) == 1 and isinstance(s.body[0], ast.If) and not s.body[0].orelse:
                        inner = s.body[0]
                        vals = (s.test.values if isinstance(s.test, ast.BoolOp) and isinstance(s.test.op, ast.And) else [s.test]) + \
                               (inner.test.values if isinstance(inner.test, ast.BoolOp) and isinstance(inner.test.op, ast.And) else [inner.test])
                        s.test = ast.copy_location(ast.BoolOp(op=ast.And(), values=vals), s.test)
                        s.body = inner.body
                        changed += 1
                        continue
                i += 1
        total += changed
        if not changed:
            break
    for n in ast.walk(fn):
        if isinstance(n, ast.Call) and len(n.keywords) > 1 and all(k.arg is not None for k in n.keywords):
            names = [k.arg for k in n.keywords]
            if names != sorted(names):
                n.keywords = sorted(n.keywords, key=lambda k: k.arg)
                total += 1
    return total


def normalize_tree(tree: ast.Module) -> int:
    """In-place normalisation of every function of the module; returns the number of rewrites."""
    n = 0
    funcs = [x for x in ast.walk(tree) if isinstance(x, (ast.FunctionDef, ast.AsyncFunctionDef))]
    def settle():
        m = 0
        for fn in reversed(funcs):
            for _ in range(4):
                k = _normalize_function(fn) + _structural(fn)
                m += k
                if not k:
                    break
        return m

    n += settle()
    k = inline_helpers(tree)
    if k:
        n += k + settle()
    return n


# ---- N10: expression-like private helpers are expanded at their call sites -------------------------------------------
class _NotExpr(Exception):
    pass


def _helper_expr(fn):
    """The value of a call to `fn` as one expression over its parameters, when the body is nothing but let-bindings and a
    decision of returns (`if c: return A` ... `return Z`); raises _NotExpr otherwise."""
    a = fn.args
    if a.vararg or a.kwarg or a.posonlyargs or fn.decorator_list and not all(isinstance(d, ast.Name) and d.id == "staticmethod" for d in fn.decorator_list):
        raise _NotExpr
    if isinstance(fn, ast.AsyncFunctionDef):
        raise _NotExpr
    params = [x.arg for x in a.args + a.kwonlyargs]
    lets = {}

    def subst_lets(e):
        class T(ast.NodeTransformer):
            def visit_Name(self, n):
                if isinstance(n.ctx, ast.Load) and n.id in lets:
                    return _clone(lets[n.id])
                return n
        return T().visit(_clone(e))

    def block(stmts):
        """expression for a statement list that always returns"""
        stmts = [s for s in stmts if not (isinstance(s, ast.Expr) and isinstance(s.value, ast.Constant))]
        if not stmts:
            raise _NotExpr
        s, rest = stmts[0], stmts[1:]
        if isinstance(s, ast.Return):
            if s.value is None:
                return ast.Constant(value=None)
            return subst_lets(s.value)
        if isinstance(s, ast.Assign) and len(s.targets) == 1 and isinstance(s.targets[0], ast.Name):
            name = s.targets[0].id
            if name in lets or name in params:
                raise _NotExpr
            lets[name] = subst_lets(s.value)
            try:
                return block(rest)
            finally:
                pass
        if isinstance(s, ast.If):
            test = subst_lets(s.test)
            if s.orelse:
                return ast.IfExp(test=test, body=block(s.body), orelse=block(s.orelse)) if not rest else _raise()
            return ast.IfExp(test=test, body=block(s.body), orelse=block(rest))
        raise _NotExpr

    def _raise():
        raise _NotExpr

    for n in ast.walk(fn):
        if isinstance(n, (ast.Yield, ast.YieldFrom, ast.Await, ast.Global, ast.Nonlocal, ast.Lambda)) or \
                (isinstance(n, (ast.FunctionDef, ast.AsyncFunctionDef, ast.ClassDef)) and n is not fn):
            raise _NotExpr
        if isinstance(n, ast.Call) and isinstance(n.func, ast.Name) and n.func.id == fn.name:
            raise _NotExpr  # recursive
    expr = block(fn.body)
    if sum(1 for _ in ast.walk(expr)) > 220:
        raise _NotExpr
    return params, expr


def _clone(node):
    if isinstance(node, ast.AST):
        new = node.__class__()
        for name, value in ast.iter_fields(node):
            setattr(new, name, _clone(value))
        for attr in ("lineno", "col_offset", "end_lineno", "end_col_offset"):
            if hasattr(node, attr):
                setattr(new, attr, getattr(node, attr))
        return new
    if isinstance(node, list):
        return [_clone(x) for x in node]
    return node


def _helper_expr_method(fn):
    """like _helper_expr for a method: the receiver parameter is not a value parameter"""
    import copy as _copy
    shadow = _clone(fn)
    shadow.args.args = shadow.args.args[1:]
    shadow.decorator_list = []
    return _helper_expr(shadow)


def _bind_method(fn, call):
    import copy as _copy
    shadow = _clone(fn)
    shadow.args.args = shadow.args.args[1:]
    return _bind(shadow, call)


def _bind(fn, call):
    a = fn.args
    names = [x.arg for x in a.args]
    bound = {}
    if any(isinstance(x, ast.Starred) for x in call.args) or any(k.arg is None for k in call.keywords):
        return None
    if len(call.args) > len(names):
        return None
    for n, v in zip(names, call.args):
        bound[n] = v
    allowed = set(names) | {x.arg for x in a.kwonlyargs}
    for k in call.keywords:
        if k.arg not in allowed or k.arg in bound:
            return None
        bound[k.arg] = k.value
    defaults = dict(zip(names[len(names) - len(a.defaults):], a.defaults))
    defaults.update({x.arg: d for x, d in zip(a.kwonlyargs, a.kw_defaults) if d is not None})
    for n in allowed:
        if n not in bound:
            if n in defaults:
                bound[n] = defaults[n]
            else:
                return None
    return bound


def inline_helpers(tree: ast.Module) -> int:
    """N10.  Private module-level helpers (`_name`) and nested functions whose body is expression-like are expanded at
    their call sites inside the same module (the definition stays).  Extracting a decision or a small builder into a
    helper - or inlining one - therefore leaves the analysed program unchanged."""
    cands = {}
    method_cands = {}

    def collect(scope_node, owner):
        for s in getattr(scope_node, "body", []):
            if isinstance(s, ast.FunctionDef):
                if owner is not None or s.name.startswith("_") and not s.name.startswith("__"):
                    try:
                        cands[(id(owner) if owner is not None else None, s.name)] = (s,) + _helper_expr(s)
                    except _NotExpr:
                        pass
                collect(s, s)
            elif isinstance(s, ast.ClassDef):
                for m in s.body:
                    if isinstance(m, (ast.FunctionDef, ast.AsyncFunctionDef)):
                        if isinstance(m, ast.FunctionDef) and m.name.startswith("_") and not m.name.startswith("__") and m.args.args \
                                and m.args.args[0].arg in ("self", "cls") and not any(
                                    isinstance(d, ast.Name) and d.id in ("property", "staticmethod") or isinstance(d, ast.Attribute) for d in m.decorator_list):
                            try:
                                method_cands[(id(s), m.name)] = (m,) + _helper_expr_method(m)
                            except _NotExpr:
                                pass
                        collect(m, m)
            elif isinstance(s, (ast.If, ast.Try, ast.With, ast.For, ast.While)):
                for fld in ("body", "orelse", "finalbody"):
                    sub = getattr(s, fld, None)
                    if sub:
                        collect(ast.Module(body=sub, type_ignores=[]), owner)
                for h in getattr(s, "handlers", []) or []:
                    collect(h, owner)

    collect(tree, None)
    if not cands and not method_cands:
        return 0
    count = 0
    class_of = {}
    for c_ in ast.walk(tree):
        if isinstance(c_, ast.ClassDef):
            for m_ in c_.body:
                if isinstance(m_, (ast.FunctionDef, ast.AsyncFunctionDef)):
                    class_of[id(m_)] = c_

    def rewrite(scope_fn, owners):
        nonlocal count

        class T(ast.NodeTransformer):
            def visit_FunctionDef(self, node):
                if node is scope_fn:
                    self.generic_visit(node)
                return node

            visit_AsyncFunctionDef = visit_FunctionDef

            def visit_Lambda(self, node):
                return node

            def visit_Call(self, node):
                nonlocal count
                self.generic_visit(node)
                if isinstance(node.func, ast.Attribute) and isinstance(node.func.value, ast.Name) and node.func.value.id in ("self", "cls") and owners:
                    cls_node = class_of.get(id(owners[0]))
                    mh = method_cands.get((id(cls_node), node.func.attr)) if cls_node is not None else None
                    if mh and mh[0] is not scope_fn and mh[0] is not owners[0]:
                        fn, params, expr = mh
                        bound = _bind_method(fn, node)
                        if bound is not None:
                            recv = node.func.value.id

                            class SM(ast.NodeTransformer):
                                def visit_Name(self, n):
                                    if isinstance(n.ctx, ast.Load) and n.id in bound:
                                        return _clone(bound[n.id])
                                    if n.id == fn.args.args[0].arg:
                                        return ast.copy_location(ast.Name(id=recv, ctx=n.ctx), n)
                                    return n

                            new = SM().visit(_clone(expr))
                            ast.copy_location(new, node)
                            for x in ast.walk(new):
                                if not hasattr(x, "lineno"):
                                    ast.copy_location(x, node)
                            count += 1
                            return new
                    return node
                if not isinstance(node.func, ast.Name):
                    return node
                hit = None
                for o in owners + [None]:
                    hit = cands.get((id(o) if o is not None else None, node.func.id))
                    if hit:
                        break
                if not hit or hit[0] is scope_fn:
                    return node
                fn, params, expr = hit
                bound = _bind(fn, node)
                if bound is None:
                    return node

                class S(ast.NodeTransformer):
                    def visit_Name(self, n):
                        if isinstance(n.ctx, ast.Load) and n.id in bound:
                            return _clone(bound[n.id])
                        return n

                new = S().visit(_clone(expr))
                ast.copy_location(new, node)
                for x in ast.walk(new):
                    if not hasattr(x, "lineno"):
                        ast.copy_location(x, node)
                count += 1
                return new

        T().visit(scope_fn)

    def walk_scopes(node, owners):
        for s in getattr(node, "body", []):
            if isinstance(s, (ast.FunctionDef, ast.AsyncFunctionDef)):
                rewrite(s, owners + [s])
                walk_scopes(s, owners + [s])
            elif isinstance(s, ast.ClassDef):
                walk_scopes(s, owners)
            elif isinstance(s, (ast.If, ast.Try, ast.With, ast.For, ast.While)):
                for fld in ("body", "orelse", "finalbody"):
                    sub = getattr(s, fld, None)
                    if sub:
                        walk_scopes(ast.Module(body=sub, type_ignores=[]), owners)
                for h in getattr(s, "handlers", []) or []:
                    walk_scopes(h, owners)

    walk_scopes(tree, [])
    return count
