"""E4: statement-level control-flow graph for one function, with dominators,
edge guards and reaching definitions.  Covers the statement kinds the
repository uses: if / for / while / try-except-else-finally / with / return /
raise / break / continue / match (as opaque branch)."""

from __future__ import annotations

import ast
from typing import Dict, Iterable, List, Optional, Set, Tuple

from .index import walk_no_nested


class Node:
    __slots__ = ("id", "kind", "ast", "label")

    def __init__(self, id_, kind, ast_node=None, label=""):
        self.id = id_
        self.kind = kind  # entry exit raise stmt test for with except join
        self.ast = ast_node
        self.label = label

    @property
    def lineno(self):
        return getattr(self.ast, "lineno", 0)

    def __repr__(self):
        t = ""
        if self.ast is not None:
            try:
                t = ast.unparse(self.ast).split("\n")[0][:60]
            except Exception:
                t = type(self.ast).__name__
        return f"<{self.id}:{self.kind} {t}>"


class CFG:
    def __init__(self, func_node):
        self.func = func_node
        self.nodes: List[Node] = []
        self.succ: Dict[int, List[Tuple[int, Optional[str]]]] = {}
        self.pred: Dict[int, List[Tuple[int, Optional[str]]]] = {}
        self.entry = self._new("entry")
        self.exit = self._new("exit")       # normal return / fall off the end
        self.raise_exit = self._new("raise")  # exception leaves the function
        self.stmt_node: Dict[int, int] = {}  # id(ast stmt) -> node id
        self._loops: List[Tuple[int, int]] = []  # (continue target, break target)
        self._handlers: List[List[int]] = []   # stack of exception targets
        self._finals: List[int] = []           # stack of finally entries
        body_entry, ends = self._block(func_node.body, [self.entry.id])
        for e in ends:
            self._edge(e, self.exit.id)

    # -- construction ------------------------------------------------------
    def _new(self, kind, ast_node=None, label="") -> Node:
        n = Node(len(self.nodes), kind, ast_node, label)
        self.nodes.append(n)
        self.succ[n.id] = []
        self.pred[n.id] = []
        return n

    def _edge(self, a: int, b: int, label: Optional[str] = None):
        if (b, label) not in self.succ[a]:
            self.succ[a].append((b, label))
            self.pred[b].append((a, label))

    def _exc_targets(self) -> List[int]:
        if self._handlers:
            return self._handlers[-1]
        return [self.raise_exit.id]

    def _may_raise(self, node) -> bool:
        for n in walk_no_nested(node):
            if isinstance(n, (ast.Call, ast.Subscript, ast.Attribute, ast.BinOp, ast.Await, ast.Yield, ast.YieldFrom)):
                return True
        return False

    def _add_exc(self, nid: int, node):
        if node is None or self._may_raise(node):
            for t in self._exc_targets():
                self._edge(nid, t, "exc")

    def _block(self, stmts, preds: List[int], pred_label=None):
        """Returns (first node id or None, list of open ends)."""
        cur = list(preds)
        labels = {p: pred_label for p in preds} if pred_label is not None else {}
        first = None
        for s in stmts:
            entry, cur2 = self._stmt(s, cur, labels)
            labels = {}
            if first is None:
                first = entry
            cur = cur2
        return first, cur

    def _link(self, preds, nid, labels):
        for p in preds:
            self._edge(p, nid, labels.get(p))

    def _stmt(self, s, preds, labels):
        if isinstance(s, ast.If):
            t = self._new("test", s.test)
            self.stmt_node[id(s)] = t.id
            self._link(preds, t.id, labels)
            self._add_exc(t.id, s.test)
            _, e1 = self._block(s.body, [t.id], "True")
            if s.orelse:
                _, e2 = self._block(s.orelse, [t.id], "False")
                return t.id, e1 + e2
            j = self._new("join", None)
            self._edge(t.id, j.id, "False")
            for e in e1:
                self._edge(e, j.id)
            return t.id, [j.id]
        if isinstance(s, (ast.For, ast.AsyncFor)):
            h = self._new("for", s)
            self.stmt_node[id(s)] = h.id
            self._link(preds, h.id, labels)
            self._add_exc(h.id, s.iter)
            after = self._new("join", None)
            self._loops.append((h.id, after.id))
            _, e1 = self._block(s.body, [h.id], "loop")
            self._loops.pop()
            for e in e1:
                self._edge(e, h.id, "back")
            if s.orelse:
                _, e2 = self._block(s.orelse, [h.id], "exhausted")
                for e in e2:
                    self._edge(e, after.id)
            else:
                self._edge(h.id, after.id, "exhausted")
            return h.id, [after.id]
        if isinstance(s, ast.While):
            t = self._new("test", s.test)
            self.stmt_node[id(s)] = t.id
            self._link(preds, t.id, labels)
            self._add_exc(t.id, s.test)
            after = self._new("join", None)
            self._loops.append((t.id, after.id))
            _, e1 = self._block(s.body, [t.id], "True")
            self._loops.pop()
            for e in e1:
                self._edge(e, t.id, "back")
            if s.orelse:
                _, e2 = self._block(s.orelse, [t.id], "False")
                for e in e2:
                    self._edge(e, after.id)
            else:
                self._edge(t.id, after.id, "False")
            return t.id, [after.id]
        if isinstance(s, (ast.With, ast.AsyncWith)):
            w = self._new("with", s)
            self.stmt_node[id(s)] = w.id
            self._link(preds, w.id, labels)
            self._add_exc(w.id, None)
            _, e1 = self._block(s.body, [w.id])
            return w.id, e1
        if isinstance(s, ast.Try) or s.__class__.__name__ == "TryStar":
            return self._try(s, preds, labels)
        if isinstance(s, ast.Match):
            t = self._new("test", s.subject)
            self.stmt_node[id(s)] = t.id
            self._link(preds, t.id, labels)
            ends = []
            for case in s.cases:
                _, e = self._block(case.body, [t.id], "case")
                ends += e
            j = self._new("join")
            self._edge(t.id, j.id, "nomatch")
            for e in ends:
                self._edge(e, j.id)
            return t.id, [j.id]
        # simple statements
        n = self._new("stmt", s)
        self.stmt_node[id(s)] = n.id
        self._link(preds, n.id, labels)
        if isinstance(s, ast.Return):
            self._add_exc(n.id, s.value) if s.value is not None else None
            if self._finals:
                self._edge(n.id, self._finals[-1], "return")
            else:
                self._edge(n.id, self.exit.id, "return")
            return n.id, []
        if isinstance(s, ast.Raise):
            for t in self._exc_targets():
                self._edge(n.id, t, "exc")
            return n.id, []
        if isinstance(s, ast.Break):
            if self._loops:
                self._edge(n.id, self._loops[-1][1], "break")
            return n.id, []
        if isinstance(s, ast.Continue):
            if self._loops:
                self._edge(n.id, self._loops[-1][0], "back")
            return n.id, []
        if isinstance(s, (ast.FunctionDef, ast.AsyncFunctionDef, ast.ClassDef)):
            return n.id, [n.id]
        if isinstance(s, ast.Assert):
            for t in self._exc_targets():
                self._edge(n.id, t, "exc")
            return n.id, [n.id]
        self._add_exc(n.id, s)
        return n.id, [n.id]

    def _try(self, s, preds, labels):
        start = self._new("join", s, "try")
        self.stmt_node[id(s)] = start.id
        self._link(preds, start.id, labels)
        fin_entry = None
        outer_exc = self._exc_targets()
        if s.finalbody:
            fin_entry = self._new("join", None, "finally").id
        handler_nodes = []
        for h in s.handlers:
            hn = self._new("except", h)
            self.stmt_node[id(h)] = hn.id
            handler_nodes.append(hn.id)
        # where do exceptions raised in the try body go?
        body_targets = list(handler_nodes)
        catches_all = any(_catches_everything(h) for h in s.handlers)
        if not catches_all:
            body_targets += [fin_entry] if fin_entry is not None else outer_exc
        self._handlers.append(body_targets)
        if fin_entry is not None:
            self._finals.append(fin_entry)
        _, e_body = self._block(s.body, [start.id])
        self._handlers.pop()
        # else and handlers: exceptions go to finally / outer
        self._handlers.append([fin_entry] if fin_entry is not None else outer_exc)
        if s.orelse:
            _, e_body = self._block(s.orelse, e_body)
        ends = list(e_body)
        for h, hn in zip(s.handlers, handler_nodes):
            _, e_h = self._block(h.body, [hn])
            ends += e_h
        self._handlers.pop()
        if fin_entry is not None:
            self._finals.pop()
            for e in ends:
                self._edge(e, fin_entry)
            _, e_fin = self._block(s.finalbody, [fin_entry])
            after = self._new("join", None, "after-finally")
            for e in e_fin:
                self._edge(e, after.id, "fin-normal")
                for t in outer_exc:
                    self._edge(e, t, "fin-exc")
                # a return routed through finally continues to the next
                # enclosing finally or to the exit
                if self._finals:
                    self._edge(e, self._finals[-1], "fin-return")
                else:
                    self._edge(e, self.exit.id, "fin-return")
            return start.id, [after.id]
        return start.id, ends

    # -- queries -----------------------------------------------------------
    def node_of(self, stmt) -> Optional[Node]:
        i = self.stmt_node.get(id(stmt))
        return None if i is None else self.nodes[i]

    def reachable(self, start: int, skip_edge=None, skip_labels: Iterable[str] = (),
                  skip_nodes: Iterable[int] = ()) -> Set[int]:
        skip_labels = set(skip_labels)
        skip_nodes = set(skip_nodes)
        seen = {start}
        todo = [start]
        while todo:
            a = todo.pop()
            for b, lab in self.succ[a]:
                if skip_edge is not None and (a, lab) == skip_edge:
                    continue
                if lab in skip_labels or b in skip_nodes:
                    continue
                if b not in seen:
                    seen.add(b)
                    todo.append(b)
        return seen

    def dominators(self, skip_labels: Iterable[str] = ()) -> Dict[int, Set[int]]:
        skip = set(skip_labels)
        reach = self.reachable(self.entry.id, skip_labels=skip)
        allnodes = set(reach)
        dom = {n: set(allnodes) for n in reach}
        dom[self.entry.id] = {self.entry.id}
        changed = True
        order = sorted(reach)
        while changed:
            changed = False
            for n in order:
                if n == self.entry.id:
                    continue
                ps = [p for p, lab in self.pred[n] if p in reach and lab not in skip]
                if not ps:
                    continue
                new = set.intersection(*(dom[p] for p in ps)) | {n}
                if new != dom[n]:
                    dom[n] = new
                    changed = True
        return dom

    def must_pass(self, src: int, dst_set: Set[int], through: Set[int],
                  skip_labels: Iterable[str] = ()) -> Optional[List[int]]:
        """Is there a path src -> (any of dst_set) avoiding `through`?  Returns
        such a path (list of node ids) or None when every path passes through."""
        skip = set(skip_labels)
        prev = {src: None}
        todo = [src]
        while todo:
            a = todo.pop(0)
            if a in dst_set and a != src:
                path = []
                while a is not None:
                    path.append(a)
                    a = prev[a]
                return list(reversed(path))
            for b, lab in self.succ[a]:
                if lab in skip or b in through:
                    continue
                if b not in prev:
                    prev[b] = a
                    todo.append(b)
        return None

    def guards(self, nid: int, skip_labels: Iterable[str] = ()) -> List[Tuple[ast.expr, bool]]:
        """Conditions (test expr, polarity) that hold on every path reaching
        node `nid` (both the if-form and the early-exit idiom are covered,
        because this is edge-dominance: removing the edge makes `nid`
        unreachable)."""
        out = []
        skip = set(skip_labels)
        base = self.reachable(self.entry.id, skip_labels=skip)
        if nid not in base:
            return out
        for t in self.nodes:
            if t.kind != "test" or t.id not in base:
                continue
            for lab in ("True", "False"):
                if not any(l == lab for _, l in self.succ[t.id]):
                    continue
                r = self.reachable(self.entry.id, skip_edge=(t.id, lab), skip_labels=skip)
                if nid not in r:
                    out.append((t.ast, lab == "True"))
        return out

    # -- reaching definitions ---------------------------------------------
    def defs_of(self, n: Node) -> Set[str]:
        a = n.ast
        out: Set[str] = set()
        if n.kind == "entry":
            args = self.func.args
            for x in args.posonlyargs + args.args + args.kwonlyargs:
                out.add(x.arg)
            if args.vararg:
                out.add(args.vararg.arg)
            if args.kwarg:
                out.add(args.kwarg.arg)
            return out
        if a is None:
            return out
        if n.kind == "stmt":
            if isinstance(a, ast.Assign):
                for t in a.targets:
                    out |= _target_names(t)
            elif isinstance(a, (ast.AugAssign, ast.AnnAssign)):
                if not (isinstance(a, ast.AnnAssign) and a.value is None):
                    out |= _target_names(a.target)
            elif isinstance(a, (ast.FunctionDef, ast.AsyncFunctionDef, ast.ClassDef)):
                out.add(a.name)
            elif isinstance(a, (ast.Import, ast.ImportFrom)):
                for al in a.names:
                    out.add((al.asname or al.name).split(".")[0])
            for w in walk_no_nested(a):
                if isinstance(w, ast.NamedExpr):
                    out |= _target_names(w.target)
        elif n.kind == "for":
            out |= _target_names(a.target)
        elif n.kind == "with":
            for it in a.items:
                if it.optional_vars is not None:
                    out |= _target_names(it.optional_vars)
        elif n.kind == "except":
            if a.name:
                out.add(a.name)
        elif n.kind == "test":
            for w in walk_no_nested(a):
                if isinstance(w, ast.NamedExpr):
                    out |= _target_names(w.target)
        return out

    def reaching_defs(self, skip_labels: Iterable[str] = ()) -> Dict[int, Dict[str, Set[int]]]:
        """IN sets: node id -> var -> set of defining node ids."""
        skip = set(skip_labels)
        gen = {n.id: self.defs_of(n) for n in self.nodes}
        IN: Dict[int, Dict[str, Set[int]]] = {n.id: {} for n in self.nodes}
        OUT: Dict[int, Dict[str, Set[int]]] = {n.id: {} for n in self.nodes}
        work = [n.id for n in self.nodes]
        while work:
            n = work.pop(0)
            new_in: Dict[str, Set[int]] = {}
            for p, lab in self.pred[n]:
                if lab in skip:
                    continue
                for v, ds in OUT[p].items():
                    new_in.setdefault(v, set()).update(ds)
            IN[n] = new_in
            new_out = {v: set(ds) for v, ds in new_in.items()}
            for v in gen[n]:
                new_out[v] = {n}
            if new_out != OUT[n]:
                OUT[n] = new_out
                for s, lab in self.succ[n]:
                    if lab not in skip and s not in work:
                        work.append(s)
        return IN


def _catches_everything(h: ast.ExceptHandler) -> bool:
    if h.type is None:
        return True
    names = []
    t = h.type
    elts = t.elts if isinstance(t, ast.Tuple) else [t]
    for e in elts:
        if isinstance(e, ast.Name):
            names.append(e.id)
        elif isinstance(e, ast.Attribute):
            names.append(e.attr)
    return "BaseException" in names


def _target_names(t) -> Set[str]:
    out: Set[str] = set()
    if isinstance(t, ast.Name):
        out.add(t.id)
    elif isinstance(t, (ast.Tuple, ast.List)):
        for e in t.elts:
            out |= _target_names(e)
    elif isinstance(t, ast.Starred):
        out |= _target_names(t.value)
    return out


def handler_names(h: ast.ExceptHandler) -> List[str]:
    if h.type is None:
        return ["BaseException"]
    t = h.type
    elts = t.elts if isinstance(t, ast.Tuple) else [t]
    out = []
    for e in elts:
        if isinstance(e, ast.Name):
            out.append(e.id)
        elif isinstance(e, ast.Attribute):
            out.append(e.attr)
        else:
            out.append("?")
    return out


_cache: Dict[int, CFG] = {}


def cfg_of(func_node) -> CFG:
    c = _cache.get(id(func_node))
    if c is None or c.func is not func_node:
        c = CFG(func_node)
        _cache[id(func_node)] = c
    return c
