"""E8: evaluator for small pure functions over a *finite* set of abstract
inputs (constant propagation over a finite domain, not execution of pandera:
only the constructs listed here are interpreted; anything else is `Unknown`).

Values: python constants (str/bool/None/int), tuples/lists/sets of them,
``Enum(cls, member)``, ``Obj(cls, fields)`` for constructor calls of indexed
classes / unknown callees, and ``Unknown``."""

from __future__ import annotations

import ast
from typing import Any, Callable, Dict, Optional

from .index import dotted


class Unknown:
    def __init__(self, why=""):
        self.why = why

    def __repr__(self):
        return f"Unknown({self.why})"


class Enum:
    def __init__(self, cls, member):
        self.cls, self.member = cls, member

    def __eq__(self, o):
        return isinstance(o, Enum) and (self.cls, self.member) == (o.cls, o.member)

    def __hash__(self):
        return hash((self.cls, self.member))

    def __repr__(self):
        return f"{self.cls}.{self.member}"


class Obj:
    def __init__(self, cls, fields):
        self.cls, self.fields = cls, fields

    def __repr__(self):
        return f"{self.cls}({self.fields})"


class Sym:
    """An unresolved dotted name (e.g. ``pl.DataFrame``) kept symbolically."""

    def __init__(self, name):
        self.name = name

    def __eq__(self, o):
        return isinstance(o, Sym) and o.name == self.name

    def __hash__(self):
        return hash(self.name)

    def __repr__(self):
        return f"Sym({self.name})"


class Raised(Exception):
    def __init__(self, what):
        self.what = what


class _Continue(Exception):
    pass


class _Break(Exception):
    pass


class _Return(Exception):
    def __init__(self, v):
        self.v = v


class Evaluator:
    """`externals`: dotted callee name -> python callable(args, kwargs) -> value.
    `enums`: class name -> {member name: value}.
    `functions`: name -> ast.FunctionDef of helper functions that may be inlined."""

    def __init__(self, externals: Dict[str, Callable], enums: Dict[str, Dict[str, Any]],
                 functions: Optional[Dict[str, ast.FunctionDef]] = None,
                 globals_: Optional[Dict[str, Any]] = None):
        self.ext = externals
        self.enums = enums
        self.functions = functions or {}
        self.globals = globals_ or {}
        self.depth = 0
        self.yield_hook = None

    # -- function level ------------------------------------------------
    def call_function(self, fn: ast.FunctionDef, args, kwargs):
        if self.depth > 6:
            return Unknown("recursion")
        env = {}
        a = fn.args
        pos = a.posonlyargs + a.args
        defaults = dict(zip([x.arg for x in pos[len(pos) - len(a.defaults):]], a.defaults))
        for x, d in zip(a.kwonlyargs, a.kw_defaults):
            if d is not None:
                defaults[x.arg] = d
        for i, x in enumerate(pos):
            if i < len(args):
                env[x.arg] = args[i]
            elif x.arg in kwargs:
                env[x.arg] = kwargs[x.arg]
            elif x.arg in defaults:
                env[x.arg] = self.eval(defaults[x.arg], {})
            else:
                env[x.arg] = Unknown("missing arg")
        for x in a.kwonlyargs:
            if x.arg in kwargs:
                env[x.arg] = kwargs[x.arg]
            elif x.arg in defaults:
                env[x.arg] = self.eval(defaults[x.arg], {})
        self.depth += 1
        try:
            self.exec_block(fn.body, env)
        except _Return as r:
            return r.v
        finally:
            self.depth -= 1
        return None

    def exec_block(self, stmts, env):
        for s in stmts:
            self.exec_stmt(s, env)

    def exec_stmt(self, s, env):
        if isinstance(s, ast.Expr):
            if isinstance(s.value, ast.Constant):
                return
            if isinstance(s.value, ast.Yield):
                if self.yield_hook is not None and self.yield_hook(env) == "raise":
                    raise Raised("exception injected at yield")
                return
            self.eval(s.value, env)
        elif isinstance(s, ast.Assign):
            v = self.eval(s.value, env)
            for t in s.targets:
                self.assign(t, v, env)
        elif isinstance(s, ast.AnnAssign):
            if s.value is not None:
                self.assign(s.target, self.eval(s.value, env), env)
        elif isinstance(s, ast.Return):
            raise _Return(self.eval(s.value, env) if s.value is not None else None)
        elif isinstance(s, ast.If):
            c = self.eval(s.test, env)
            if isinstance(c, (Unknown, Sym)):
                raise _Return(Unknown(f"branch on unknown: {ast.unparse(s.test)}"))
            self.exec_block(s.body if self.truth(c) else s.orelse, env)
        elif isinstance(s, ast.Raise):
            raise Raised(ast.unparse(s.exc) if s.exc else "re-raise")
        elif isinstance(s, ast.Try):
            try:
                self.exec_block(s.body, env)
            except Raised:
                if s.handlers:
                    self.exec_block(s.handlers[0].body, env)
                else:
                    raise
            finally:
                if s.finalbody:
                    self.exec_block(s.finalbody, env)
        elif isinstance(s, ast.For):
            it = self.eval(s.iter, env)
            if isinstance(it, dict):
                it = tuple(it.items()) if getattr(s.iter, "func", None) is None else it
            if not isinstance(it, (tuple, list)):
                raise _Return(Unknown(f"for over {ast.unparse(s.iter)}"))
            broke = False
            for item in it:
                self.assign(s.target, item, env)
                try:
                    self.exec_block(s.body, env)
                except _Continue:
                    continue
                except _Break:
                    broke = True
                    break
            if not broke and s.orelse:
                self.exec_block(s.orelse, env)
        elif isinstance(s, ast.Continue):
            raise _Continue()
        elif isinstance(s, ast.Break):
            raise _Break()
        elif isinstance(s, ast.Pass):
            return
        elif isinstance(s, ast.Global):
            env.setdefault("__globals__", set()).update(s.names)
        elif isinstance(s, (ast.Import, ast.ImportFrom, ast.Nonlocal)):
            return
        else:
            raise _Return(Unknown(f"statement {type(s).__name__}"))

    def assign(self, t, v, env):
        if isinstance(t, ast.Name):
            if t.id in env.get("__globals__", ()):
                self.globals[t.id] = v
            else:
                env[t.id] = v
        elif isinstance(t, ast.Attribute):
            o = self.eval(t.value, env)
            if isinstance(o, Obj):
                o.fields[t.attr] = v
        elif isinstance(t, (ast.Tuple, ast.List)) and isinstance(v, (tuple, list)) and len(v) == len(t.elts):
            for a, b in zip(t.elts, v):
                self.assign(a, b, env)

    # -- expressions ----------------------------------------------------
    @staticmethod
    def truth(v):
        if isinstance(v, (Enum, Obj)):
            return True
        return bool(v)

    def eval(self, e, env):
        if isinstance(e, ast.Constant):
            return e.value
        if isinstance(e, ast.Name):
            if e.id in env:
                return env[e.id]
            if e.id in self.globals:
                return self.globals[e.id]
            if e.id in ("True", "False", "None"):
                return {"True": True, "False": False, "None": None}[e.id]
            return Sym(e.id)
        if isinstance(e, ast.Attribute):
            d = dotted(e)
            if d:
                parts = d.split(".")
                if len(parts) >= 2 and parts[-2] in self.enums and parts[-1] in self.enums[parts[-2]]:
                    return Enum(parts[-2], parts[-1])
                if d in self.globals:
                    return self.globals[d]
            o = self.eval(e.value, env)
            if isinstance(o, Obj):
                return o.fields.get(e.attr, Unknown(f"field {e.attr}"))
            if isinstance(o, Enum) and e.attr == "value":
                return self.enums[o.cls][o.member]
            if isinstance(o, Enum) and e.attr == "name":
                return o.member
            if d and isinstance(o, (Unknown, Sym)):
                return Sym(d)
            return Unknown(f"attr {ast.unparse(e)}")
        if isinstance(e, ast.BoolOp):
            v = None
            for x in e.values:
                v = self.eval(x, env)
                if isinstance(v, Sym):
                    v = Unknown(f"truth of {v.name}")
                if isinstance(v, Unknown):
                    return v
                if isinstance(e.op, ast.Or) and self.truth(v):
                    return v
                if isinstance(e.op, ast.And) and not self.truth(v):
                    return v
            return v
        if isinstance(e, ast.UnaryOp) and isinstance(e.op, ast.Not):
            v = self.eval(e.operand, env)
            if isinstance(v, Sym):
                v = Unknown(f"truth of {v.name}")
            return v if isinstance(v, Unknown) else (not self.truth(v))
        if isinstance(e, ast.IfExp):
            c = self.eval(e.test, env)
            if isinstance(c, Sym):
                c = Unknown(f"truth of {c.name}")
            if isinstance(c, Unknown):
                return c
            return self.eval(e.body if self.truth(c) else e.orelse, env)
        if isinstance(e, ast.Compare):
            left = self.eval(e.left, env)
            for op, r in zip(e.ops, e.comparators):
                right = self.eval(r, env)
                if isinstance(left, Unknown):
                    return left
                if isinstance(right, Unknown):
                    return right
                try:
                    if isinstance(op, ast.Eq):
                        ok = left == right
                    elif isinstance(op, ast.NotEq):
                        ok = left != right
                    elif isinstance(op, ast.Is):
                        ok = left is right or (isinstance(left, Enum) and left == right)
                    elif isinstance(op, ast.IsNot):
                        ok = not (left is right or (isinstance(left, Enum) and left == right))
                    elif isinstance(op, ast.In):
                        ok = left in right
                    elif isinstance(op, ast.NotIn):
                        ok = left not in right
                    else:
                        return Unknown("cmp op")
                except TypeError:
                    return Unknown("cmp type")
                if not ok:
                    return False
                left = right
            return True
        if isinstance(e, (ast.Tuple, ast.List, ast.Set)):
            vals = [self.eval(x, env) for x in e.elts]
            if any(isinstance(v, Unknown) for v in vals):
                return Unknown("elts")
            return tuple(vals) if not isinstance(e, ast.Set) else frozenset(vals)
        if isinstance(e, ast.Dict):
            out = {}
            for k, v in zip(e.keys, e.values):
                if k is None:
                    return Unknown("dict splat")
                out[self.eval(k, env)] = self.eval(v, env)
            return out
        if isinstance(e, ast.Subscript):
            o = self.eval(e.value, env)
            k = self.eval(e.slice, env)
            if isinstance(o, dict) and not isinstance(k, Unknown):
                if k in o:
                    return o[k]
                raise Raised("KeyError")
            d = dotted(e.value)
            if d and d.split(".")[-1] in self.enums and isinstance(k, str):
                cls = d.split(".")[-1]
                if k in self.enums[cls]:
                    return Enum(cls, k)
                raise Raised("KeyError")
            return Unknown("subscript")
        if isinstance(e, ast.Call):
            return self.eval_call(e, env)
        if isinstance(e, ast.JoinedStr):
            return Unknown("fstring")
        if isinstance(e, ast.NamedExpr):
            v = self.eval(e.value, env)
            self.assign(e.target, v, env)
            return v
        return Unknown(type(e).__name__)

    def eval_call(self, e: ast.Call, env):
        args = [self.eval(a, env) for a in e.args if not isinstance(a, ast.Starred)]
        kwargs = {k.arg: self.eval(k.value, env) for k in e.keywords if k.arg}
        d = dotted(e.func)
        if d in self.ext:
            return self.ext[d](args, kwargs)
        # string methods on concrete strings
        if isinstance(e.func, ast.Attribute):
            recv = self.eval(e.func.value, env)
            m = e.func.attr
            if isinstance(recv, str) and m in ("lower", "upper", "strip", "title", "capitalize", "casefold"):
                return getattr(recv, m)()
            if isinstance(recv, str) and m in ("startswith", "endswith") and args and isinstance(args[0], str):
                return getattr(recv, m)(args[0])
            if isinstance(recv, dict) and m == "get" and args and not isinstance(args[0], Unknown):
                return recv.get(args[0], args[1] if len(args) > 1 else None)
            if isinstance(recv, dict) and m == "items" and not args:
                return tuple(recv.items())
            if isinstance(recv, dict) and m in ("keys", "values") and not args:
                return tuple(getattr(recv, m)())
            if isinstance(recv, Unknown) and isinstance(e.func.value, ast.Name) is False:
                pass
        if d:
            last = d.split(".")[-1]
            if last in self.enums:  # Enum(value)
                if args and not isinstance(args[0], Unknown):
                    for mname, mval in self.enums[last].items():
                        if mval == args[0]:
                            return Enum(last, mname)
                    raise Raised(f"ValueError: {args[0]!r} is not a valid {last}")
                return Unknown("enum arg")
            if last in self.functions:
                return self.call_function(self.functions[last], args, kwargs)
            if last == "isinstance" and len(args) == 2:
                o, t = args
                ts = t if isinstance(t, tuple) else (t,)
                if isinstance(o, Obj) and all(isinstance(x, Sym) for x in ts):
                    return any(x.name == o.cls or x.name.split(".")[-1] == o.cls.split(".")[-1] for x in ts)
                return Unknown("isinstance")
            if last == "setattr" and len(args) == 3 and isinstance(args[0], Obj) and isinstance(args[1], str):
                args[0].fields[args[1]] = args[2]
                return None
            if last == "getattr" and len(args) >= 2 and isinstance(args[0], Obj) and isinstance(args[1], str):
                return args[0].fields.get(args[1], args[2] if len(args) > 2 else Unknown("attr"))
            if last == "bool" and len(args) == 1:
                return args[0] if isinstance(args[0], Unknown) else self.truth(args[0])
            if last == "str" and len(args) == 1 and isinstance(args[0], (str, bool, int)):
                return str(args[0])
            if last == "copy" and len(args) == 1:
                v = args[0]
                return Obj(v.cls, dict(v.fields)) if isinstance(v, Obj) else v
            if last and last[0].isupper():  # constructor of some class
                return Obj(last, {**{f"_{i}": a for i, a in enumerate(args)}, **kwargs})
        return Unknown(f"call {ast.unparse(e.func)}")


def enum_members(class_node: ast.ClassDef) -> Dict[str, Any]:
    out = {}
    for s in class_node.body:
        if isinstance(s, ast.Assign) and len(s.targets) == 1 and isinstance(s.targets[0], ast.Name):
            if isinstance(s.value, ast.Constant):
                out[s.targets[0].id] = s.value.value
    return out
