"""Definite assignment: which reads of a local may execute before any assignment to it (UnboundLocalError).

Forward may-analysis over the statement CFG: UNDEF(n) = locals that are possibly unassigned when n starts.  A node's
own definitions take effect on its normal out-edges only: an `exc` edge leaves a statement before its target is bound,
the `exhausted` edge of a `for` leaves the loop variable untouched when the iterable is empty.

Correlated guards are the classic source of false reports (`if c: x = ...` ... `if c: use(x)`), so a candidate is
discharged when the conditions under which it executes imply the conditions under which some assignment executed:
path conditions are compared as truth tables over guard atoms whose operands are not reassigned in the function."""

from __future__ import annotations

import ast
from typing import Dict, List, Set, Tuple

from .cfg import CFG, cfg_of, _target_names
from .index import walk_no_nested


def _locals(fn) -> Set[str]:
    out: Set[str] = set()
    declared: Set[str] = set()
    for n in walk_no_nested(fn):
        if isinstance(n, (ast.Global, ast.Nonlocal)):
            declared |= set(n.names)
        elif isinstance(n, ast.Name) and isinstance(n.ctx, (ast.Store, ast.Del)):
            out.add(n.id)
        elif isinstance(n, (ast.FunctionDef, ast.AsyncFunctionDef, ast.ClassDef)) and n is not fn:
            out.add(n.name)
        elif isinstance(n, (ast.Import, ast.ImportFrom)):
            for al in n.names:
                out.add((al.asname or al.name).split(".")[0])
        elif isinstance(n, ast.ExceptHandler) and n.name:
            out.add(n.name)
    # comprehension targets live in their own scope
    comp: Set[str] = set()
    for n in walk_no_nested(fn):
        if isinstance(n, (ast.ListComp, ast.SetComp, ast.DictComp, ast.GeneratorExp)):
            for g in n.generators:
                comp |= _target_names(g.target)
    stored_outside = set()
    for n in walk_no_nested(fn):
        if isinstance(n, ast.Name) and isinstance(n.ctx, ast.Store) and not _inside_comprehension_target(n):
            stored_outside.add(n.id)
    out = {v for v in out if v in stored_outside or v not in comp}
    a = fn.args
    params = {x.arg for x in a.posonlyargs + a.args + a.kwonlyargs}
    if a.vararg:
        params.add(a.vararg.arg)
    if a.kwarg:
        params.add(a.kwarg.arg)
    return out - declared - params


def _inside_comprehension_target(name_node) -> bool:
    p = getattr(name_node, "_parent", None)
    child = name_node
    while p is not None and not isinstance(p, (ast.stmt,)):
        if isinstance(p, ast.comprehension) and (child is p.target or _contains(p.target, name_node)):
            return True
        child, p = p, getattr(p, "_parent", None)
    return False


def _contains(root, node) -> bool:
    return any(x is node for x in ast.walk(root))


def _uses(node, cfgnode) -> List[ast.Name]:
    """Name loads evaluated when this CFG node executes (not inside lambdas / nested defs; comprehension-bound names excluded)"""
    a = cfgnode.ast
    if a is None:
        return []
    roots: List[ast.AST] = []
    k = cfgnode.kind
    if k == "stmt":
        if isinstance(a, (ast.FunctionDef, ast.AsyncFunctionDef, ast.ClassDef)):
            roots = list(a.decorator_list)
            if not isinstance(a, ast.ClassDef):
                roots += [d for d in a.args.defaults + a.args.kw_defaults if d is not None]
        else:
            roots = [a]
    elif k == "test":
        roots = [a]
    elif k == "for":
        roots = [a.iter]
    elif k == "with":
        roots = [it.context_expr for it in a.items]
    elif k == "except":
        roots = [a.type] if a.type is not None else []
    out: List[ast.Name] = []

    def visit(n, bound: frozenset):
        if isinstance(n, ast.Lambda) or isinstance(n, (ast.FunctionDef, ast.AsyncFunctionDef, ast.ClassDef)):
            return
        if isinstance(n, (ast.ListComp, ast.SetComp, ast.DictComp, ast.GeneratorExp)):
            b = set(bound)
            for i, g in enumerate(n.generators):
                visit(g.iter, frozenset(b))
                b |= _target_names(g.target)
                for c in g.ifs:
                    visit(c, frozenset(b))
            for fld in ("elt", "key", "value"):
                v = getattr(n, fld, None)
                if v is not None:
                    visit(v, frozenset(b))
            return
        if isinstance(n, ast.Name):
            if isinstance(n.ctx, ast.Load) and n.id not in bound:
                out.append(n)
            return
        if isinstance(n, ast.AugAssign) and isinstance(n.target, ast.Name):
            out.append(n.target)
        for c in ast.iter_child_nodes(n):
            visit(c, bound)

    for r in roots:
        visit(r, frozenset())
    return out


def undefined_in(cfg: CFG, locs: Set[str]) -> Dict[int, Set[str]]:
    IN: Dict[int, Set[str]] = {n.id: set() for n in cfg.nodes}
    OUTN: Dict[int, Set[str]] = {n.id: set() for n in cfg.nodes}
    IN[cfg.entry.id] = set(locs)
    OUTN[cfg.entry.id] = set(locs)
    gen = {n.id: cfg.defs_of(n) for n in cfg.nodes}
    dels = {}
    for n in cfg.nodes:
        d = set()
        if n.kind == "stmt" and isinstance(n.ast, ast.Delete):
            for t in n.ast.targets:
                if isinstance(t, ast.Name):
                    d.add(t.id)
        dels[n.id] = d
    work = [s for s, _ in cfg.succ[cfg.entry.id]]
    seen_once = set()
    while work:
        n = work.pop(0)
        new_in: Set[str] = set()
        for p, lab in cfg.pred[n]:
            node_p = cfg.nodes[p]
            if lab == "exc" or (node_p.kind == "for" and lab == "exhausted") or lab in ("fin-exc",):
                new_in |= IN[p] if lab == "exc" or node_p.kind == "for" else OUTN[p]
            else:
                new_in |= OUTN[p]
        new_out = (new_in - gen[n]) | dels[n]
        if new_in != IN[n] or new_out != OUTN[n] or n not in seen_once:
            seen_once.add(n)
            IN[n], OUTN[n] = new_in, new_out
            for s, _ in cfg.succ[n]:
                if s not in work:
                    work.append(s)
    return IN


def candidates(fn) -> List[Tuple[ast.Name, int]]:
    """(name node, cfg node id) of reads that may happen before any assignment, before guard correlation"""
    cfg = cfg_of(fn)
    locs = _locals(fn)
    if not locs:
        return []
    IN = undefined_in(cfg, locs)
    reach = cfg.reachable(cfg.entry.id)
    out = []
    for n in cfg.nodes:
        if n.id not in reach:
            continue
        for u in _uses(fn, n):
            if u.id in locs and u.id in IN[n.id]:
                out.append((u, n.id))
    return out


# ---------------------------------------------------------------------------------------------------------------------
# Branch-induced unboundness (the armed rule)
#
# `candidates` above is the pessimistic analysis.  Two of its sources are value-level invariants no static argument in
# reach can settle (`try: x = next(it) / except StopIteration: pass` where the iterator is known to be non-empty; a loop
# over a collection that is non-empty whenever the code after it runs), so the armed rule is optimistic about them:
# an exception edge carries the state *after* the statement, and the `exhausted` edge of a `for` carries the state of
# its back edges (the loop is assumed to have run once) when the body can complete.  What remains is unboundness caused
# by branching alone - a local assigned on some branches of an if/elif/match and read after the join.


def _atom_key(test, polarity):
    from .index import norm
    t = test
    while isinstance(t, ast.UnaryOp) and isinstance(t.op, ast.Not):
        t, polarity = t.operand, not polarity
    return norm(t), polarity


def _flow(cfg: CFG, locs: Set[str], skip_edges=frozenset()) -> Dict[int, Set[str]]:
    IN: Dict[int, Set[str]] = {n.id: set() for n in cfg.nodes}
    OUTN: Dict[int, Set[str]] = {n.id: set() for n in cfg.nodes}
    BACK: Dict[int, Set[str]] = {n.id: set() for n in cfg.nodes}
    visited: Set[int] = {cfg.entry.id}
    IN[cfg.entry.id] = set(locs)
    OUTN[cfg.entry.id] = set(locs)
    gen = {n.id: cfg.defs_of(n) for n in cfg.nodes}
    has_back = {n.id: any(lab == "back" for _, lab in cfg.pred[n.id]) for n in cfg.nodes}
    # a handler is assumed to run after the assignments of its try body (which statement raised is a value question)
    try_defs: Dict[int, Set[str]] = {}
    for tn in cfg.nodes:
        if tn.kind == "join" and isinstance(tn.ast, ast.Try):
            assigned: Set[str] = set()
            for st in tn.ast.body:
                for x in walk_no_nested(st):
                    if isinstance(x, ast.Name) and isinstance(x.ctx, ast.Store):
                        assigned.add(x.id)
            for h in tn.ast.handlers:
                hn = cfg.node_of(h)
                if hn is not None:
                    try_defs[hn.id] = assigned
    work = [s for s, lab in cfg.succ[cfg.entry.id] if (cfg.entry.id, lab) not in skip_edges]
    while work:
        n = work.pop(0)
        new_in: Set[str] = set()
        back_in: Set[str] = set()
        any_pred = False
        for p, lab in cfg.pred[n]:
            if p not in visited or (p, lab) in skip_edges:
                continue
            any_pred = True
            node_p = cfg.nodes[p]
            if node_p.kind == "for" and lab == "exhausted" and has_back[p]:
                val = BACK[p] - gen[p] if any(q in visited for q, l2 in cfg.pred[p] if l2 == "back") else None
                if val is None:
                    continue
            else:
                val = OUTN[p]
            new_in |= val
            if lab == "back":
                back_in |= OUTN[p]
        if not any_pred:
            continue
        if cfg.nodes[n].kind == "except":
            new_in -= try_defs.get(n, set())
        new_out = new_in - gen[n]
        if n not in visited or new_in != IN[n] or new_out != OUTN[n] or back_in != BACK[n]:
            visited.add(n)
            IN[n], OUTN[n], BACK[n] = new_in, new_out, back_in
            for s, lab in cfg.succ[n]:
                if (n, lab) not in skip_edges and s not in work:
                    work.append(s)
    IN["visited"] = visited  # type: ignore[index]
    return IN


def _stable_names(fn, test) -> bool:
    """operands of a guard atom keep their value between two evaluations: names that are parameters never reassigned,
    or locals with a single definition; attribute chains on them are assumed not to change under the analysed function"""
    names = {n.id for n in ast.walk(test) if isinstance(n, ast.Name)}
    counts: Dict[str, int] = {}
    for n in walk_no_nested(fn):
        if isinstance(n, ast.Name) and isinstance(n.ctx, ast.Store):
            counts[n.id] = counts.get(n.id, 0) + 1
    return all(counts.get(v, 0) <= 1 for v in names)


def maybe_unbound(fn) -> List[Tuple[ast.Name, int, str]]:
    """Reads of a local that some branch-only path reaches without an assignment.  (name node, cfg node id, reason)"""
    cfg = cfg_of(fn)
    locs = _locals(fn)
    if not locs:
        return []
    IN = _flow(cfg, locs)
    visited = IN["visited"]  # type: ignore[index]
    out = []
    tests_by_key: Dict[Tuple[str, bool], List[int]] = {}
    for n in cfg.nodes:
        if n.kind == "test" and isinstance(n.ast, ast.expr):
            for pol in (True, False):
                tests_by_key.setdefault(_atom_key(n.ast, pol), []).append(n.id)
            # conjuncts of `a and b` hold when the test is True; disjuncts of `a or b` fail when it is False
    for n in cfg.nodes:
        if n.id not in visited:
            continue
        for u in _uses(fn, n):
            if u.id not in locs or u.id not in IN[n.id]:
                continue
            # correlated guards: prune the edges that contradict the conditions under which this read executes
            skip = set()
            facts = set()
            for test, pol in cfg.guards(n.id):
                if not _stable_names(fn, test):
                    continue
                facts.add(_atom_key(test, pol))
                t = test
                if pol and isinstance(t, ast.BoolOp) and isinstance(t.op, ast.And):
                    facts |= {_atom_key(v, True) for v in t.values}
                if (not pol) and isinstance(t, ast.BoolOp) and isinstance(t.op, ast.Or):
                    facts |= {_atom_key(v, False) for v in t.values}
            for m in cfg.nodes:
                if m.kind != "test" or not isinstance(m.ast, ast.expr):
                    continue
                kt, kf = _atom_key(m.ast, True), _atom_key(m.ast, False)
                labels_true = "True"
                # the test is known to be true -> its False edge is infeasible (and vice versa)
                if kt in facts:
                    skip.add((m.id, "False"))
                elif kf in facts:
                    skip.add((m.id, "True"))
                else:
                    a = m.ast
                    # `a and b` is false when a known-false conjunct is present; `a or b` true with a known-true disjunct
                    if isinstance(a, ast.BoolOp) and isinstance(a.op, ast.And) and any(_atom_key(v, False) in facts for v in a.values):
                        skip.add((m.id, "True"))
                    if isinstance(a, ast.BoolOp) and isinstance(a.op, ast.Or) and any(_atom_key(v, True) in facts for v in a.values):
                        skip.add((m.id, "False"))
                    if isinstance(a, ast.BoolOp) and isinstance(a.op, ast.And) and all(_atom_key(v, True) in facts for v in a.values):
                        skip.add((m.id, "False"))
                    if isinstance(a, ast.BoolOp) and isinstance(a.op, ast.Or) and all(_atom_key(v, False) in facts for v in a.values):
                        skip.add((m.id, "True"))
            if skip:
                IN2 = _flow(cfg, locs, frozenset(skip))
                if n.id in IN2["visited"] and u.id not in IN2[n.id]:  # type: ignore[index]
                    continue
            if _accumulator_witness(fn, cfg, IN, n.id, u.id):
                continue
            out.append((u, n.id, "no assignment on some branch-only path from the function entry"))
    return out


_FILLERS = ("collect_error", "collect_errors", "append", "extend", "add", "update", "insert", "setdefault")


def _accumulator_witness(fn, cfg: CFG, IN, nid: int, var: str) -> bool:
    """The read executes only when a local accumulator is non-empty (`if acc:` / `if handler.schema_errors:`), the
    accumulator is created once, and every statement that fills it runs with `var` definitely assigned: a non-empty
    accumulator is then a witness that the assignment happened."""
    for test, pol in cfg.guards(nid):
        if not pol:
            continue
        for a in (test.values if isinstance(test, ast.BoolOp) and isinstance(test.op, ast.And) else [test]):
            base = a
            if isinstance(base, ast.Attribute):
                base = base.value
            if not isinstance(base, ast.Name):
                continue
            acc = base.id
            creations = [x for x in walk_no_nested(fn) if isinstance(x, ast.Name) and x.id == acc and isinstance(x.ctx, ast.Store)]
            if len(creations) != 1:
                continue
            fills = []
            for m in cfg.nodes:
                if m.ast is None or m.kind != "stmt":
                    continue
                for x in walk_no_nested(m.ast):
                    if isinstance(x, ast.Call) and isinstance(x.func, ast.Attribute) and isinstance(x.func.value, ast.Name) \
                            and x.func.value.id == acc and x.func.attr in _FILLERS:
                        fills.append(m.id)
                    elif isinstance(x, ast.Subscript) and isinstance(x.ctx, ast.Store) and isinstance(x.value, ast.Name) and x.value.id == acc:
                        fills.append(m.id)
            if fills and all(var not in IN[i] for i in fills):
                # the accumulator must not escape to code that could fill it elsewhere (passed as an argument)
                escaped = any(isinstance(x, ast.Call) and any(isinstance(g, ast.Name) and g.id == acc for g in list(x.args) + [k.value for k in x.keywords])
                              for x in walk_no_nested(fn))
                if not escaped:
                    return True
    return False


def check_modules(ctx, rule: str, prefixes, consequence: str, floor: int = 5):
    """Shared rule: no function of the given modules reads a local that a branch-only path leaves unassigned."""
    from .index import AnalysisError
    ix = ctx.ix
    n = 0
    first = None
    for m in ix.modules.values():
        if not any(m.path == p or (p.endswith("/") and m.path.startswith(p)) for p in prefixes):
            continue
        for f in m.all_functions:
            n += 1
            first = first or f
            seen = set()
            for u, nid, why in maybe_unbound(f.node):
                if u.id in seen:
                    continue
                seen.add(u.id)
                ctx.ob(rule, f, f"local `{u.id}` is assigned before it is read", False,
                       f"`{u.id}` (read at line {u.lineno}) has {why}: UnboundLocalError {consequence}", f.loc(u))
    if n < floor or first is None:
        raise AnalysisError(f"{rule}: only {n} functions found under {list(prefixes)}")
    ctx.ob(rule, first, f"no branch-only path reads an unassigned local ({', '.join(prefixes)})", True, f"{n} functions analysed")
    ctx.stats[f"definite_assignment_functions_{rule}"] = n
