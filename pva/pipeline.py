"""Shared analysis of the "core checks" / "core parsers" pipelines of the
schema backends (the `for fn, args in core_checks: results = fn(*args)` loops)."""

from __future__ import annotations

import ast
from typing import Dict, List, Optional, Tuple

from .cfg import cfg_of
from .index import AnalysisError, FuncInfo, function_stmts, walk_no_nested
from .roles import callable_list_loops, list_element_args, self_method
from .util import bool_atoms, callee_last, calls_in, enclosing_stmt, kw, path_condition, show_condition, txt


def is_check_loop(loop: ast.For) -> bool:
    return any(isinstance(n, ast.Attribute) and n.attr == "passed" for b in loop.body for n in ast.walk(b))


def check_pipelines(ix, cls) -> List[Tuple[FuncInfo, ast.For, List[ast.expr], str]]:
    out = []
    for lst in cls.methods.values():
        for f in lst:
            for loop, fns, lname in callable_list_loops(f):
                if is_check_loop(loop):
                    out.append((f, loop, fns, lname))
    return out


def parser_pipelines(ix, cls):
    out = []
    for lst in cls.methods.values():
        for f in lst:
            for loop, fns, lname in callable_list_loops(f):
                if not is_check_loop(loop):
                    out.append((f, loop, fns, lname))
    return out


def builds_schema_error_results(func: FuncInfo) -> bool:
    """Does this producer construct CoreCheckResult(schema_error=<not None>)?"""
    for c in calls_in(func.node, nested=True):
        if callee_last(c) == "CoreCheckResult":
            v = kw(c, "schema_error")
            if v is not None and not (isinstance(v, ast.Constant) and v.value is None):
                return True
            if len(c.args) >= 8:
                return True
    return False


def no_dropped_result(ctx, rule, f: FuncInfo, loop: ast.For, producers: List[FuncInfo]):
    """From the failing branch of `result.passed`, every path to the next
    iteration passes error_handler.collect_error; a branch that bypasses it is
    accepted only if it is provably dead (no producer can build the value it
    tests for)."""
    cfg = cfg_of(f.node)
    inner = None
    for n in ast.walk(loop):
        if isinstance(n, ast.For) and n is not loop and any(
                isinstance(x, ast.Attribute) and x.attr == "passed" for b in n.body for x in ast.walk(b)):
            inner = n
            break
    if inner is None:
        ctx.ob(rule, f, "results of the core checks are inspected", False, "no loop over the results testing .passed")
        return
    collects = [c for c in calls_in(inner) if callee_last(c) in ("collect_error", "collect_errors")]
    if not collects:
        ctx.ob(rule, f, "failed core-check results are collected", False,
               "no error_handler.collect_error in the result loop: every failed check is dropped")
        return
    head = cfg.node_of(inner)
    cnodes = {cfg.node_of(enclosing_stmt(c)).id for c in collects}
    # find the `.passed` test
    tests = [n for n in cfg.nodes if n.kind == "test" and n.ast is not None and any(
        isinstance(x, ast.Attribute) and x.attr == "passed" for x in ast.walk(n.ast)) and _inside(n.ast, inner)]
    if not tests:
        ctx.ob(rule, f, "results are tested for .passed", False, "no test of result.passed")
        return
    t = tests[0]
    # which label is the failing branch?
    pol = True
    e = t.ast
    while isinstance(e, ast.UnaryOp) and isinstance(e.op, ast.Not):
        e, pol = e.operand, not pol
    fail_label = "False" if pol else "True"
    starts = [b for b, lab in cfg.succ[t.id] if lab == fail_label]
    bypass = None
    for s in starts:
        if s in cnodes:
            continue
        p = cfg.must_pass(s, {head.id}, cnodes, skip_labels=("exc", "fin-exc"))
        if p is not None or s == head.id:
            bypass = p or [s]
    # the skipping branch must be taken for passed results only
    skip_label = "True" if pol else "False"
    skip_starts = [b for b, lab in cfg.succ[t.id] if lab == skip_label]
    atoms = sorted(bool_atoms(t.ast))
    only_passed = len(atoms) == 1 and "passed" in atoms[0]
    if not only_passed:
        ctx.ob(rule, f, f"only passed results of {f.short} skip collect_error", False,
               f"results are skipped under `{txt(t.ast)}`, not only when they passed: failed results matching the extra "
               "condition are dropped from the report", f.loc(t.ast))
        return
    if bypass is None:
        ctx.ob(rule, f, f"every failed result of {f.short} reaches collect_error", True,
               "must-pass-through holds from the failing branch of result.passed to the next iteration")
        return
    # a bypass exists: is it guarded by `result.schema_error is not None` and dead?
    cn = next(iter(cnodes))
    pc = path_condition(cfg, cn, keep=lambda tt, n: "schema_error" in tt)
    bypass_on_schema_error = bool(pc[0]) and all("schema_error" in n for n in pc[0])
    live = [p.short for p in producers if builds_schema_error_results(p)]
    if bypass_on_schema_error and not live:
        ctx.ob(rule, f, f"every failed result of {f.short} reaches collect_error", True,
               f"collect_error is skipped only when result.schema_error is set ({show_condition(pc)}), and no producer "
               f"of this pipeline ({[p.short for p in producers]}) constructs CoreCheckResult(schema_error=...)")
    else:
        why = (f"producers {live} build CoreCheckResult(schema_error=...) whose errors are then dropped"
               if bypass_on_schema_error else "path: " + " -> ".join(f"L{cfg.nodes[i].lineno}" for i in bypass if cfg.nodes[i].lineno))
        ctx.ob(rule, f, f"every failed result of {f.short} reaches collect_error", False,
               "a failed core-check result can reach the next iteration without collect_error; " + why,
               f.loc(inner))


def _inside(node, root) -> bool:
    from .index import parent
    while node is not None:
        if node is root:
            return True
        node = parent(node)
    return False


def resolve_stage(ix, cls, expr) -> Optional[FuncInfo]:
    return self_method(ix, cls, expr)
