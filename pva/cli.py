"""./check <ID> [--tier quick|thorough] [--replay path]"""

from __future__ import annotations

import argparse
import importlib
import json
import os
import sys
import time
import traceback

from .index import AnalysisError, Index
from .report import Ctx, finish

PROPS = [f"C{i:02d}" for i in range(1, 21)]


def run_property(prop: str, tier: str, ix: Index = None, write_evidence=True, quiet=False, seed=0):
    t0 = time.time()
    mod = importlib.import_module(f"pva.props.{prop.lower()}")
    if ix is None:
        ix = Index()
    ctx = Ctx(prop, ix, tier)
    mod.run(ctx)
    extra = None
    if tier == "thorough" and write_evidence and os.environ.get("PVA_NO_THOROUGH_EXTRA") != "1":
        from .thorough import thorough_extra
        extra = thorough_extra(prop, ctx)
        if not quiet:
            w, sl = extra["witnesses"], extra["silence"]
            print(f"{prop} [thorough] witnesses: {w['breaking_detected']}/{w['breaking_applied']} breaking edits reported, "
                  f"{w['twins_silent']}/{w['twins_applied']} twins silent; silence under refactoring: {sl['silent']} variants silent, "
                  f"{sl['false-alarm']} false alarms, {sl['analysis-error']} analysis errors ({len(sl['files'])} files x {len(sl['transforms'])} transforms)")
            for pr in (w["missed"] + w["false_alarms"] + sl["problems"])[:10]:
                print("   checker self-test:", pr)
    rc = finish(ctx, getattr(mod, "FLOORS", {}), mod.EXPLANATION, mod.LEVEL_RULE, t0, seed,
                write_evidence=write_evidence, extra_cov=extra, quiet=quiet)
    return rc, ctx


def main(argv=None):
    ap = argparse.ArgumentParser()
    ap.add_argument("prop")
    ap.add_argument("--tier", default=os.environ.get("VERIF_TIER", "quick"))
    ap.add_argument("--replay")
    ap.add_argument("--no-evidence", action="store_true")
    a = ap.parse_args(argv)
    seed = int(os.environ.get("VERIF_SEED", "0") or 0)
    prop = a.prop.upper()
    tier = a.tier if a.tier in ("quick", "thorough") else "quick"
    try:
        if a.replay:
            with open(a.replay) as fh:
                want = json.load(fh)
            rc, ctx = run_property(prop, tier, write_evidence=False, quiet=True, seed=seed)
            hit = [o for o in ctx.obs if not o.ok and o.rule == want["rule"]
                   and o.func == want["function"] and o.construct == want["construct"]]
            if hit:
                o = hit[0]
                print(f"  {o.rule} {o.loc} {o.func}\n    construct: {o.construct}\n    {o.detail}")
                print(f"VIOLATION property={prop} replay={a.replay}")
                return 1
            print(f"replay: obligation {want['rule']} / {want['function']} no longer violated")
            return 0
        rc, _ = run_property(prop, tier, write_evidence=not a.no_evidence, seed=seed)
        return rc
    except AnalysisError as e:
        print(f"ANALYSIS-ERROR property={prop}: {e}")
        return 2
    except Exception as e:  # never let a traceback look like a violation
        print(f"ANALYSIS-ERROR property={prop}: internal error {type(e).__name__}: {e}")
        traceback.print_exc()
        return 2


if __name__ == "__main__":
    sys.exit(main())
