"""Small AST helpers shared by the rule modules."""

from __future__ import annotations

import ast
from typing import Iterator, List, Optional

from .index import dotted, norm, parent, walk_no_nested


def calls_in(node, pred=None, nested=False) -> Iterator[ast.Call]:
    it = ast.walk(node) if nested else walk_no_nested(node)
    for n in it:
        if isinstance(n, ast.Call) and (pred is None or pred(n)):
            yield n


def callee_last(call: ast.Call) -> Optional[str]:
    f = call.func
    if isinstance(f, ast.Attribute):
        return f.attr
    if isinstance(f, ast.Name):
        return f.id
    return None


def kw(call: ast.Call, name: str) -> Optional[ast.expr]:
    for k in call.keywords:
        if k.arg == name:
            return k.value
    return None


def has_splat(call: ast.Call) -> bool:
    return any(k.arg is None for k in call.keywords) or any(isinstance(a, ast.Starred) for a in call.args)


def arg(call: ast.Call, pos: int, name: str) -> Optional[ast.expr]:
    """Argument passed for parameter (#pos, name) if determinable."""
    v = kw(call, name)
    if v is not None:
        return v
    if pos is not None and pos < len(call.args) and not any(isinstance(a, ast.Starred) for a in call.args[: pos + 1]):
        return call.args[pos]
    return None


def is_const(node, value) -> bool:
    return isinstance(node, ast.Constant) and node.value is value or (
        isinstance(node, ast.Constant) and node.value == value and type(node.value) is type(value))


def names_in(node) -> set:
    return {n.id for n in ast.walk(node) if isinstance(n, ast.Name)}


def attr_chain(node) -> Optional[List[str]]:
    d = dotted(node)
    return d.split(".") if d else None


def enclosing(node, types):
    p = parent(node)
    while p is not None and not isinstance(p, types):
        p = parent(p)
    return p


def enclosing_stmt(node):
    while node is not None and not isinstance(node, ast.stmt):
        node = parent(node)
    return node


def in_subtree(node, root) -> bool:
    while node is not None:
        if node is root:
            return True
        node = parent(node)
    return False


def strip_not(e):
    """(expr, polarity) with leading `not`s removed."""
    pol = True
    while isinstance(e, ast.UnaryOp) and isinstance(e.op, ast.Not):
        e = e.operand
        pol = not pol
    return e, pol


def conjuncts(e, pol=True):
    """Atoms (expr, polarity) that must hold when `e` has truth value `pol`
    (only the sound direction: and-true, or-false)."""
    e, p = strip_not(e)
    pol = pol if p else not pol
    if isinstance(e, ast.BoolOp):
        if isinstance(e.op, ast.And) and pol:
            out = []
            for v in e.values:
                out += conjuncts(v, True)
            return out
        if isinstance(e.op, ast.Or) and not pol:
            out = []
            for v in e.values:
                out += conjuncts(v, False)
            return out
    return [(e, pol)]


def guard_atoms(cfg, nid):
    out = []
    for test, pol in cfg.guards(nid):
        out += conjuncts(test, pol)
    return out


def txt(node) -> str:
    return norm(node)


# ---- boolean path conditions, compared by truth table ---------------------------
def bool_atoms(e, out=None):
    """Atomic propositions (normalised text -> node) of a boolean expression."""
    if out is None:
        out = {}
    if isinstance(e, ast.BoolOp):
        for v in e.values:
            bool_atoms(v, out)
    elif isinstance(e, ast.UnaryOp) and isinstance(e.op, ast.Not):
        bool_atoms(e.operand, out)
    else:
        t, _ = canon_atom(e)
        out.setdefault(t, e)
    return out


def canon_atom(e):
    """(canonical text, polarity) of an atomic proposition: `x is not None`,
    `x != y`, `x not in y` are negative forms of `x is None`, `x == y`, `x in y`;
    `pd.isna(x)` / `pd.notna(x)` are read as `x is None` / its negation."""
    pol = True
    if isinstance(e, ast.Compare) and len(e.ops) == 1:
        op = e.ops[0]
        l, r = norm(e.left), norm(e.comparators[0])
        if isinstance(op, ast.IsNot):
            return f"{l} is {r}", False
        if isinstance(op, ast.Is):
            return f"{l} is {r}", True
        if isinstance(op, ast.NotEq):
            return f"{l} == {r}", False
        if isinstance(op, ast.NotIn):
            return f"{l} in {r}", False
    if isinstance(e, ast.Call):
        d = dotted(e.func) or ""
        if d.split(".")[-1] in ("isna", "isnull") and len(e.args) == 1 and d.split(".")[0] in ("pd", "pandas", "np", "numpy"):
            return f"{norm(e.args[0])} is None", True
        if d.split(".")[-1] in ("notna", "notnull") and len(e.args) == 1 and d.split(".")[0] in ("pd", "pandas", "np", "numpy"):
            return f"{norm(e.args[0])} is None", False
    return norm(e), pol


def eval_bool(e, assign) -> bool:
    if isinstance(e, ast.BoolOp):
        vals = [eval_bool(v, assign) for v in e.values]
        return all(vals) if isinstance(e.op, ast.And) else any(vals)
    if isinstance(e, ast.UnaryOp) and isinstance(e.op, ast.Not):
        return not eval_bool(e.operand, assign)
    t, pol = canon_atom(e)
    v = assign[t]
    return v if pol else not v


def path_condition(cfg, nid, keep=None, rename=None):
    """Canonical form of the condition under which node `nid` is reached:
    (sorted atom names, frozenset of satisfying assignments as bit tuples),
    over the atoms accepted by `keep(text, node)`; other atoms are projected
    out existentially.  Two guards written differently (if-form vs early
    exit, De Morgan variants, `is not None` vs `not ... is None`) compare equal."""
    tests = cfg.guards(nid)
    atoms = {}
    for t, _ in tests:
        bool_atoms(t, atoms)
    names = sorted(atoms)
    if len(names) > 14:
        raise ValueError("too many atoms in path condition")
    kept = [n for n in names if keep is None or keep(n, atoms[n])]
    shown = [rename(n) if rename else n for n in kept]
    sat = set()
    for bits in range(1 << len(names)):
        a = {names[i]: bool(bits >> i & 1) for i in range(len(names))}
        if all(eval_bool(t, a) == pol for t, pol in tests):
            sat.add(tuple(a[n] for n in kept))
    order = sorted(range(len(shown)), key=lambda i: shown[i])
    shown_sorted = tuple(shown[i] for i in order)
    sat_sorted = frozenset(tuple(s[i] for i in order) for s in sat)
    # drop atoms the condition does not depend on
    dep = []
    for i in range(len(shown_sorted)):
        flip = {s[:i] + (not s[i],) + s[i + 1:] for s in sat_sorted}
        if flip != set(sat_sorted):
            dep.append(i)
    names2 = tuple(shown_sorted[i] for i in dep)
    sat2 = frozenset(tuple(s[i] for i in dep) for s in sat_sorted)
    return names2, sat2


def show_condition(pc) -> str:
    names, sat = pc
    if not names:
        return "always" if sat else "never"
    terms = []
    for s in sorted(sat):
        terms.append(" and ".join((n if v else f"not({n})") for n, v in zip(names, s)))
    return " OR ".join(f"[{t}]" for t in terms)
