"""Small AST helpers shared by the rule modules."""

from __future__ import annotations

import ast
from typing import Iterator, List, Optional

from .index import dotted, norm, parent, walk_no_nested


def clone(node):
    """Deep copy of an AST subtree that does not follow the `_parent` back pointers set by the index
    (copy.deepcopy would copy the whole module through them)."""
    if isinstance(node, ast.AST):
        new = node.__class__()
        for name, value in ast.iter_fields(node):
            setattr(new, name, clone(value))
        for attr in ("lineno", "col_offset", "end_lineno", "end_col_offset"):
            if hasattr(node, attr):
                setattr(new, attr, getattr(node, attr))
        return new
    if isinstance(node, list):
        return [clone(x) for x in node]
    return node


def calls_in(node, pred=None, nested=False) -> Iterator[ast.Call]:
    it = ast.walk(node) if nested else walk_no_nested(node)
    for n in it:
        if isinstance(n, ast.Call) and (pred is None or pred(n)):
            yield n


def callee_last(call: ast.Call) -> Optional[str]:
    f = call.func
    if isinstance(f, ast.Attribute):
        return f.attr
    if isinstance(f, ast.Name):
        return f.id
    return None


def kw(call: ast.Call, name: str) -> Optional[ast.expr]:
    for k in call.keywords:
        if k.arg == name:
            return k.value
    return None


def has_splat(call: ast.Call) -> bool:
    return any(k.arg is None for k in call.keywords) or any(isinstance(a, ast.Starred) for a in call.args)


def arg(call: ast.Call, pos: int, name: str) -> Optional[ast.expr]:
    """Argument passed for parameter (#pos, name) if determinable."""
    v = kw(call, name)
    if v is not None:
        return v
    if pos is not None and pos < len(call.args) and not any(isinstance(a, ast.Starred) for a in call.args[: pos + 1]):
        return call.args[pos]
    return None


def is_const(node, value) -> bool:
    return isinstance(node, ast.Constant) and node.value is value or (
        isinstance(node, ast.Constant) and node.value == value and type(node.value) is type(value))


def names_in(node) -> set:
    return {n.id for n in ast.walk(node) if isinstance(n, ast.Name)}


def attr_chain(node) -> Optional[List[str]]:
    d = dotted(node)
    return d.split(".") if d else None


def enclosing(node, types):
    p = parent(node)
    while p is not None and not isinstance(p, types):
        p = parent(p)
    return p


def enclosing_stmt(node):
    while node is not None and not isinstance(node, ast.stmt):
        node = parent(node)
    return node


def in_subtree(node, root) -> bool:
    while node is not None:
        if node is root:
            return True
        node = parent(node)
    return False


def strip_not(e):
    """(expr, polarity) with leading `not`s removed."""
    pol = True
    while isinstance(e, ast.UnaryOp) and isinstance(e.op, ast.Not):
        e = e.operand
        pol = not pol
    return e, pol


def conjuncts(e, pol=True):
    """Atoms (expr, polarity) that must hold when `e` has truth value `pol`
    (only the sound direction: and-true, or-false)."""
    e, p = strip_not(e)
    pol = pol if p else not pol
    if isinstance(e, ast.BoolOp):
        if isinstance(e.op, ast.And) and pol:
            out = []
            for v in e.values:
                out += conjuncts(v, True)
            return out
        if isinstance(e.op, ast.Or) and not pol:
            out = []
            for v in e.values:
                out += conjuncts(v, False)
            return out
    return [(e, pol)]


def guard_atoms(cfg, nid):
    out = []
    for test, pol in cfg.guards(nid):
        out += conjuncts(test, pol)
    return out


def txt(node) -> str:
    return norm(node)


# ---- boolean path conditions, compared by truth table ---------------------------
def bool_atoms(e, out=None):
    """Atomic propositions (normalised text -> node) of a boolean expression."""
    if out is None:
        out = {}
    if isinstance(e, ast.BoolOp):
        for v in e.values:
            bool_atoms(v, out)
    elif isinstance(e, ast.UnaryOp) and isinstance(e.op, ast.Not):
        bool_atoms(e.operand, out)
    else:
        t, _ = canon_atom(e)
        out.setdefault(t, e)
    return out


def canon_atom(e):
    """(canonical text, polarity) of an atomic proposition: `x is not None`,
    `x != y`, `x not in y` are negative forms of `x is None`, `x == y`, `x in y`;
    `pd.isna(x)` / `pd.notna(x)` are read as `x is None` / its negation."""
    pol = True
    if isinstance(e, ast.Compare) and len(e.ops) == 1:
        op = e.ops[0]
        l, r = norm(e.left), norm(e.comparators[0])
        if isinstance(op, ast.IsNot):
            return f"{l} is {r}", False
        if isinstance(op, ast.Is):
            return f"{l} is {r}", True
        if isinstance(op, ast.NotEq):
            a, b = sorted((l, r))
            return f"{a} == {b}", False
        if isinstance(op, ast.NotIn):
            return f"{l} in {r}", False
        if isinstance(op, ast.Eq):
            a, b = sorted((l, r))
            return f"{a} == {b}", True
        if isinstance(op, ast.Gt):
            return f"{r} < {l}", True
        if isinstance(op, ast.GtE):
            return f"{r} <= {l}", True
    if isinstance(e, ast.Call):
        d = dotted(e.func) or ""
        if d.split(".")[-1] in ("isna", "isnull") and len(e.args) == 1 and d.split(".")[0] in ("pd", "pandas", "np", "numpy"):
            return f"{norm(e.args[0])} is None", True
        if d.split(".")[-1] in ("notna", "notnull") and len(e.args) == 1 and d.split(".")[0] in ("pd", "pandas", "np", "numpy"):
            return f"{norm(e.args[0])} is None", False
    return norm(e), pol


def eval_bool(e, assign) -> bool:
    if isinstance(e, ast.BoolOp):
        vals = [eval_bool(v, assign) for v in e.values]
        return all(vals) if isinstance(e.op, ast.And) else any(vals)
    if isinstance(e, ast.UnaryOp) and isinstance(e.op, ast.Not):
        return not eval_bool(e.operand, assign)
    t, pol = canon_atom(e)
    v = assign[t]
    return v if pol else not v


def ifexp_guards(node, stop=None):
    """(test, polarity) of the conditional expressions `node` sits in, up to the statement `stop` (or its own statement):
    the guards a statement-level path condition does not see (`x.dropna() if flag else x`)"""
    out, child, p = [], node, getattr(node, "_parent", None)
    while p is not None and child is not stop and not isinstance(child, ast.stmt):
        if isinstance(p, ast.IfExp) and child is not p.test:
            out.append((p.test, child is p.body))
        child, p = p, getattr(p, "_parent", None)
    return out


def path_condition(cfg, nid, keep=None, rename=None, expand=None, extra=None):
    """Canonical form of the condition under which node `nid` is reached:
    (sorted atom names, frozenset of satisfying assignments as bit tuples),
    over the atoms accepted by `keep(text, node)`; other atoms are projected
    out existentially.  Two guards written differently (if-form vs early
    exit, De Morgan variants, `is not None` vs `not ... is None`) compare equal."""
    tests = list(cfg.guards(nid)) + list(extra or ())   # `extra`: (test, polarity) of enclosing conditional expressions
    if expand is not None:
        # atoms are read through the local definitions (`passed` -> `check_result.check_passed`): independent of local names
        tests = [(expand.expand(t), pol) for t, pol in tests]
    atoms = {}
    for t, _ in tests:
        bool_atoms(t, atoms)
    names = sorted(atoms)
    if len(names) > 14:
        raise ValueError("too many atoms in path condition")
    kept = [n for n in names if keep is None or keep(n, atoms[n])]
    shown = [rename(n) if rename else n for n in kept]
    sat = set()
    for bits in range(1 << len(names)):
        a = {names[i]: bool(bits >> i & 1) for i in range(len(names))}
        if all(eval_bool(t, a) == pol for t, pol in tests):
            sat.add(tuple(a[n] for n in kept))
    order = sorted(range(len(shown)), key=lambda i: shown[i])
    shown_sorted = tuple(shown[i] for i in order)
    sat_sorted = frozenset(tuple(s[i] for i in order) for s in sat)
    # drop atoms the condition does not depend on
    dep = []
    for i in range(len(shown_sorted)):
        flip = {s[:i] + (not s[i],) + s[i + 1:] for s in sat_sorted}
        if flip != set(sat_sorted):
            dep.append(i)
    names2 = tuple(shown_sorted[i] for i in dep)
    sat2 = frozenset(tuple(s[i] for i in dep) for s in sat_sorted)
    return names2, sat2


def show_condition(pc) -> str:
    names, sat = pc
    if not names:
        return "always" if sat else "never"
    terms = []
    for s in sorted(sat):
        terms.append(" and ".join((n if v else f"not({n})") for n, v in zip(names, s)))
    return " OR ".join(f"[{t}]" for t in terms)


# ---- local definitions ---------------------------------------------------------------
def local_defs(func_node, name):
    """Values assigned to plain local `name` anywhere in the function (not nested scopes)."""
    out = []
    for n in walk_no_nested(func_node):
        if isinstance(n, ast.Assign) and len(n.targets) == 1 and isinstance(n.targets[0], ast.Name) and n.targets[0].id == name:
            out.append(n.value)
        elif isinstance(n, ast.AnnAssign) and isinstance(n.target, ast.Name) and n.target.id == name and n.value is not None:
            out.append(n.value)
    return out


def resolve_local(func_node, node, depth=4):
    """Follow `name` -> its unique local definition (up to `depth` hops); other nodes are returned unchanged."""
    seen = 0
    while isinstance(node, ast.Name) and seen < depth:
        defs = local_defs(func_node, node.id)
        if len(defs) != 1:
            break
        node = defs[0]
        seen += 1
    return node


class _Subst(ast.NodeTransformer):
    def __init__(self, mapping):
        self.mapping = mapping

    def visit_Name(self, node):
        if node.id in self.mapping:
            return ast.Name(id=self.mapping[node.id], ctx=node.ctx)
        return node


def alpha(node, mapping):
    """Copy of `node` with plain names renamed according to `mapping`."""
    import copy as _copy
    return _Subst(mapping).visit(clone(node))


def ifexp_chain(node, mapping=None):
    """Decision chain of a nested conditional expression: [(condition text | None, value text)], names alpha-renamed."""
    out = []
    while isinstance(node, ast.IfExp):
        t, b = node.test, node.body
        if mapping:
            t, b = alpha(t, mapping), alpha(b, mapping)
        ct, pol = canon_atom(strip_not(t)[0])
        pol = pol == strip_not(t)[1]
        out.append(((ct if pol else f"not({ct})"), norm(b)))
        node = node.orelse
    out.append((None, norm(alpha(node, mapping) if mapping else node)))
    return out


class Expander:
    """Def-use expansion inside one function: a plain local that has exactly one definition in the
    function (and is not a parameter) is replaced by that definition, recursively.  Rules that ask
    "what value reaches this position" are thereby independent of how many temporaries a developer used."""

    def __init__(self, func_node, max_depth=8):
        self.fn = func_node
        self.max_depth = max_depth
        self.defs = {}
        a = func_node.args
        self.params = {x.arg for x in a.posonlyargs + a.args + a.kwonlyargs}
        if a.vararg:
            self.params.add(a.vararg.arg)
        if a.kwarg:
            self.params.add(a.kwarg.arg)
        multi = set()
        for n in walk_no_nested(func_node):
            if isinstance(n, ast.Assign):
                for t in n.targets:
                    if isinstance(t, ast.Name):
                        self.defs.setdefault(t.id, []).append(n.value)
                    else:
                        for x in ast.walk(t):
                            if isinstance(x, ast.Name) and isinstance(x.ctx, ast.Store):
                                multi.add(x.id)
            elif isinstance(n, ast.AnnAssign) and isinstance(n.target, ast.Name) and n.value is not None:
                self.defs.setdefault(n.target.id, []).append(n.value)
            elif isinstance(n, (ast.AugAssign,)) and isinstance(n.target, ast.Name):
                multi.add(n.target.id)
            elif isinstance(n, (ast.For, ast.AsyncFor, ast.comprehension)):
                for x in ast.walk(n.target):
                    if isinstance(x, ast.Name):
                        multi.add(x.id)
            elif isinstance(n, (ast.With, ast.AsyncWith)):
                for it in n.items:
                    if it.optional_vars is not None:
                        for x in ast.walk(it.optional_vars):
                            if isinstance(x, ast.Name):
                                multi.add(x.id)
            elif isinstance(n, ast.ExceptHandler) and n.name:
                multi.add(n.name)
            elif isinstance(n, ast.NamedExpr) and isinstance(n.target, ast.Name):
                multi.add(n.target.id)
        # values stored *into* a local container: name[k] = v, name.append(v), name.update(v) ...
        self.flows = {}
        for n in walk_no_nested(func_node):
            if isinstance(n, ast.Assign):
                for t in n.targets:
                    if isinstance(t, (ast.Subscript, ast.Attribute)) and isinstance(t.value, ast.Name):
                        self.flows.setdefault(t.value.id, []).append(n.value)
            elif isinstance(n, ast.Call) and isinstance(n.func, ast.Attribute) and isinstance(n.func.value, ast.Name) \
                    and n.func.attr in ("append", "extend", "update", "add", "insert", "setdefault"):
                for a in list(n.args) + [k.value for k in n.keywords]:
                    self.flows.setdefault(n.func.value.id, []).append(a)
        for m in multi | self.params:
            self.defs.pop(m, None)
        # a local that is filled after its definition (appends / item stores) is not equal to its initial value
        self.unique = {k: v[0] for k, v in self.defs.items() if len(v) == 1 and k not in self.flows}

    def expand(self, node, _depth=0, _stack=()):
        import copy as _copy
        if node is None:
            return None
        ex = self

        class T(ast.NodeTransformer):
            def visit_Name(self, n):
                if isinstance(n.ctx, ast.Load) and n.id in ex.unique and n.id not in _stack and _depth < ex.max_depth:
                    return ex.expand(ex.unique[n.id], _depth + 1, _stack + (n.id,))
                return n

        return T().visit(clone(node))

    def text(self, node) -> str:
        return norm(self.expand(node))

    def closure(self, node):
        """Every expression that may flow into `node` through local definitions (all definitions of a
        multiply-defined local are followed): the may-derive-from closure."""
        out, seen, todo = [], set(), [node]
        while todo:
            d = todo.pop()
            out.append(d)
            for n in ast.walk(d):
                if isinstance(n, ast.Name) and isinstance(n.ctx, ast.Load) and n.id not in seen and (n.id in self.defs or n.id in self.flows):
                    seen.add(n.id)
                    todo += self.defs.get(n.id, []) + self.flows.get(n.id, [])
        return out


def assignment_leaves(func_node, name, mapping=None):
    """Decision structure of the values a plain local may take: {(frozenset of (condition text, polarity)), value text}
    reconstructed from if/else statements and conditional expressions; names alpha-renamed through `mapping`."""
    out = set()

    def cond_key(t):
        t = alpha(t, mapping) if mapping else t
        e, pol = strip_not(t)
        ct, p2 = canon_atom(e)
        return (ct, pol == p2)

    def expr_leaves(e, conds):
        if isinstance(e, ast.IfExp):
            k = cond_key(e.test)
            expr_leaves(e.body, conds | {k})
            expr_leaves(e.orelse, conds | {(k[0], not k[1])})
        else:
            out.add((frozenset(conds), norm(alpha(e, mapping) if mapping else e)))

    def walk(stmts, conds):
        for s in stmts:
            if isinstance(s, ast.Assign) and len(s.targets) == 1 and isinstance(s.targets[0], ast.Name) and s.targets[0].id == name:
                expr_leaves(s.value, conds)
            elif isinstance(s, ast.AnnAssign) and isinstance(s.target, ast.Name) and s.target.id == name and s.value is not None:
                expr_leaves(s.value, conds)
            elif isinstance(s, ast.If):
                k = cond_key(s.test)
                walk(s.body, conds | {k})
                walk(s.orelse, conds | {(k[0], not k[1])})
            elif isinstance(s, (ast.For, ast.While, ast.With, ast.Try)):
                for fld in ("body", "orelse", "finalbody"):
                    walk(getattr(s, fld, []) or [], conds)
                for h in getattr(s, "handlers", []) or []:
                    walk(h.body, conds)

    walk(func_node.body, frozenset())
    return out


class _CanonCompare(ast.NodeTransformer):
    """`a > b` -> `b < a`, `a >= b` -> `b <= a`; operands of == / != ordered by text (pure operands only)."""

    def visit_Compare(self, node):
        self.generic_visit(node)
        if len(node.ops) != 1:
            return node
        l, r, op = node.left, node.comparators[0], node.ops[0]
        pure = lambda e: isinstance(e, (ast.Name, ast.Constant)) or (isinstance(e, ast.Attribute) and pure(e.value))
        if not (pure(l) and pure(r)):
            return node
        if isinstance(op, ast.Gt):
            return ast.Compare(left=r, ops=[ast.Lt()], comparators=[l])
        if isinstance(op, ast.GtE):
            return ast.Compare(left=r, ops=[ast.LtE()], comparators=[l])
        if isinstance(op, (ast.Eq, ast.NotEq)) and norm(r) < norm(l):
            return ast.Compare(left=r, ops=[op], comparators=[l])
        return node


def canon_function_text(fn_node, keep_params=True) -> str:
    """Text of a function that is invariant under renaming of its locals, docstring edits and operand order of
    pure comparisons (the module-level normaliser has already removed single-use temporaries, else-after-return, ...)."""
    import copy as _copy
    fn = clone(fn_node)
    if fn.body and isinstance(fn.body[0], ast.Expr) and isinstance(fn.body[0].value, ast.Constant) and isinstance(fn.body[0].value.value, str):
        fn.body = fn.body[1:] or [ast.Pass()]
    a = fn.args
    params = [x.arg for x in a.posonlyargs + a.args + a.kwonlyargs] + ([a.vararg.arg] if a.vararg else []) + ([a.kwarg.arg] if a.kwarg else [])
    mapping = {}
    for n in ast.walk(fn):
        name = None
        if isinstance(n, ast.Name) and isinstance(n.ctx, (ast.Store, ast.Del)):
            name = n.id
        elif isinstance(n, ast.ExceptHandler) and n.name:
            name = n.name
        elif isinstance(n, ast.arg) and n.arg not in params:
            name = n.arg
        if name and name not in mapping and name not in params:
            mapping[name] = f"_v{len(mapping)}"
    if not keep_params:
        for i, p in enumerate(params):
            if p not in ("self", "cls"):
                mapping[p] = f"_p{i}"
    for n in ast.walk(fn):
        if isinstance(n, ast.Name) and n.id in mapping:
            n.id = mapping[n.id]
        elif isinstance(n, ast.ExceptHandler) and n.name in mapping:
            n.name = mapping[n.name]
        elif isinstance(n, ast.arg) and n.arg in mapping:
            n.arg = mapping[n.arg]
    fn = _CanonCompare().visit(fn)
    ast.fix_missing_locations(fn)
    return ast.unparse(fn)


def canonical_locals(func_node):
    """Names for the locals a developer may rename freely, derived from what they *are*:
    loop variables by the iterable they range over (KEY_/VAL_/ELEM_<iterable>), accumulator lists / dicts by the
    keyword of the call they finally flow into (ACC_<keyword>).  Unique-definition locals are handled by Expander."""
    ex = Expander(func_node)
    mapping = {}

    def ident(e):
        t = norm(ex.expand(e))
        return "".join(ch if ch.isalnum() else "_" for ch in t).strip("_")

    for n in walk_no_nested(func_node):
        if isinstance(n, (ast.For, ast.AsyncFor)):
            it = n.iter
            if isinstance(it, ast.Call) and isinstance(it.func, ast.Attribute) and it.func.attr == "items" and isinstance(n.target, ast.Tuple) \
                    and len(n.target.elts) == 2 and all(isinstance(t, ast.Name) for t in n.target.elts):
                base = ident(it.func.value)
                mapping.setdefault(n.target.elts[0].id, f"KEY_{base}")
                mapping.setdefault(n.target.elts[1].id, f"VAL_{base}")
            elif isinstance(n.target, ast.Name):
                mapping.setdefault(n.target.id, f"ELEM_{ident(it)}")
    # accumulators: locals initialised with an empty container that appear as (part of) a keyword argument later on
    accs = {name for name, defs in ex.defs.items() if len(defs) == 1 and isinstance(defs[0], (ast.List, ast.Dict, ast.Set)) and
            not (getattr(defs[0], "elts", None) or getattr(defs[0], "keys", None))}
    for n in walk_no_nested(func_node):
        if isinstance(n, ast.Call):
            for k in n.keywords:
                if k.arg:
                    for x in ast.walk(k.value):
                        if isinstance(x, ast.Name) and x.id in accs and x.id not in mapping:
                            mapping[x.id] = f"ACC_{k.arg}"
    return mapping


def decision_function(func_node, name, mapping=None, value_expr=None):
    """Semantic form of the value a plain local `name` ends up with: a table {assignment of the atomic propositions it
    depends on -> value text}, obtained by evaluating the if/else statements and conditional expressions that assign it
    under every truth assignment.  `X if X is None ...` and `None if X is None ...` are the same function: under an
    assignment where `<v> is None` holds, the value text `None` is written as `<v>`.  Returns (atom names, table)."""
    stmts = func_node.body if value_expr is None else []
    atoms = {}

    def collect_expr(e):
        if isinstance(e, ast.IfExp):
            bool_atoms(alpha(e.test, mapping) if mapping else e.test, atoms)
            collect_expr(e.body)
            collect_expr(e.orelse)

    def assigns_name(block):
        return any(isinstance(x, ast.Assign) and len(x.targets) == 1 and isinstance(x.targets[0], ast.Name) and x.targets[0].id == name
                   for s in block for x in ast.walk(s))

    def collect(block):
        for s in block:
            if isinstance(s, ast.Assign) and len(s.targets) == 1 and isinstance(s.targets[0], ast.Name) and s.targets[0].id == name:
                collect_expr(s.value)
            elif isinstance(s, ast.If) and (assigns_name(s.body) or assigns_name(s.orelse)):
                bool_atoms(alpha(s.test, mapping) if mapping else s.test, atoms)
                collect(s.body)
                collect(s.orelse)
            elif isinstance(s, (ast.For, ast.While, ast.With, ast.Try)):
                for fld in ("body", "orelse", "finalbody"):
                    collect(getattr(s, fld, []) or [])
                for h in getattr(s, "handlers", []) or []:
                    collect(h.body)

    if value_expr is not None:
        collect_expr(value_expr)
    else:
        collect(stmts)
    names = sorted(atoms)
    if len(names) > 10:
        raise ValueError("too many atoms in decision function")

    def ev_expr(e, a):
        while isinstance(e, ast.IfExp):
            t = alpha(e.test, mapping) if mapping else e.test
            e = e.body if eval_bool(t, a) else e.orelse
        return norm(alpha(e, mapping) if mapping else e)

    def run(block, a, cur):
        for s in block:
            if isinstance(s, ast.Assign) and len(s.targets) == 1 and isinstance(s.targets[0], ast.Name) and s.targets[0].id == name:
                cur = ev_expr(s.value, a)
            elif isinstance(s, ast.If) and (assigns_name(s.body) or assigns_name(s.orelse)):
                t = alpha(s.test, mapping) if mapping else s.test
                cur = run(s.body if eval_bool(t, a) else s.orelse, a, cur)
            elif isinstance(s, (ast.For, ast.While, ast.With, ast.Try)):
                for fld in ("body", "orelse", "finalbody"):
                    cur = run(getattr(s, fld, []) or [], a, cur)
        return cur

    table = {}
    for bits in range(1 << len(names)):
        a = {names[i]: bool(bits >> i & 1) for i in range(len(names))}
        v = ev_expr(value_expr, a) if value_expr is not None else run(stmts, a, None)
        if v == "None":
            for n_, val in a.items():
                if val and n_.endswith(" is None"):
                    v = n_[: -len(" is None")]
                    break
        table[tuple(a[n_] for n_ in names)] = v
    # project away atoms the value does not depend on
    dep = [i for i in range(len(names)) if any(table[k] != table[k[:i] + (not k[i],) + k[i + 1:]] for k in table)]
    proj = {}
    for k, v in table.items():
        proj[tuple(k[i] for i in dep)] = v
    return tuple(names[i] for i in dep), proj


def boolean_verdict(func_node):
    """(atom names, {assignment -> bool}) of a function whose body is a decision of `return <boolean expression>`
    statements (guards, early `return False`, nested ifs); None when some path does not end in such a return."""
    atoms = {}

    def collect(block):
        for s in block:
            if isinstance(s, ast.If):
                bool_atoms(s.test, atoms)
                collect(s.body)
                collect(s.orelse)
            elif isinstance(s, ast.Return) and s.value is not None and not isinstance(s.value, ast.Constant):
                bool_atoms(s.value, atoms)

    collect(func_node.body)
    names = sorted(atoms)
    if len(names) > 10:
        return None

    class _NoVerdict(Exception):
        pass

    def run(block, a):
        for s in block:
            if isinstance(s, ast.Expr) and isinstance(s.value, ast.Constant):
                continue
            if isinstance(s, ast.Return):
                if s.value is None:
                    raise _NoVerdict
                if isinstance(s.value, ast.Constant):
                    return bool(s.value.value)
                return eval_bool(s.value, a)
            if isinstance(s, ast.If):
                r = run(s.body if eval_bool(s.test, a) else s.orelse, a)
                if r is not None:
                    return r
                continue
            raise _NoVerdict
        return None

    table = {}
    try:
        for bits in range(1 << len(names)):
            a = {names[i]: bool(bits >> i & 1) for i in range(len(names))}
            r = run(func_node.body, a)
            if r is None:
                return None
            table[tuple(a[n] for n in names)] = r
    except _NoVerdict:
        return None
    return tuple(names), table


def same_module_helpers(ix, f, depth=2):
    """f followed by the private helpers it calls that live next to it: nested functions, module-level `_helpers` of the
    same module and `self._method` / `cls._method` of the same class (transitively, bounded).  A block that a refactoring
    moved into such a helper still belongs to the function for every rule that asks "does this function ever ..."."""
    out, todo, seen = [f], [(f, 0)], {f.qual}
    while todo:
        g, d = todo.pop(0)
        if d >= depth:
            continue
        for c in calls_in(g.node, nested=True):
            h = None
            if isinstance(c.func, ast.Name):
                h = g.nested.get(c.func.id) or (g.parent.nested.get(c.func.id) if getattr(g, "parent", None) is not None else None)
                if h is None and c.func.id.startswith("_"):
                    h = g.module.functions.get(c.func.id)
            elif isinstance(c.func, ast.Attribute) and isinstance(c.func.value, ast.Name) and c.func.value.id in ("self", "cls") \
                    and c.func.attr.startswith("_") and not c.func.attr.startswith("__") and g.cls is not None:
                h = g.cls.lookup(c.func.attr) if hasattr(g.cls, "lookup") else None
                if h is not None and h.module is not g.module:
                    h = None
            if h is not None and h.qual not in seen:
                seen.add(h.qual)
                out.append(h)
                todo.append((h, d + 1))
    return out
