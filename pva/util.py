"""Small AST helpers shared by the rule modules."""

from __future__ import annotations

import ast
from typing import Iterator, List, Optional

from .index import dotted, norm, parent, walk_no_nested


def calls_in(node, pred=None, nested=False) -> Iterator[ast.Call]:
    it = ast.walk(node) if nested else walk_no_nested(node)
    for n in it:
        if isinstance(n, ast.Call) and (pred is None or pred(n)):
            yield n


def callee_last(call: ast.Call) -> Optional[str]:
    f = call.func
    if isinstance(f, ast.Attribute):
        return f.attr
    if isinstance(f, ast.Name):
        return f.id
    return None


def kw(call: ast.Call, name: str) -> Optional[ast.expr]:
    for k in call.keywords:
        if k.arg == name:
            return k.value
    return None


def has_splat(call: ast.Call) -> bool:
    return any(k.arg is None for k in call.keywords) or any(isinstance(a, ast.Starred) for a in call.args)


def arg(call: ast.Call, pos: int, name: str) -> Optional[ast.expr]:
    """Argument passed for parameter (#pos, name) if determinable."""
    v = kw(call, name)
    if v is not None:
        return v
    if pos is not None and pos < len(call.args) and not any(isinstance(a, ast.Starred) for a in call.args[: pos + 1]):
        return call.args[pos]
    return None


def is_const(node, value) -> bool:
    return isinstance(node, ast.Constant) and node.value is value or (
        isinstance(node, ast.Constant) and node.value == value and type(node.value) is type(value))


def names_in(node) -> set:
    return {n.id for n in ast.walk(node) if isinstance(n, ast.Name)}


def attr_chain(node) -> Optional[List[str]]:
    d = dotted(node)
    return d.split(".") if d else None


def enclosing(node, types):
    p = parent(node)
    while p is not None and not isinstance(p, types):
        p = parent(p)
    return p


def enclosing_stmt(node):
    while node is not None and not isinstance(node, ast.stmt):
        node = parent(node)
    return node


def in_subtree(node, root) -> bool:
    while node is not None:
        if node is root:
            return True
        node = parent(node)
    return False


def strip_not(e):
    """(expr, polarity) with leading `not`s removed."""
    pol = True
    while isinstance(e, ast.UnaryOp) and isinstance(e.op, ast.Not):
        e = e.operand
        pol = not pol
    return e, pol


def conjuncts(e, pol=True):
    """Atoms (expr, polarity) that must hold when `e` has truth value `pol`
    (only the sound direction: and-true, or-false)."""
    e, p = strip_not(e)
    pol = pol if p else not pol
    if isinstance(e, ast.BoolOp):
        if isinstance(e.op, ast.And) and pol:
            out = []
            for v in e.values:
                out += conjuncts(v, True)
            return out
        if isinstance(e.op, ast.Or) and not pol:
            out = []
            for v in e.values:
                out += conjuncts(v, False)
            return out
    return [(e, pol)]


def guard_atoms(cfg, nid):
    out = []
    for test, pol in cfg.guards(nid):
        out += conjuncts(test, pol)
    return out


def txt(node) -> str:
    return norm(node)
