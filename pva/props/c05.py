"""C05 - schemas are observationally immutable."""

from __future__ import annotations

import ast

from ..effprops import api_entries, chain, consistent_flavour, dedupe, engine, site_loc
from ..index import AnalysisError, dotted, walk_no_nested
from ..util import callee_last, calls_in, txt

EXPLANATION = (
    "Static who-may-write analysis (E5 effect engine, nothing executed). (R1) every write site that can reach the "
    "receiver schema / check / dtype / model class from an observer entry point - validate, __call__, coerce_dtype, "
    "to_yaml/to_json/to_script, serialize_schema, statistics extraction, strategy/example, __repr__/__str__/__eq__, "
    "properties, to_schema, Check.__call__, DataType.check/coerce/try_coerce - is classified; it must be FRESH "
    "(not an effect), INIT (object under construction), RESTORED (saved before and re-assigned in a finally) or "
    "MEMO (write-once registry/cache slot). (R2) object.__setattr__ on frozen DataType instances only in "
    "__init__/__post_init__. (R3) values obtained from to_schema()/the model cache are deep-copied before being "
    "written. (R4) the schema transformation methods have no effect on their receiver at all. (R5) no schema class "
    "aliases its state dict in __setstate__ (copy.copy must not share __dict__). (R6) hidden state outside the schema: "
    "config_context, which polars validate enters on every call, restores the outer configuration in a finally. (R7) an instance attribute re-bound from a registry during validation (Check._check_fn) is re-bound only under a test of its current value, so a user function that shares its name with a built-in is never replaced. " 
    "NOT decided: verdict "
    "stability on probe frames; mutations performed by user callbacks."
    " (R8) no method of a check backend (subclasses of BaseCheckBackend, pyspark excluded) outside __init__ assigns, augments, deletes or setattr-s through `self.check` - the backend is built per call around the schema's own Check object, and the dynamic get_backend dispatch hides such writes from the effect engine."
)
LEVEL_RULE = "one obligation per write site reaching a shared schema/check/dtype object from an observer entry"
FLOORS = {"R1": 10, "R2": 4, "R3": 1, "R4": 10, "R5": 1, "R6": 1, "R7": 1}

OBSERVER_METHODS = ["__repr__", "__str__", "__eq__", "properties", "dtypes", "get_dtypes", "get_metadata", "strategy",
                    "example", "strategy_component", "to_yaml", "to_json", "to_script", "coerce_dtype", "validate",
                    "__call__", "_validate", "_allow_groupby", "selector", "names"]
TRANSFORMS = ["add_columns", "remove_columns", "update_column", "update_columns", "rename_columns", "select_columns",
              "set_index", "reset_index", "update_checks", "set_checks"]
SCHEMA_CLASSES = [
    "pandera/api/pandas/container.py::DataFrameSchema", "pandera/api/pandas/array.py::SeriesSchema",
    "pandera/api/pandas/components.py::Column", "pandera/api/pandas/components.py::Index",
    "pandera/api/pandas/components.py::MultiIndex", "pandera/api/polars/container.py::DataFrameSchema",
    "pandera/api/polars/components.py::Column",
]
FUNC_ENTRIES = [  # module-level observers: (function qual, parameter position of the observed object)
    ("pandera/io/pandas_io.py::to_yaml", 0), ("pandera/io/pandas_io.py::to_json", 0),
    ("pandera/io/pandas_io.py::to_script", 0), ("pandera/io/pandas_io.py::serialize_schema", 0),
    ("pandera/schema_statistics/pandas.py::get_dataframe_schema_statistics", 0),
    ("pandera/schema_statistics/pandas.py::get_series_schema_statistics", 0),
    ("pandera/schema_statistics/pandas.py::get_index_schema_statistics", 0),
    ("pandera/schema_statistics/pandas.py::parse_checks", 0),
]


def observer_entries(ix):
    """(label, function, root parameter name, flavour)"""
    out = []
    for q in SCHEMA_CLASSES:
        c = ix.cls(q)
        fl = "polars" if "/polars/" in q else "pandas"
        for m in OBSERVER_METHODS:
            f = c.lookup(m)
            if f is not None and f.positional:
                out.append((f"{c.name}.{m}", f, f.positional[0], fl))
    for q, pos in FUNC_ENTRIES:
        f = ix.func(q)
        out.append((f.short, f, f.positional[pos], "pandas"))
    for q in ("pandera/api/checks.py::Check", "pandera/api/hypotheses.py::Hypothesis", "pandera/api/parsers.py::Parser"):
        c = ix.cls(q)
        f = c.lookup("__call__")
        if f is None:
            raise AnalysisError(f"{q}.__call__ missing")
        out.append((f"{c.name}.__call__", f, "self", None))
    model = ix.cls("pandera/api/dataframe/model.py::DataFrameModel")
    for k in [model] + model.all_subclasses():
        if "pyspark" in k.module.path:
            continue
        for m in ("to_schema", "validate", "to_yaml", "to_json_schema", "strategy", "example", "get_metadata"):
            for f in k.methods.get(m, []):
                if f.positional:
                    out.append((f"{k.name}.{m}", f, f.positional[0], None))
    dt = ix.cls("pandera/dtypes.py::DataType")
    for k in [dt] + dt.all_subclasses():
        if "pyspark" in k.module.path:
            continue
        for m in ("check", "coerce", "try_coerce", "coerce_value", "__str__", "__repr__", "__hash__", "__eq__"):
            for f in k.methods.get(m, []):
                out.append((f"{k.name}.{m}", f, "self", None))
    return out


def r1_who_may_write(ctx):
    ix = ctx.ix
    eng = engine(ix)
    sites = {}   # (site func, text) -> dict(kinds, entries, example effect)
    n_entries = 0
    for label, f, root, fl in observer_entries(ix):
        n_entries += 1
        ctx.touched(f)
        for e in eng.summary(f).effects:
            if e.root != ("P", root):
                continue
            if not consistent_flavour(e, fl):
                continue
            k = (e.site[0], e.site[2])
            d = sites.setdefault(k, {"kinds": set(), "entries": set(), "eff": e, "paths": set()})
            d["kinds"].add(e.kind)
            d["entries"].add(label)
            d["paths"].add("".join(f".{p}" for p in e.path[:3]))
            if len(e.via) < len(d["eff"].via):
                d["eff"] = e
    ctx.stats["observer_entries"] = n_entries
    ctx.stats["write_sites_reaching_shared_objects"] = len(sites)
    for (sf, text), d in sorted(sites.items()):
        kinds = d["kinds"]
        bad = kinds - {"init", "memo", "restored", "idempotent"}
        ok = not bad
        e = d["eff"]
        why = {"write": "plain write", "restored-unsafe": "temporary override whose restore is not in a finally (lost if validation raises)",
               "rebind": "global rebinding"}
        ctx.ob("R1", sf, f"write `{text}`", ok,
               (f"classified {sorted(kinds)}" if ok else
                f"{'; '.join(why.get(b, b) for b in sorted(bad))}: mutates the observed object at "
                f"{sorted(d['paths'])[:3]} when reached from {sorted(d['entries'])[:4]}; call path: {chain(e) or 'direct'}"),
               site_loc(e))


def r2_frozen(ctx):
    ix = ctx.ix
    for m in ix.modules.values():
        if not (m.path.startswith("pandera/engines/") or m.path == "pandera/dtypes.py") or "pyspark" in m.path:
            continue
        for f in m.all_functions:
            for c in calls_in(f.node):
                if dotted(c.func) == "object.__setattr__" and c.args:
                    tgt = txt(c.args[0])
                    fld = c.args[1].value if len(c.args) > 1 and isinstance(c.args[1], ast.Constant) else "?"
                    ok = f.name in ("__init__", "__post_init__", "__new__") and tgt == "self"
                    ctx.ob("R2", f, f"object.__setattr__({tgt}, {fld!r}, ...)", ok,
                           "during construction" if ok else
                           f"a frozen dtype instance is rewritten in {f.short}: equality/hash of a dtype held by schemas changes after use",
                           f.loc(c))


def r3_cache(ctx):
    """to_schema() results / MODEL_CACHE entries are never written through without a deepcopy."""
    ix = ctx.ix
    eng = engine(ix)
    n = 0
    for f in eng.funcs:
        if "pyspark" in f.module.path:
            continue
        has = any(callee_last(c) == "to_schema" for c in calls_in(f.node))
        if not has:
            continue
        n += 1
        bad = []
        for e in eng.summary(f).effects:
            if e.site[0] != f.qual and not e.site[0].startswith(f.qual + ".<"):
                continue   # writes performed by callees are classified by R1 at their own site
            if "__schema__" in e.path and e.path[-1] != "__schema__" and e.kind in ("write", "restored-unsafe"):
                bad.append(e)
            if e.root[0] == "G" and "MODEL_CACHE" in e.root[1] and len(e.path) > 1 and e.kind == "write":
                bad.append(e)
        ctx.ob("R3", f, f"{f.short}: cached model schema is not written through", not bad,
               "no write below cls.__schema__ / MODEL_CACHE[...]" if not bad else
               "; ".join(f"`{b.site[2]}` at {site_loc(b)}" for b in bad[:3]))
    ctx.stats["functions_using_to_schema"] = n


def r4_transforms(ctx):
    ix = ctx.ix
    eng = engine(ix)
    seen = set()
    for q in SCHEMA_CLASSES:
        c = ix.cls(q)
        for m in TRANSFORMS:
            f = c.lookup(m)
            if f is None or f.qual in seen:
                continue
            seen.add(f.qual)
            ctx.touched(f)
            effs = [e for e in eng.summary(f).effects if e.root == ("P", "self") and e.kind not in ("init", "memo", "idempotent")
                    and consistent_flavour(e, "polars" if "/polars/" in q else "pandas")]
            effs = dedupe(effs)
            ctx.ob("R4", f, f"{f.short} leaves its receiver unchanged", not effs,
                   "no write reaches self" if not effs else
                   "; ".join(f"`{e.site[2]}` ({site_loc(e)}) writes self{''.join('.' + p for p in e.path[:3])}" for e in effs[:3]))


def r5_setstate(ctx):
    """copy.copy() of a schema must not share the attribute dict with the original."""
    from ..effects import aliasing_setstate
    ix = ctx.ix
    n = 0
    for name, lst in ix.methods_by_name.items():
        if name != "__setstate__":
            continue
        for f in lst:
            if "pyspark" in f.module.path or not f.module.path.startswith("pandera/api/"):
                continue
            n += 1
            bad = aliasing_setstate(f)
            ctx.ob("R5", f, f"{f.short} does not alias the state dict", not bad,
                   "state is copied / merged" if not bad else
                   "`self.__dict__ = state`: copy.copy(obj) passes obj.__dict__ itself as state, so the copy and the original "
                   "share one attribute dict - update_checks()/set_checks() (copy.copy + assignment) modify their receiver")
    if n == 0:
        ctx.ob("R5", "pandera/api", "no custom __setstate__ on schema classes", True, "default copy protocol")


def r7_registry_rebinding_is_guarded_by_the_value(ctx):
    """Re-binding an instance attribute from a registry while validating (`self._check_fn = <registry>[self.name]`, done so
    that newly registered signatures are picked up) leaves the schema observationally unchanged only if the attribute held a
    value from that registry in the first place.  The guard therefore has to test the attribute's current value (`isinstance
    (self._check_fn, Dispatcher)`, `self._check_fn is ...`): a guard on the *name* alone replaces a user's own check function
    that merely shares its name with a built-in (def in_range(s): ...) by the built-in on first use."""
    from ..cfg import cfg_of
    from ..util import enclosing_stmt
    ix = ctx.ix
    eng = engine(ix)
    seen = set()
    n = 0
    for q, sm in sorted(eng.summaries.items()):
        for e in sm.effects:
            if e.kind != "memo" or e.site in seen:
                continue
            f = ix.funcs.get(e.site[0])
            if f is None or f.cls is None or not f.module.path.startswith("pandera/api/"):
                continue
            seen.add(e.site)
            for st in walk_no_nested(f.node):
                if isinstance(st, ast.Assign) and st.lineno == e.site[1] and len(st.targets) == 1 and isinstance(st.targets[0], ast.Attribute) \
                        and txt(st.targets[0].value) == "self":
                    n += 1
                    attr = st.targets[0].attr
                    cfg = cfg_of(f.node)
                    node = cfg.node_of(st)
                    guards = [txt(t) for t, _ in (cfg.guards(node.id) if node is not None else [])]
                    ok = any(f"self.{attr}" in g for g in guards)
                    ctx.ob("R7", f, f"{f.short}: `{txt(st)[:60]}` re-binds a value that came from the registry", ok,
                           f"guarded by {guards}" if ok else
                           f"guards {guards} test the name only, not the current `self.{attr}`: Check(fn) with a user function called like a built-in (def in_range(s): ...) has its "
                           "function replaced by the built-in at the first validation - the user's check never runs and the schema differs from its snapshot", f.loc(st))
    ctx.stats["registry_rebindings"] = n
    if n < 1:
        raise AnalysisError("no registry re-binding of an instance attribute found (expected Check.__call__)")


def r8_check_backends_never_write_the_check(ctx):
    """A check backend is created per call around the schema's own Check object (`self.check`).  Whatever it has to remember
    while it prepares the data belongs to the backend or to locals: a store through `self.check` changes the shared check -
    the schema no longer equals its snapshot and later verdicts depend on the history (Hypothesis.groups, written while a
    Series is validated, restricts the groups of every later grouped validation).  Decided: in every subclass of
    BaseCheckBackend no assignment / augmented assignment / del / setattr targets an attribute chain rooted at
    `self.check` outside `__init__`."""
    ix = ctx.ix
    base = ix.cls("pandera/backends/base/__init__.py::BaseCheckBackend")
    n_cls = 0
    for c in [base] + base.all_subclasses():
        if "/pyspark/" in c.module.path:
            continue
        n_cls += 1
        for f in [x for lst in c.methods.values() for x in lst]:
            if f.name in ("__init__", "__new__"):
                continue
            for st in walk_no_nested_nodes(f.node):
                targets = []
                if isinstance(st, ast.Assign):
                    targets = st.targets
                elif isinstance(st, (ast.AugAssign, ast.AnnAssign)):
                    targets = [st.target]
                elif isinstance(st, ast.Delete):
                    targets = st.targets
                elif isinstance(st, ast.Expr) and isinstance(st.value, ast.Call) and callee_last(st.value) in ("setattr", "delattr") and st.value.args:
                    targets = [ast.Attribute(value=st.value.args[0], attr="?", ctx=ast.Store())]
                for t in targets:
                    root = t
                    chain = []
                    while isinstance(root, (ast.Attribute, ast.Subscript)):
                        chain.append(root)
                        root = root.value
                    through_check = any(isinstance(x, ast.Attribute) and x.attr == "check" and isinstance(x.value, ast.Name) and x.value.id == "self"
                                        for x in chain[1:] + ([chain[0].value] if chain and isinstance(chain[0], ast.Attribute) and isinstance(chain[0].value, ast.Attribute) else []))
                    if through_check:
                        ctx.touched(f)
                        ctx.ob("R8", f, f"{f.short}: no store through the shared Check object", False,
                               f"`{txt(st)[:70]}` writes the schema's own check while it is being applied: a passing validation changes the schema (it no longer equals a "
                               "snapshot) and later verdicts depend on what was validated before", f.loc(st))
    ctx.ob("R8", base.lookup("__init__") or list(base.methods.values())[0][0], "check backends inspected for stores through self.check", n_cls >= 3, f"{n_cls} backend classes")
    if n_cls < 3:
        raise AnalysisError(f"check backend classes found: {n_cls}")


def walk_no_nested_nodes(fn):
    todo = list(fn.body)
    while todo:
        x = todo.pop()
        yield x
        for c_ in ast.iter_child_nodes(x):
            if not isinstance(c_, (ast.FunctionDef, ast.AsyncFunctionDef, ast.ClassDef, ast.Lambda)):
                todo.append(c_)


def run(ctx):
    r5_setstate(ctx)
    r1_who_may_write(ctx)
    r2_frozen(ctx)
    r3_cache(ctx)
    r4_transforms(ctx)
    r7_registry_rebinding_is_guarded_by_the_value(ctx)
    r8_check_backends_never_write_the_check(ctx)
    # R6: hidden state outside the schema object - the context configuration that polars validate overrides per call
    from .c06 import config_context_restore
    config_context_restore(ctx, "R6")
    ctx.assume("user-supplied callbacks (check functions, parsers, custom dtypes) do not mutate the schema")
    ctx.assume("results of unresolved external calls are fresh; copy.copy is shallow (contents alias), deepcopy is fresh")
