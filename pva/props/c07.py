"""C07 - validation outcomes do not depend on thread interleaving."""

from __future__ import annotations

import ast

from ..cfg import cfg_of
from ..effprops import api_entries, chain, consistent_flavour, engine, site_loc
from ..index import AnalysisError, dotted, function_stmts, parent, walk_no_nested
from ..util import callee_last, calls_in, txt

EXPLANATION = (
    "Static data-race candidate analysis (E5 effect engine; nothing executed, no schedule explored). The static "
    "content of a data-race property is: which shared locations can be written by a validate call, and whether the "
    "write is synchronised. (R1) every write site reachable from any public validate entry whose target is a module "
    "global, a class-level registry or the schema / check / dtype object shared between callers (the receiver and "
    "everything reachable from it) is classified: FRESH objects and objects under construction are not effects; a "
    "write is accepted only if it is MEMO/idempotent (same value whoever wins), under a `with <lock>` block, or goes "
    "to thread-local / ContextVar storage. Save-override-restore of a shared attribute is NOT accepted here, even "
    "with a finally, because another thread observes the override; each obligation names the entry classes (pandas / "
    "polars DataFrameSchema, Column, ...) that reach the write, so a write that becomes reachable from a new entry "
    "family is a new violation even when the site itself is a known finding. (R2) the polars container deep-copies each "
    "component before overriding dtype/coerce. (R3) code reachable from DataFrameModel.to_schema iterates class namespaces as a snapshot (list(vars(base).items())), because the first to_schema of another thread adds class attributes. " 
    "NOT decided: outcome equality under benign races; races inside "
    "pandas/polars/numpy; user callbacks."
)
LEVEL_RULE = "one obligation per write site reaching shared state from a validate entry"
FLOORS = {"R1": 3, "R2": 2, "R3": 1}


def _under_lock(ix, site_qual, lineno) -> bool:
    f = ix.funcs.get(site_qual)
    if f is None:
        return False
    for n in ast.walk(f.node):
        if isinstance(n, (ast.With, ast.AsyncWith)) and n.lineno <= lineno <= getattr(n, "end_lineno", n.lineno):
            for it in n.items:
                t = txt(it.context_expr).lower()
                if "lock" in t or "mutex" in t:
                    return True
    return False


def _thread_local_global(ix, root) -> bool:
    if root[0] != "G":
        return False
    modname, _, name = root[1].rpartition(".")
    m = ix.modules.get(modname)
    if m is None:
        return False
    v = m.assigns.get(name)
    return isinstance(v, ast.Call) and (callee_last(v) in ("ContextVar", "local"))


def r3_snapshot_iteration_of_class_namespaces(ctx):
    """DataFrameModel.to_schema fills class attributes lazily (`cls.__checks__ = ...`, `cls.__schema__ = ...`) at the first
    validation.  Another thread that is iterating the live namespace of the same class (or of a base class shared with a
    sibling model) at that moment - `for ... in vars(base).items()` - dies with RuntimeError: dictionary changed size during
    iteration.  Code reachable from to_schema therefore iterates a snapshot (`list(vars(base).items())`)."""
    ix = ctx.ix
    m = ix.module("pandera/api/dataframe/model.py")
    n = 0
    for f in m.all_functions:
        for lp in [x for x in walk_no_nested(f.node) if isinstance(x, (ast.For, ast.comprehension))]:
            it = lp.iter
            live = isinstance(it, ast.Call) and callee_last(it) in ("items", "keys", "values") and isinstance(it.func, ast.Attribute) and (
                (isinstance(it.func.value, ast.Call) and callee_last(it.func.value) == "vars") or
                (isinstance(it.func.value, ast.Attribute) and it.func.value.attr == "__dict__"))
            snap = isinstance(it, ast.Call) and callee_last(it) in ("list", "tuple", "dict") and any(
                isinstance(x, ast.Call) and callee_last(x) == "vars" or isinstance(x, ast.Attribute) and x.attr == "__dict__" for x in ast.walk(it))
            if not (live or snap):
                continue
            # only namespaces of model classes are filled lazily by to_schema: `cls` itself or a class taken from its bases / MRO
            subj = [x for x in ast.walk(it) if isinstance(x, ast.Call) and callee_last(x) == "vars" and x.args and isinstance(x.args[0], ast.Name)]
            subj_names = {x.args[0].id for x in subj} | {x.value.id for x in ast.walk(it) if isinstance(x, ast.Attribute) and x.attr == "__dict__" and isinstance(x.value, ast.Name)}
            model_cls = set()
            for nm in subj_names:
                if nm in ("cls", "model", "model_cls"):
                    model_cls.add(nm)
                for outer in walk_no_nested(f.node):
                    if isinstance(outer, ast.For) and isinstance(outer.target, ast.Name) and outer.target.id == nm and any(w in txt(outer.iter) for w in ("bases", "mro", "__mro__")):
                        model_cls.add(nm)
            if not model_cls:
                continue
            n += 1
            ctx.ob("R3", f, f"{f.short}: the class namespace is iterated as a snapshot", snap,
                   f"`{txt(it)[:50]}`" if snap else
                   f"`for ... in {txt(it)[:40]}` iterates the live class dictionary while another thread's first to_schema() adds __checks__ / __schema__ ... to the same class: "
                   "RuntimeError: dictionary changed size during iteration instead of the verdict", f.loc(it))
    if n < 1:
        raise AnalysisError(f"model.py: class-namespace iterations found: {n}")


def run(ctx):
    r3_snapshot_iteration_of_class_namespaces(ctx)
    ix = ctx.ix
    eng = engine(ix)
    sites = {}
    for cq, f, fl in api_entries(ix):
        ctx.touched(f)
        for e in eng.summary(f).effects:
            if not consistent_flavour(e, fl):
                continue
            shared = e.root == ("P", f.positional[0]) or e.root[0] == "G"
            if not shared:
                continue
            k = (e.site[0], e.site[2])
            d = sites.setdefault(k, {"kinds": set(), "entries": set(), "eff": e, "targets": set()})
            d["kinds"].add(e.kind)
            d["entries"].add(f"{cq.split('::')[1]}.{f.name}")
            d.setdefault("classes", set()).add(f"{fl}.{cq.split('::')[1]}")
            root = "schema" if e.root[0] == "P" else e.root[1]
            d["targets"].add(root + "".join(f".{p}" if not p.startswith("[") else p for p in e.path[:3]))
            if len(e.via) < len(d["eff"].via):
                d["eff"] = e
    for (sf, text), d in sorted(sites.items()):
        e = d["eff"]
        bad = d["kinds"] - {"init", "memo", "idempotent"}
        ok = not bad
        why = "idempotent / write-once"
        if bad and _under_lock(ix, e.site[0], e.site[1]):
            ok, why = True, "inside a `with <lock>` block"
        if bad and _thread_local_global(ix, e.root):
            ok, why = True, "thread-local / ContextVar storage"
        construct = f"shared write `{text}` reached from validate of {', '.join(sorted(d['classes']))}"
        # a write to *every* field of a shared object (`setattr(X, name, v)` in a loop) is the same finding as the writes to the
        # individual fields of X recorded for this function: report it under those constructs, so that re-spelling four
        # assignments as a loop neither hides nor duplicates a known finding
        wild = sorted(t for t in d["targets"] if t.endswith(".*"))
        if not ok and wild:
            from ..report import load_known
            fq = sf if isinstance(sf, str) else getattr(sf, "qual", str(sf))
            alias = [k["construct"] for k in load_known().get("known", []) if k.get("rule") == "C07.R1" and k.get("function") == fq
                     and any(("`" + w.split(".")[-2] + ".") in k["construct"] for w in wild)
                     and k["construct"].endswith("reached from validate of " + ", ".join(sorted(d["classes"])))]
            if alias:
                for a in alias:
                    ctx.ob("R1", sf, a, False, f"(written here as `{text}`) unsynchronised write to {sorted(d['targets'])[:3]}")
                continue
        ctx.ob("R1", sf, construct, ok,
               why if ok else
               f"unsynchronised write ({', '.join(sorted(bad))}) to {sorted(d['targets'])[:3]}, shared by all threads validating "
               f"through {sorted(d['entries'])[:4]}; a concurrent validate observes the intermediate value; call path: {chain(e) or 'direct'}",
               site_loc(e))
    ctx.stats["shared_write_sites"] = len(sites)
    # R2
    f = ix.func("pandera/backends/polars/container.py::DataFrameSchemaBackend.collect_schema_components")
    ctx.touched(f)
    cfg = cfg_of(f.node)
    rd = cfg.reaching_defs()
    n = 0
    for s in function_stmts(f):
        if isinstance(s, ast.Assign) and isinstance(s.targets[0], ast.Attribute) and isinstance(s.targets[0].value, ast.Name):
            base = s.targets[0].value.id
            node = cfg.node_of(s)
            defs = rd[node.id].get(base, set())
            srcs = [cfg.nodes[d].ast for d in defs]
            ok = bool(srcs) and all(isinstance(x, ast.Assign) and isinstance(x.value, ast.Call) and callee_last(x.value) == "deepcopy" for x in srcs)
            n += 1
            ctx.ob("R2", f, f"`{txt(s)}` writes a private copy of the component", ok,
                   f"`{base}` is a deepcopy at this point" if ok else
                   f"`{base}` still aliases the component stored in the shared schema: the override is visible to concurrent validations",
                   f.loc(s))
    if n == 0:
        ctx.ob("R2", f, "component overrides in the polars container", True, "no attribute override present")
        ctx.ob("R2", f, "component overrides in the polars container (2)", True, "no attribute override present")
    ctx.assume("no synchronisation primitive other than `with <...lock...>` blocks, threading.local and ContextVar is recognised")
    ctx.assume("MEMO registry writes (write-once, same value for every writer) are benign races")
