"""C20 - head/tail/sample validate exactly the requested rows and return the whole object."""

from __future__ import annotations

import ast

from ..cfg import cfg_of
from ..index import AnalysisError, function_stmts, parent, walk_no_nested
from ..pipeline import check_pipelines
from ..roles import list_element_args, list_literal_of, schema_backend_classes, self_method
from ..util import Expander, callee_last, calls_in, enclosing_stmt, kw, path_condition, show_condition, txt
from .c18 import _own_verdict_reasons, _scope_of

EXPLANATION = (
    "Static analysis of the subsampling plumbing (ast, CFG guards, def-use; nothing executed). (R1) in every core-check "
    "pipeline the subsample is `self.subsample(<working object>, head, tail, sample, random_state)` with every option "
    "forwarded to the parameter of the same name, every data-level core check (and the delegating component checks) "
    "receives the subsample, and the parser stages run on the full object before subsampling; (R2) no backend validate "
    "returns the subsample: the returned name never derives from a subsample() result; (R3) in both subsample "
    "implementations head / tail / sample are each applied under `<option> is not None` to the full object, "
    "random_state reaches .sample(), and the whole object is returned exactly when no option was requested (never "
    "because the requested counts merely add up to len(object)); (R4) rows selected twice are "
    "de-duplicated by position - de-duplication by index label (index.duplicated) or by row value (.unique() / "
    "drop_duplicates) removes legitimately distinct rows. (R5) the concatenation of several selections goes through a de-duplication step (rows selected by both head and tail are validated once) and nothing re-orders the subsample (no sort_index / sort after the concat). " 
    " (R6) every subsample(...) call of a backend receives the caller's random_state value itself - no re-binding into a stateful generator shared by several draws. " 
    " (R7) a parameter annotated pl.LazyFrame is used through the LazyFrame API only (no DataFrame-only method such as sample without collect). " 
    "NOT decided: verdict equality with the explicitly subsampled "
    "frame on data."
)
LEVEL_RULE = "one obligation per pipeline row / subsample branch / return"
FLOORS = {"R1": 14, "R2": 5, "R3": 10, "R4": 2, "R5": 4, "R6": 4, "R7": 1}

OPTS = ["head", "tail", "sample", "random_state"]


def _subsample_defs(f):
    """name -> subsample call assigned to it"""
    out = {}
    for s in function_stmts(f):
        if isinstance(s, ast.Assign) and len(s.targets) == 1 and isinstance(s.targets[0], ast.Name) \
                and isinstance(s.value, ast.Call) and callee_last(s.value) == "subsample":
            out[s.targets[0].id] = s.value
    return out


def r1_stages(ctx):
    ix = ctx.ix
    for bc in schema_backend_classes(ix):
        for f, loop, fns, lname in check_pipelines(ix, bc):
            ctx.touched(f)
            subs = _subsample_defs(f)
            if not subs:
                ctx.ob("R1", f, f"{f.short}: a subsample is taken", False, "no self.subsample(...) call: head/tail/sample are ignored")
                continue
            sub_params = bc.lookup("subsample").positional[1:]
            for name, call in subs.items():
                probs = []
                given = {}
                for i, a in enumerate(call.args):
                    if isinstance(a, ast.Starred):
                        continue
                    if i < len(sub_params):
                        given[sub_params[i]] = txt(a)
                for k in call.keywords:
                    if k.arg:
                        given[k.arg] = txt(k.value)
                splat = [txt(k.value) for k in call.keywords if k.arg is None]
                for o in OPTS:
                    if splat and any("subsample_kwargs" in s_ for s_ in splat):
                        continue
                    if given.get(o) != o:
                        probs.append(f"{o} <- {given.get(o)}")
                ctx.ob("R1", f, f"{f.short}: `{name} = {txt(call)[:60]}` forwards head/tail/sample/random_state", not probs,
                       "each option reaches the parameter of the same name" + (" (via **subsample_kwargs)" if splat else "") if not probs else "; ".join(probs))
            # the list literal rows
            lit = list_literal_of(f, loop)
            if lit is None:
                raise AnalysisError(f"{f.qual}: {lname} literal not found")
            shared_args = None
            if not any(isinstance(e, ast.Tuple) for e in lit.elts):
                # polars column: one argument tuple shared by every check, splatted into the call `check_fn(*args)`
                ex = Expander(f.node)
                tv = loop.target.id if isinstance(loop.target, ast.Name) else None
                for c in calls_in(loop):
                    if isinstance(c.func, ast.Name) and c.func.id == tv and c.args and isinstance(c.args[0], ast.Starred):
                        v = ex.expand(c.args[0].value)
                        if isinstance(v, ast.Tuple):
                            shared_args = list(v.elts)
            for el in lit.elts:
                fn = el.elts[0] if isinstance(el, ast.Tuple) else el
                args = list_element_args(el) if isinstance(el, ast.Tuple) else shared_args
                target = self_method(ix, bc, fn)
                if target is None or not args:
                    continue
                first = txt(args[0])
                own, reasons = _own_verdict_reasons(ix, bc, target)
                scope = _scope_of(target)
                data_level = scope == "DATA" or not own or target.name == "run_checks"
                # a schema-scope check that hands the data object itself to <dtype>.check(...) inspects values
                # (Date, Decimal, typing generics, python-object dtypes): it has to see the requested rows only
                if not data_level and len(target.positional) > 1:
                    dparam = target.positional[1]
                    if any(callee_last(c) == "check" and isinstance(c.func, ast.Attribute) and "dtype" in txt(c.func.value)
                           and any(isinstance(a, ast.Name) and a.id == dparam for a in list(c.args) + [k.value for k in c.keywords])
                           for c in calls_in(target.node, nested=True)):
                        data_level = True
                a0 = Expander(f.node).expand(args[0])
                on_sub = first in subs or (isinstance(a0, ast.Call) and callee_last(a0) == "subsample")
                if on_sub and len(first) > 40:
                    first = "self.subsample(...)"
                if data_level:
                    ctx.ob("R1", f, f"{f.short}: data-level core check {txt(fn)} receives the subsample", on_sub,
                           f"first argument `{first}` is the subsample" if on_sub else
                           f"first argument `{first}` is not a subsample: head/tail/sample do not restrict this check")
                else:
                    ctx.ob("R1", f, f"{f.short}: schema-level core check {txt(fn)} receives `{first}`", True,
                           "schema-level checks look at labels/dtypes only (full object or subsample are equivalent)")
    # parsers run before subsampling on the full object
    for q in ("pandera/backends/pandas/container.py::DataFrameSchemaBackend.validate", "pandera/backends/polars/container.py::DataFrameSchemaBackend.validate",
              "pandera/backends/pandas/array.py::ArraySchemaBackend.validate", "pandera/backends/polars/components.py::ColumnBackend.validate"):
        f = ix.func(q)
        ctx.touched(f)
        bad = [c for c in calls_in(f.node) if callee_last(c) in ("coerce_dtype", "set_default", "set_defaults", "run_parsers", "add_missing_columns")
               and c.args and isinstance(c.args[0], ast.Name) and c.args[0].id in _subsample_defs(f)]
        ctx.ob("R1", f, f"{f.short}: parsing stages work on the full object", not bad,
               "no parser receives a subsample" if not bad else f"`{txt(bad[0])[:60]}` parses only the subsample: the returned object is not fully parsed")


def r2_return(ctx):
    ix = ctx.ix
    for bc in schema_backend_classes(ix):
        f = bc.method("validate")
        if f is None:
            continue
        ctx.touched(f)
        subs = set(_subsample_defs(f))
        # names derived from a subsample (def-use closure)
        changed = True
        while changed:
            changed = False
            for s in function_stmts(f):
                if isinstance(s, ast.Assign) and len(s.targets) == 1 and isinstance(s.targets[0], ast.Name):
                    t = s.targets[0].id
                    if t in subs:
                        continue
                    v = s.value
                    if isinstance(v, ast.IfExp):
                        if any(isinstance(x, ast.Name) and x.id in subs for x in (v.body, v.orelse)):
                            subs.add(t)
                            changed = True
                        continue
                    direct = (isinstance(v, ast.Name) and v.id in subs) or (
                        isinstance(v, ast.Call) and callee_last(v) in ("drop_invalid_rows", "copy", "collect", "lazy") and any(
                            isinstance(a, ast.Name) and a.id in subs for a in v.args))
                    if direct:
                        subs.add(t)
                        changed = True
        rets = [s for s in function_stmts(f) if isinstance(s, ast.Return) and s.value is not None]
        bad = [s for s in rets if isinstance(s.value, ast.Name) and s.value.id in subs]
        # `sample` is also a parameter name: a return of the *parameter* is impossible to confuse only if it was reassigned
        ctx.ob("R2", f, f"{f.short}: the returned object is not the subsample", not bad,
               f"{len(rets)} return(s), none derives from subsample()" if not bad else f"`{txt(bad[0])}` returns the subsampled rows only")
    for bc in schema_backend_classes(ix):
        for f, loop, fns, lname in check_pipelines(ix, bc):
            if f.name == "validate":
                continue
            rets = [s for s in function_stmts(f) if isinstance(s, ast.Return) and s.value is not None]
            ok = all(txt(s.value) == "error_handler" for s in rets)
            ctx.ob("R2", f, f"{f.short}: returns only the error handler", ok, "no data object leaves the check pipeline" if ok else "returns data")


def r3_subsample(ctx):
    ix = ctx.ix
    for q in ("pandera/backends/pandas/base.py::PandasSchemaBackend.subsample", "pandera/backends/polars/base.py::PolarsSchemaBackend.subsample"):
        f = ix.func(q)
        ctx.touched(f)
        cfg = cfg_of(f.node)
        obj = f.positional[1]
        for opt, meth in (("head", "head"), ("tail", "tail"), ("sample", "sample")):
            calls = [c for c in calls_in(f.node) if isinstance(c.func, ast.Attribute) and c.func.attr == meth
                     and txt(c.func.value) in (obj, f"{obj}.collect()", f"{obj}.lazy()")]
            if not calls:
                # positional slicing is an equivalent spelling of head(n) - `x.iloc[:n]` - but not of tail(n): `x.iloc[-0:]` is all of x
                sl = [n for n in ast.walk(f.node) if isinstance(n, ast.Subscript) and isinstance(n.value, ast.Attribute) and n.value.attr == "iloc"
                      and txt(n.value.value) == obj and isinstance(n.slice, ast.Slice)]
                head_sl = [n for n in sl if n.slice.lower is None and n.slice.upper is not None and txt(n.slice.upper) == opt]
                tail_sl = [n for n in sl if n.slice.upper is None and isinstance(n.slice.lower, ast.UnaryOp) and isinstance(n.slice.lower.op, ast.USub)
                           and txt(n.slice.lower.operand) == opt]
                if opt == "head" and head_sl:
                    ctx.ob("R3", f, f"{f.short}: {opt} rows are taken from the full object", True, f"`{txt(head_sl[0])}` (same rows as head({opt}))")
                    continue
                if opt == "tail" and tail_sl:
                    ctx.ob("R3", f, f"{f.short}: {opt} rows are taken from the full object", False,
                           f"`{txt(tail_sl[0])}` is not tail({opt}): for {opt} == 0 the slice `[-0:]` is the whole object, so validate(tail=0) checks every row", f.loc(tail_sl[0]))
                    continue
                ctx.ob("R3", f, f"{f.short}: {opt} rows are taken from the full object", False, f"no {obj}.{meth}(...) call: the option has no effect")
                continue
            c = calls[0]
            node = cfg.node_of(enclosing_stmt(c))
            pc = path_condition(cfg, node.id, keep=lambda t, n, opt=opt: t == f"{opt} is None")
            ok_g = pc == ((f"{opt} is None",), frozenset({(False,)}))
            ok_a = bool(c.args) and txt(c.args[0]) == opt
            ctx.ob("R3", f, f"{f.short}: `{txt(c)[:50]}` under `{opt} is not None`", ok_g and ok_a,
                   f"guard {show_condition(pc)}; argument {txt(c.args[0]) if c.args else None}")
            up = parent(c)
            while isinstance(up, (ast.Attribute, ast.Call)) and not (isinstance(up, ast.Call) and callee_last(up) == "append"):
                if isinstance(up, ast.Call) and callee_last(up) not in ("lazy", "collect"):
                    break
                up = parent(up)
            appended = isinstance(up, ast.Call) and callee_last(up) == "append"
            ctx.ob("R3", f, f"{f.short}: the {opt} rows are added to the subsample", appended, "appended to the list that is concatenated" if appended else "selected rows are discarded")
            if opt == "sample":
                rs = kw(c, "random_state") or kw(c, "seed")
                ok = rs is not None and txt(rs) == "random_state"
                ctx.ob("R3", f, f"{f.short}: random_state reaches .sample()", ok, "random_state=random_state" if ok else "the sample is not reproducible with a fixed random_state")
        rets = [s for s in function_stmts(f) if isinstance(s, ast.Return)]
        # the whole object is returned exactly when no option was requested
        part_lists = {txt(c.func.value) for c in calls_in(f.node) if callee_last(c) == "append" and isinstance(c.func, ast.Attribute)
                      and c.args and isinstance(c.args[0], ast.Call) and callee_last(c.args[0]) in ("head", "tail", "sample")}
        opt_atoms = tuple(sorted(f"{o} is None" for o in ("head", "tail", "sample")))
        identity, bad = False, []
        ex = Expander(f.node)
        for r in rets:
            v = r.value
            if v is None:
                continue
            node = cfg.node_of(r)
            pc = path_condition(cfg, node.id, keep=lambda t, n: t in opt_atoms)
            all_none = pc[0] == opt_atoms and pc[1] == frozenset({(True, True, True)})
            if isinstance(v, ast.Name) and v.id == obj:
                pc_all = path_condition(cfg, node.id)
                if all_none:
                    identity = True
                elif len(pc_all[0]) == 1 and pc_all[0][0] in part_lists and pc_all[1] == frozenset({(False,)}):
                    identity = True   # reached exactly when the list of selected parts is empty, i.e. no option appended anything
                else:
                    bad.append(f"`return {obj}` is reached under {show_condition(pc)}, not only when head, tail and sample are all None")
            elif isinstance(v, ast.IfExp):
                for branch, pol in ((v.body, True), (v.orelse, False)):
                    if isinstance(branch, ast.Name) and branch.id == obj:
                        t = v.test
                        if isinstance(t, ast.Name) and t.id not in part_lists:
                            t = ex.expand(t)
                        neg = isinstance(t, ast.UnaryOp) and isinstance(t.op, ast.Not)
                        inner = t.operand if neg else t
                        empty_parts = txt(inner) in part_lists and (neg == pol)
                        if empty_parts and pc[1] and not pc[0]:
                            identity = True
                        elif all_none:
                            identity = True
                        else:
                            bad.append(f"`{txt(v)[:60]}` returns the whole object under `{txt(v.test)}`, which is not `no option requested`")
        ok = identity and not bad
        ctx.ob("R3", f, f"{f.short}: the whole object is returned exactly when no option is requested", ok,
               "identity when nothing is requested" if ok else ("; ".join(bad) if bad else "always builds a subsample"))
        concat = any(callee_last(c) == "concat" for c in calls_in(f.node))
        ctx.ob("R3", f, f"{f.short}: selected parts are concatenated", concat, "concat(parts)" if concat else "parts are not combined")


def r4_dedup(ctx):
    ix = ctx.ix
    for q in ("pandera/backends/pandas/base.py::PandasSchemaBackend.subsample", "pandera/backends/polars/base.py::PolarsSchemaBackend.subsample"):
        f = ix.func(q)
        scope_nodes = list(ast.walk(f.node))
        for x in list(scope_nodes):
            if isinstance(x, ast.Name) and isinstance(x.ctx, ast.Load):
                h = f.nested.get(x.id) or f.module.functions.get(x.id)
                if h is not None and h is not f and x.id.startswith("_"):
                    scope_nodes += list(ast.walk(h.node))   # a private helper referenced by name (`.pipe(_helper)`)
        label = [n for n in scope_nodes if isinstance(n, ast.Call) and callee_last(n) == "duplicated" and "index" in txt(n.func)]
        value = [n for n in scope_nodes if isinstance(n, ast.Call) and callee_last(n) in ("unique", "drop_duplicates")]
        bad = label or value
        how = "index label" if label else "row value"
        how_all = sorted(({"index label"} if label else set()) | ({"row value"} if value else set()))
        ctx.ob("R4", f, f"{f.short}: overlapping selections are de-duplicated by position" + (f" (found: by {' and '.join(how_all)})" if bad else ""), not bad,
               "no label/value based de-duplication" if not bad else
               f"`{txt((label or value)[0])[:60]}` de-duplicates by {how}: distinct rows that share the {how} are removed from the "
               "subsample, so invalid rows among them are never checked", f.loc((label or value)[0]) if bad else "")


REORDERING = {"sort_index", "sort_values", "sort", "reindex", "shuffle", "reverse"}
DEDUP = {"duplicated", "unique", "drop_duplicates", "is_duplicated", "is_unique", "is_first_distinct", "unique_counts"}


def r5_each_row_once_in_order(ctx):
    """The rows selected by head / tail / sample are validated once each and in the order they have in the object:
    (a) the concatenation of several selections goes through some de-duplication step (otherwise a row selected by both
    head and tail is validated twice and a uniqueness check fails on distinct data); (b) nothing re-orders the result
    (`sort_index()` puts a newest-first series in ascending order: order-sensitive checks see different data than with
    head=len(D), and mixed-type labels raise TypeError)."""
    ix = ctx.ix
    from ..util import Expander
    for q in ("pandera/backends/pandas/base.py::PandasSchemaBackend.subsample", "pandera/backends/polars/base.py::PolarsSchemaBackend.subsample"):
        f = ix.func(q)
        ctx.touched(f)
        ex = Expander(f.node)
        rets = [r.value for r in walk_no_nested(f.node) if isinstance(r, ast.Return) and r.value is not None]
        concat_rets = []
        for r in rets:
            nodes = [x for d in ex.closure(r) for x in ast.walk(d)]
            # helpers referenced by name (`.pipe(_drop_duplicated_index)`) belong to the expression
            for x in list(nodes):
                if isinstance(x, ast.Name) and isinstance(x.ctx, ast.Load):
                    h = f.nested.get(x.id) or f.module.functions.get(x.id)
                    if h is not None and h is not f:
                        nodes += list(ast.walk(h.node))
            if any(isinstance(x, ast.Call) and callee_last(x) == "concat" for x in nodes):
                concat_rets.append((r, nodes))
        if not concat_rets:
            raise AnalysisError(f"{f.short}: no concatenation of the selections found")
        for r, nodes in concat_rets:
            # lambdas handed to .pipe(...) are part of the expression
            dedup = [x for x in nodes if isinstance(x, ast.Call) and callee_last(x) in DEDUP]
            ctx.ob("R5", f, f"{f.short}: overlapping selections are validated once", bool(dedup),
                   f"`{txt(dedup[0])[:50]}` removes the rows selected twice" if dedup else
                   f"`{txt(r)[:60]}` concatenates the selections without any de-duplication: with head + tail > len(D) the overlapping rows occur twice "
                   "and unique / aggregate checks fail on data whose rows are all distinct", f.loc(r))
            reord = [x for x in nodes if isinstance(x, ast.Call) and callee_last(x) in REORDERING]
            ctx.ob("R5", f, f"{f.short}: the subsample keeps the order of the object", not reord,
                   "no re-ordering step" if not reord else
                   f"`{txt(reord[0])[-40:]}` re-orders the selected rows: checks that depend on row order (and head=len(D) vs no option) see a different "
                   "object; labels that are not mutually comparable raise TypeError instead of a verdict", f.loc(reord[0]) if reord else None)


def r6_same_seed_for_every_draw(ctx):
    """A backend that subsamples the object more than once (the array backend: once for the schema-scope checks, once for
    the user checks) has to draw the same rows each time: every `subsample(...)` call receives the caller's `random_state`
    value itself.  Wrapping it once into a stateful generator (`np.random.RandomState(seed)`) that the calls share makes
    the second draw a different set of rows - the verdict no longer equals the verdict on D.sample(n, random_state=r)."""
    ix = ctx.ix
    n = 0
    for bc in schema_backend_classes(ix):
        if "pyspark" in bc.module.path:
            continue
        for lst in bc.methods.values():
            for f in lst:
                calls = [c for c in calls_in(f.node) if callee_last(c) == "subsample" and isinstance(c.func, ast.Attribute)]
                if not calls:
                    continue
                # anything that re-binds the seed on its way to the calls: `random_state = ...`, `kwargs["random_state"] = ...`
                rebound = []
                for st in walk_no_nested(f.node):
                    tg = st.targets if isinstance(st, ast.Assign) else ([st.target] if isinstance(st, (ast.AugAssign, ast.AnnAssign)) else [])
                    for t in tg:
                        if (isinstance(t, ast.Name) and t.id == "random_state") or (
                                isinstance(t, ast.Subscript) and isinstance(t.slice, ast.Constant) and t.slice.value == "random_state"):
                            rebound.append(st)
                    if isinstance(st, ast.Expr) and isinstance(st.value, ast.Call) and callee_last(st.value) in ("update", "setdefault") \
                            and "random_state" in txt(st.value):
                        rebound.append(st)
                for c in calls:
                    n += 1
                    v = kw(c, "random_state") or (c.args[4] if len(c.args) > 4 else None)
                    splat = [k.value for k in c.keywords if k.arg is None]
                    passes = (isinstance(v, ast.Name) and v.id == "random_state") or (v is None and bool(splat))
                    ok = passes and not rebound
                    ctx.ob("R6", f, f"{f.short}: `{txt(c)[:40]}` draws with the caller's random_state", ok,
                           "the caller's value is passed through" if ok else
                           (f"random_state is re-bound (`{txt(rebound[0])[:70]}`) before it reaches the subsample calls: a stateful generator shared by several draws "
                            "gives each of them different rows, so the user checks see other rows than the schema-scope checks and than D.sample(n, random_state=r)"
                            if rebound else f"random_state={txt(v) if v is not None else None} is not the caller's value"), f.loc(c))
    if n < 4:
        raise AnalysisError(f"subsample call sites found: {n}")


DATAFRAME_ONLY = {"sample", "shape", "height", "item", "row", "rows", "to_series", "to_dict", "to_dicts", "to_pandas", "to_numpy", "is_duplicated",
                  "is_unique", "n_unique", "get_column", "get_columns", "iter_rows", "transpose", "hstack", "vstack", "is_empty", "glimpse"}


def r7_lazyframe_api_only(ctx):
    """The polars backends work on a `pl.LazyFrame`.  Methods that exist on `pl.DataFrame` only (sample, shape, item,
    is_duplicated, rows ...) raise AttributeError on it, so a parameter annotated `pl.LazyFrame` is used through the
    LazyFrame API only (collect first).  `check_obj.sample(...)` makes every validate(..., sample=n) of the polars backend
    raise AttributeError instead of returning a verdict."""
    ix = ctx.ix
    n = 0
    for m in ix.modules.values():
        if not m.path.startswith("pandera/backends/polars/"):
            continue
        for f in m.all_functions:
            a = f.node.args
            lazy = {x.arg for x in a.args + a.kwonlyargs if x.annotation is not None and txt(x.annotation).endswith("LazyFrame")}
            if not lazy:
                continue
            rebound = {t.id for st in walk_no_nested(f.node) if isinstance(st, ast.Assign) for t in st.targets if isinstance(t, ast.Name)}
            for c in calls_in(f.node):
                if isinstance(c.func, ast.Attribute) and isinstance(c.func.value, ast.Name) and c.func.value.id in lazy - rebound and c.func.attr in DATAFRAME_ONLY:
                    n += 1
                    ctx.ob("R7", f, f"{f.short}: `{c.func.value.id}` (a pl.LazyFrame) is used through the LazyFrame API", False,
                           f"`{txt(c)[:60]}`: pl.LazyFrame has no `{c.func.attr}` - the call raises AttributeError (validate(..., sample=n) on the polars backend never "
                           "reaches a verdict)", f.loc(c))
    ctx.ob("R7", "pandera/backends/polars", "no DataFrame-only method is called on a LazyFrame-typed parameter", n == 0, "none" if n == 0 else f"{n} call(s)")


def run(ctx):
    r1_stages(ctx)
    r2_return(ctx)
    r3_subsample(ctx)
    r4_dedup(ctx)
    r5_each_row_once_in_order(ctx)
    r6_same_seed_for_every_draw(ctx)
    r7_lazyframe_api_only(ctx)
    ctx.assume("head()/tail()/sample() of pandas and polars select rows by position")
