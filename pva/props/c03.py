"""C03 - whatever validate returns conforms to the schema (parse postcondition):
linear threading of the working object through the stages."""

from __future__ import annotations

import ast

from ..cfg import cfg_of
from ..index import AnalysisError, function_stmts, parent, walk_no_nested
from ..roles import api_classes, schema_backend_classes
from ..util import callee_last, calls_in, enclosing_stmt, kw, txt

EXPLANATION = (
    "Static dataflow analysis (per-function CFG, reaching definitions, dominators; nothing executed). The parsing "
    "stages (validate, coerce_dtype, set_default(s), add_missing_columns, strict_filter_columns, run_parsers, "
    "drop_invalid_rows, preprocess, .lazy()/.collect(), the callables of core_parsers) each return the object the next "
    "stage must use. (R1) in every API-level validate and every backend validate / parser pipeline, whenever a stage "
    "call `Y = stage(X, ...)` dominates a later stage call or return that still uses X although X was not redefined in "
    "between, the output of that stage is lost - reported as a stale use; (R2) every normal return of these functions "
    "returns a member of the working family (the data parameter or a stage result), and the result of every stage call "
    "on a family member is bound to a name (not discarded) unless the stage is check-only. One named exclusion: the "
    "inner check-only array validation inside pandas ColumnBackend.validate (its result is written back only when "
    "parsers are declared). (R3) a snapshot computed from the working object (column_info = collect_column_info(X, ...)) "
    "and handed to a checking stage (collect_schema_components, check_column_presence, ...) is recomputed after the "
    "last parsing stage that replaces X on every path - otherwise the checks are driven by the un-parsed columns. NOT decided: that the output re-validates (a fixpoint property over values)."
)
LEVEL_RULE = "one obligation per stage call / return in the validate methods and parser pipelines"
FLOORS = {"R1": 30, "R2": 12, "R3": 2}

STAGES = {"validate", "_validate", "coerce_dtype", "set_default", "set_defaults", "add_missing_columns",
          "strict_filter_columns", "run_parsers", "drop_invalid_rows", "preprocess", "lazy", "collect", "add_schema",
          "copy", "clone", "validate_column", "map_partitions"}
EXCLUDED = {
    "pandera/backends/pandas/components.py::ColumnBackend.validate":
        "inner array validation is check-only by design: defaults and coercion are applied to the column before it and "
        "the result is written back only `if schema.parsers`",
}


def scope(ix):
    fs = []
    for c in api_classes(ix):
        for n in ("validate", "_validate"):
            f = c.lookup(n)
            if f is not None and f not in fs:
                fs.append(f)
    for bc in schema_backend_classes(ix):
        for n in ("validate", "run_parsers", "coerce_dtype", "set_default", "set_defaults", "add_missing_columns",
                  "strict_filter_columns"):
            for f in bc.methods.get(n, []):
                if f not in fs:
                    fs.append(f)
    return fs


def data_arg(call: ast.Call, family):
    """The family member passed as the data argument of a stage call (first positional or check_obj=/obj=), or the
    receiver for conversions (x.lazy(), x.collect(), x.copy())."""
    last = callee_last(call)
    if last in ("lazy", "collect", "copy", "clone") and isinstance(call.func, ast.Attribute) and isinstance(call.func.value, ast.Name):
        return call.func.value.id if call.func.value.id in family else None
    if last == "add_schema" and isinstance(call.func, ast.Attribute):
        v = call.func.value
        if isinstance(v, ast.Attribute) and isinstance(v.value, ast.Name) and v.value.id in family:
            return v.value.id
        return None
    if last == "map_partitions" and isinstance(call.func, ast.Attribute) and isinstance(call.func.value, ast.Name):
        return call.func.value.id if call.func.value.id in family else None
    for k in call.keywords:
        if k.arg in ("check_obj", "obj", "data_container") and isinstance(k.value, ast.Name) and k.value.id in family:
            return k.value.id
    for a in call.args[:2]:
        if isinstance(a, ast.Name) and a.id in family:
            return a.id
    return None


def is_stage(call: ast.Call, loopvars) -> bool:
    last = callee_last(call)
    if last in STAGES:
        return True
    if isinstance(call.func, ast.Name) and call.func.id in loopvars:
        return True
    return False


def _derived(f, family):
    """Names whose value is computed (def-use closure) from a member of the working family."""
    out = set(family)
    changed = True
    while changed:
        changed = False
        for s in function_stmts(f):
            if isinstance(s, ast.Assign) and len(s.targets) == 1 and isinstance(s.targets[0], ast.Name):
                t = s.targets[0].id
                if t not in out and {n.id for n in ast.walk(s.value) if isinstance(n, ast.Name)} & out:
                    out.add(t)
                    changed = True
    return out


def analyse(ctx, f):
    cfg = cfg_of(f.node)
    data = None
    for p in f.positional[1:3]:
        if p in ("check_obj", "obj", "dataframe", "data"):
            data = p
            break
    if data is None:
        if f.name in ("run_parsers",) and "check_obj" in f.positional:
            data = "check_obj"
        else:
            return 0
    loopvars = set()
    from ..roles import callable_list_loops
    for loop, fns, _ in callable_list_loops(f):
        tv = loop.target.elts[0] if isinstance(loop.target, ast.Tuple) else loop.target
        if isinstance(tv, ast.Name):
            loopvars.add(tv.id)
    # working family: data parameter + names assigned from stage calls on family members (fixpoint)
    family = {data}
    changed = True
    stage_defs = []   # (stmt, target name, source name)
    while changed:
        changed = False
        stage_defs = []
        for s in function_stmts(f):
            val = None
            tgt = None
            if isinstance(s, ast.Assign) and len(s.targets) == 1 and isinstance(s.targets[0], ast.Name):
                tgt, val = s.targets[0].id, s.value
            if val is None:
                continue
            calls = [val] if isinstance(val, ast.Call) else ([val.body, val.orelse] if isinstance(val, ast.IfExp) else [])
            if isinstance(val, ast.Call) and callee_last(val) == "cast" and len(val.args) == 2:
                calls = [val.args[1]]
            for c in calls:
                if isinstance(c, ast.Call) and is_stage(c, loopvars):
                    src = data_arg(c, family)
                    if src is not None:
                        stage_defs.append((s, tgt, src))
                        if tgt not in family:
                            family.add(tgt)
                            changed = True
                elif isinstance(c, ast.Attribute) and c.attr == "parser_output":
                    stage_defs.append((s, tgt, None))
                    if tgt not in family:
                        family.add(tgt)
                        changed = True
    rd = cfg.reaching_defs(skip_labels=())
    dom = cfg.dominators()
    n = 0
    uses = []
    for s in function_stmts(f):
        node = cfg.node_of(s)
        if node is None or node.kind not in ("stmt",):
            continue
        if isinstance(s, ast.Return) and s.value is not None:
            v = s.value
            if isinstance(v, ast.Call) and callee_last(v) == "cast" and len(v.args) == 2:
                v = v.args[1]
            if isinstance(v, ast.Name) and v.id in family:
                uses.append((s, node, v.id, f"return {v.id}"))
            elif isinstance(v, ast.Call) and is_stage(v, loopvars):
                src = data_arg(v, family)
                if src is not None:
                    uses.append((s, node, src, f"return {txt(v.func)}({src}, ...)"))
            elif isinstance(v, ast.Name) and v.id in _derived(f, family):
                n += 1
                ctx.ob("R2", f, f"{f.short}: `{txt(s)}` returns the working object", True,
                       f"`{v.id}` is computed from the working object")
            elif isinstance(v, ast.Name):
                n += 1
                ctx.ob("R2", f, f"{f.short}: `{txt(s)}` returns the working object", False,
                       f"returns `{v.id}`, which is neither the data parameter nor the result of a parsing stage", f.loc(s))
            continue
        for c in calls_in(s):
            if is_stage(c, loopvars):
                src = data_arg(c, family)
                if src is not None:
                    uses.append((s, node, src, f"{txt(c.func)}({src}, ...)"))
    for s, node, x, label in uses:
        n += 1
        stale = None
        x_defs_here = rd[node.id].get(x, set())
        for ds, y, src in stage_defs:
            if src != x or y == x:
                continue
            dn = cfg.node_of(ds)
            if dn is None or dn.id == node.id or dn.id not in dom.get(node.id, set()):
                continue
            # X not redefined between the stage and this use
            x_defs_at_stage = rd[dn.id].get(x, set())
            if x_defs_here == x_defs_at_stage:
                # and Y still holds that stage's result here
                if dn.id in rd[node.id].get(y, set()):
                    stale = (ds, y)
                    break
        kind = "R2" if label.startswith("return") else "R1"
        ctx.ob(kind, f, f"{f.short}: `{label}` uses the most recent working object", stale is None,
               "no earlier stage output is bypassed" if stale is None else
               f"`{stale[1]} = {txt(stale[0].value)[:50]}` (line {stale[0].lineno}) already produced the next working object from "
               f"`{x}`, but this step still uses `{x}`: what that stage parsed (coerced values, filled defaults) is discarded",
               f.loc(s))
    # stage results that are dropped on the floor (expression statements)
    for s in function_stmts(f):
        if isinstance(s, ast.Expr) and isinstance(s.value, ast.Call) and is_stage(s.value, loopvars):
            src = data_arg(s.value, family)
            if src is not None and callee_last(s.value) not in ("add_schema",):
                n += 1
                ctx.ob("R2", f, f"{f.short}: result of `{txt(s.value.func)}({src}, ...)` is kept", False,
                       "the object returned by this parsing stage is discarded", f.loc(s))
    return n


CHECK_STAGES = {"collect_schema_components", "run_checks_and_handle_errors", "check_column_presence", "check_column_names_are_unique",
                "check_column_values_are_unique", "run_schema_component_checks", "run_checks"}


def r3_snapshot_freshness(ctx, f):
    """A snapshot computed from the working object (D = g(X, ...)) and later handed to a checking stage must have been
    computed after the last parsing stage that redefined X: otherwise the checks are driven by metadata of the
    un-parsed object (e.g. columns added by add_missing_columns are never checked)."""
    cfg = cfg_of(f.node)
    data = None
    for p in f.positional[1:3]:
        if p in ("check_obj", "obj"):
            data = p
    if data is None:
        return 0
    # snapshots: names assigned from a call that takes the data object as an argument and are not themselves the data
    snaps = {}
    for s in function_stmts(f):
        if isinstance(s, ast.Assign) and len(s.targets) == 1 and isinstance(s.targets[0], ast.Name) and isinstance(s.value, ast.Call):
            t = s.targets[0].id
            if t == data:
                continue
            if any(isinstance(a, ast.Name) and a.id == data for a in s.value.args) and callee_last(s.value) not in STAGES \
                    and callee_last(s.value) not in ("subsample", "ErrorHandler"):
                snaps.setdefault(t, []).append(s)
    if not snaps:
        return 0
    rd = cfg.reaching_defs()
    n = 0
    # the uses: check-stage calls (possibly rows of a core_checks list) mentioning the snapshot
    for s in function_stmts(f):
        if not isinstance(s, (ast.Assign, ast.Expr, ast.Return, ast.AnnAssign)):
            continue
        node = cfg.node_of(s)
        if node is None:
            continue
        stage_here = [c for c in calls_in(s) if callee_last(c) in CHECK_STAGES] or (
            [1] if any(isinstance(a, ast.Attribute) and a.attr in CHECK_STAGES for a in ast.walk(s)) else [])
        if not stage_here:
            continue
        used = {x.id for x in ast.walk(s) if isinstance(x, ast.Name) and x.id in snaps}
        for d in sorted(used):
            n += 1
            stale = None
            for dd in rd[node.id].get(d, set()):
                # is there a (re)definition of the data object after this snapshot definition that reaches the use,
                # on a path along which the snapshot is not recomputed?
                defs_d = {cfg.node_of(x).id for x in snaps[d] if cfg.node_of(x) is not None}
                reach = cfg.reachable(dd, skip_nodes=defs_d - {dd}, skip_labels=("exc", "fin-exc"))
                for dx in rd[node.id].get(data, set()):
                    if dx in reach and dx != dd and dx != cfg.entry.id and node.id in cfg.reachable(dx, skip_nodes=defs_d, skip_labels=("exc", "fin-exc")):
                        stale = (dd, dx)
                        break
                if stale:
                    break
            ctx.ob("R3", f, f"{f.short}: `{d}` handed to `{txt(s)[:50]}` describes the parsed object", stale is None,
                   "recomputed after the last parsing stage" if stale is None else
                   f"`{d}` was computed at line {cfg.nodes[stale[0]].lineno} from `{data}`, which a parsing stage replaces at line "
                   f"{cfg.nodes[stale[1]].lineno} on a path that reaches this checking stage without recomputing `{d}`: the checks are driven by "
                   "the columns of the un-parsed object (e.g. columns added by add_missing_columns are never checked)", f.loc(s))
    return n


def run(ctx):
    ix = ctx.ix
    total = 0
    for bc in schema_backend_classes(ix):
        f = bc.method("validate")
        if f is not None and f.qual not in EXCLUDED:
            total += r3_snapshot_freshness(ctx, f)
    for f in scope(ix):
        if f.qual in EXCLUDED:
            ctx.notes.append(f"R1 named exclusion {f.short}: {EXCLUDED[f.qual]}")
            continue
        ctx.touched(f)
        total += analyse(ctx, f)
    ctx.stats["uses_examined"] = total
    ctx.assume("a stage is recognised by its method name; the data argument is the first positional / check_obj= argument")
