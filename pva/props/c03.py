"""C03 - whatever validate returns conforms to the schema (parse postcondition):
linear threading of the working object through the stages."""

from __future__ import annotations

import ast

from ..cfg import cfg_of
from ..index import AnalysisError, function_stmts, parent, walk_no_nested
from ..roles import api_classes, schema_backend_classes
from ..util import callee_last, calls_in, enclosing_stmt, kw, txt

EXPLANATION = (
    "Static dataflow analysis (per-function CFG, reaching definitions, dominators; nothing executed). The parsing "
    "stages (validate, coerce_dtype, set_default(s), add_missing_columns, strict_filter_columns, run_parsers, "
    "drop_invalid_rows, preprocess, .lazy()/.collect(), the callables of core_parsers) each return the object the next "
    "stage must use. (R1) in every API-level validate and every backend validate / parser pipeline, whenever a stage "
    "call `Y = stage(X, ...)` dominates a later stage call or return that still uses X although X was not redefined in "
    "between, the output of that stage is lost - reported as a stale use; (R2) every normal return of these functions "
    "returns a member of the working family (the data parameter or a stage result), and the result of every stage call "
    "on a family member is bound to a name (not discarded) unless the stage is check-only. One named exclusion: the "
    "inner check-only array validation inside pandas ColumnBackend.validate (its result is written back only when "
    "parsers are declared). (R3) a snapshot computed from the working object (column_info = collect_column_info(X, ...)) "
    "and handed to a checking stage (collect_schema_components, check_column_presence, ...) is recomputed after the "
    "last parsing stage that replaces X on every path - otherwise the checks are driven by the un-parsed columns. (R4) strict='filter' drops exactly the undeclared columns of the incoming frame (accumulator filled over column_info.destuttered_column_names under `strict == 'filter' and not in expanded_column_names`); (R5) the polars container fills the default of every column that declares one, with no extra condition; (R6) pandas add_missing_columns, while ranging over the frame's columns, iterates the insertion of pending missing columns (a run of several missing columns ahead of an existing one is placed in schema order); (R7) the pandas column / index / multi-index backends, which delegate to super().validate on an object derived from the working object, themselves store the coerced value back into the working object under schema.coerce. " 
    " (R8) the result of a helper that returns the parsed object on success and None after collecting an error is stored into / becomes the working object only under a None test. " 
    " R7 also requires the write-back to be conditional on schema.coerce only (not on a dtype comparison, which object-backed dtypes satisfy for any content). " 
    "NOT decided: that the output re-validates (a fixpoint property over values)."
    " (R9) the result of a component backend's `super().validate(...)` into the array backend (which fills defaults, runs parsers, drops rows) flows into a return value or a store on the working object; IndexBackend.validate only asserts on it (known finding)."
)
LEVEL_RULE = "one obligation per stage call / return in the validate methods and parser pipelines"
FLOORS = {"R1": 30, "R2": 12, "R3": 2, "R4": 2, "R5": 1, "R6": 1, "R7": 3}

STAGES = {"validate", "_validate", "coerce_dtype", "set_default", "set_defaults", "add_missing_columns",
          "strict_filter_columns", "run_parsers", "drop_invalid_rows", "preprocess", "lazy", "collect", "add_schema",
          "copy", "clone", "validate_column", "map_partitions"}
EXCLUDED = {
    "pandera/backends/pandas/components.py::ColumnBackend.validate":
        "inner array validation is check-only by design: defaults and coercion are applied to the column before it and "
        "the result is written back only `if schema.parsers`",
}


def scope(ix):
    fs = []
    for c in api_classes(ix):
        for n in ("validate", "_validate"):
            f = c.lookup(n)
            if f is not None and f not in fs:
                fs.append(f)
    for bc in schema_backend_classes(ix):
        for n in ("validate", "run_parsers", "coerce_dtype", "set_default", "set_defaults", "add_missing_columns",
                  "strict_filter_columns"):
            for f in bc.methods.get(n, []):
                if f not in fs:
                    fs.append(f)
    return fs


def data_arg(call: ast.Call, family):
    """The family member passed as the data argument of a stage call (first positional or check_obj=/obj=), or the
    receiver for conversions (x.lazy(), x.collect(), x.copy())."""
    last = callee_last(call)
    if last in ("lazy", "collect", "copy", "clone") and isinstance(call.func, ast.Attribute) and isinstance(call.func.value, ast.Name):
        return call.func.value.id if call.func.value.id in family else None
    if last == "add_schema" and isinstance(call.func, ast.Attribute):
        v = call.func.value
        if isinstance(v, ast.Attribute) and isinstance(v.value, ast.Name) and v.value.id in family:
            return v.value.id
        return None
    if last == "map_partitions" and isinstance(call.func, ast.Attribute) and isinstance(call.func.value, ast.Name):
        return call.func.value.id if call.func.value.id in family else None
    for k in call.keywords:
        if k.arg in ("check_obj", "obj", "data_container") and isinstance(k.value, ast.Name) and k.value.id in family:
            return k.value.id
    for a in call.args[:2]:
        if isinstance(a, ast.Name) and a.id in family:
            return a.id
    return None


def is_stage(call: ast.Call, loopvars) -> bool:
    last = callee_last(call)
    if last in STAGES:
        return True
    if isinstance(call.func, ast.Name) and call.func.id in loopvars:
        return True
    return False


def _derived(f, family):
    """Names whose value is computed (def-use closure) from a member of the working family."""
    out = set(family)
    changed = True
    while changed:
        changed = False
        for s in function_stmts(f):
            if isinstance(s, ast.Assign) and len(s.targets) == 1 and isinstance(s.targets[0], ast.Name):
                t = s.targets[0].id
                if t not in out and {n.id for n in ast.walk(s.value) if isinstance(n, ast.Name)} & out:
                    out.add(t)
                    changed = True
    return out


def analyse(ctx, f):
    cfg = cfg_of(f.node)
    data = None
    for p in f.positional[1:3]:
        if p in ("check_obj", "obj", "dataframe", "data"):
            data = p
            break
    if data is None:
        if f.name in ("run_parsers",) and "check_obj" in f.positional:
            data = "check_obj"
        else:
            return 0
    loopvars = set()
    from ..roles import callable_list_loops
    for loop, fns, _ in callable_list_loops(f):
        tv = loop.target.elts[0] if isinstance(loop.target, ast.Tuple) else loop.target
        if isinstance(tv, ast.Name):
            loopvars.add(tv.id)
    # working family: data parameter + names assigned from stage calls on family members (fixpoint)
    family = {data}
    changed = True
    stage_defs = []   # (stmt, target name, source name)
    while changed:
        changed = False
        stage_defs = []
        for s in function_stmts(f):
            val = None
            tgt = None
            if isinstance(s, ast.Assign) and len(s.targets) == 1 and isinstance(s.targets[0], ast.Name):
                tgt, val = s.targets[0].id, s.value
            if val is None:
                continue
            calls = [val] if isinstance(val, ast.Call) else ([val.body, val.orelse] if isinstance(val, ast.IfExp) else [])
            if isinstance(val, ast.Call) and callee_last(val) == "cast" and len(val.args) == 2:
                calls = [val.args[1]]
            for c in calls:
                if isinstance(c, ast.Call) and is_stage(c, loopvars):
                    src = data_arg(c, family)
                    if src is not None:
                        stage_defs.append((s, tgt, src))
                        if tgt not in family:
                            family.add(tgt)
                            changed = True
                elif isinstance(c, ast.Attribute) and c.attr == "parser_output":
                    stage_defs.append((s, tgt, None))
                    if tgt not in family:
                        family.add(tgt)
                        changed = True
    rd = cfg.reaching_defs(skip_labels=())
    dom = cfg.dominators()
    n = 0
    uses = []
    for s in function_stmts(f):
        node = cfg.node_of(s)
        if node is None or node.kind not in ("stmt",):
            continue
        if isinstance(s, ast.Return) and s.value is not None:
            v = s.value
            if isinstance(v, ast.Call) and callee_last(v) == "cast" and len(v.args) == 2:
                v = v.args[1]
            if isinstance(v, ast.Name) and v.id in family:
                uses.append((s, node, v.id, f"return {v.id}"))
            elif isinstance(v, ast.Call) and is_stage(v, loopvars):
                src = data_arg(v, family)
                if src is not None:
                    uses.append((s, node, src, f"return {txt(v.func)}({src}, ...)"))
            elif isinstance(v, ast.Name) and v.id in _derived(f, family):
                n += 1
                ctx.ob("R2", f, f"{f.short}: `{txt(s)}` returns the working object", True,
                       f"`{v.id}` is computed from the working object")
            elif isinstance(v, ast.Name):
                n += 1
                ctx.ob("R2", f, f"{f.short}: `{txt(s)}` returns the working object", False,
                       f"returns `{v.id}`, which is neither the data parameter nor the result of a parsing stage", f.loc(s))
            continue
        for c in calls_in(s):
            if is_stage(c, loopvars):
                src = data_arg(c, family)
                if src is not None:
                    uses.append((s, node, src, f"{txt(c.func)}({src}, ...)"))
    for s, node, x, label in uses:
        n += 1
        stale = None
        x_defs_here = rd[node.id].get(x, set())
        for ds, y, src in stage_defs:
            if src != x or y == x:
                continue
            dn = cfg.node_of(ds)
            if dn is None or dn.id == node.id or dn.id not in dom.get(node.id, set()):
                continue
            # X not redefined between the stage and this use
            x_defs_at_stage = rd[dn.id].get(x, set())
            if x_defs_here == x_defs_at_stage:
                # and Y still holds that stage's result here
                if dn.id in rd[node.id].get(y, set()):
                    stale = (ds, y)
                    break
        kind = "R2" if label.startswith("return") else "R1"
        ctx.ob(kind, f, f"{f.short}: `{label}` uses the most recent working object", stale is None,
               "no earlier stage output is bypassed" if stale is None else
               f"`{stale[1]} = {txt(stale[0].value)[:50]}` (line {stale[0].lineno}) already produced the next working object from "
               f"`{x}`, but this step still uses `{x}`: what that stage parsed (coerced values, filled defaults) is discarded",
               f.loc(s))
    # stage results that are dropped on the floor (expression statements)
    for s in function_stmts(f):
        if isinstance(s, ast.Expr) and isinstance(s.value, ast.Call) and is_stage(s.value, loopvars):
            src = data_arg(s.value, family)
            if src is not None and callee_last(s.value) not in ("add_schema",):
                n += 1
                ctx.ob("R2", f, f"{f.short}: result of `{txt(s.value.func)}({src}, ...)` is kept", False,
                       "the object returned by this parsing stage is discarded", f.loc(s))
    return n


CHECK_STAGES = {"collect_schema_components", "run_checks_and_handle_errors", "check_column_presence", "check_column_names_are_unique",
                "check_column_values_are_unique", "run_schema_component_checks", "run_checks"}


def r3_snapshot_freshness(ctx, f):
    """A snapshot computed from the working object (D = g(X, ...)) and later handed to a checking stage must have been
    computed after the last parsing stage that redefined X: otherwise the checks are driven by metadata of the
    un-parsed object (e.g. columns added by add_missing_columns are never checked)."""
    cfg = cfg_of(f.node)
    data = None
    for p in f.positional[1:3]:
        if p in ("check_obj", "obj"):
            data = p
    if data is None:
        return 0
    # snapshots: names assigned from a call that takes the data object as an argument and are not themselves the data
    snaps = {}
    for s in function_stmts(f):
        if isinstance(s, ast.Assign) and len(s.targets) == 1 and isinstance(s.targets[0], ast.Name) and isinstance(s.value, ast.Call):
            t = s.targets[0].id
            if t == data:
                continue
            if any(isinstance(a, ast.Name) and a.id == data for a in s.value.args) and callee_last(s.value) not in STAGES \
                    and callee_last(s.value) not in ("subsample", "ErrorHandler"):
                snaps.setdefault(t, []).append(s)
    if not snaps:
        return 0
    rd = cfg.reaching_defs()
    n = 0
    # the uses: check-stage calls (possibly rows of a core_checks list) mentioning the snapshot
    for s in function_stmts(f):
        if not isinstance(s, (ast.Assign, ast.Expr, ast.Return, ast.AnnAssign)):
            continue
        node = cfg.node_of(s)
        if node is None:
            continue
        stage_here = [c for c in calls_in(s) if callee_last(c) in CHECK_STAGES] or (
            [1] if any(isinstance(a, ast.Attribute) and a.attr in CHECK_STAGES for a in ast.walk(s)) else [])
        if not stage_here:
            continue
        used = {x.id for x in ast.walk(s) if isinstance(x, ast.Name) and x.id in snaps}
        for d in sorted(used):
            n += 1
            stale = None
            for dd in rd[node.id].get(d, set()):
                # is there a (re)definition of the data object after this snapshot definition that reaches the use,
                # on a path along which the snapshot is not recomputed?
                defs_d = {cfg.node_of(x).id for x in snaps[d] if cfg.node_of(x) is not None}
                reach = cfg.reachable(dd, skip_nodes=defs_d - {dd}, skip_labels=("exc", "fin-exc"))
                for dx in rd[node.id].get(data, set()):
                    if dx in reach and dx != dd and dx != cfg.entry.id and node.id in cfg.reachable(dx, skip_nodes=defs_d, skip_labels=("exc", "fin-exc")):
                        stale = (dd, dx)
                        break
                if stale:
                    break
            ctx.ob("R3", f, f"{f.short}: `{d}` handed to `{txt(s)[:50]}` describes the parsed object", stale is None,
                   "recomputed after the last parsing stage" if stale is None else
                   f"`{d}` was computed at line {cfg.nodes[stale[0]].lineno} from `{data}`, which a parsing stage replaces at line "
                   f"{cfg.nodes[stale[1]].lineno} on a path that reaches this checking stage without recomputing `{d}`: the checks are driven by "
                   "the columns of the un-parsed object (e.g. columns added by add_missing_columns are never checked)", f.loc(s))
    return n


def r4_filter_set(ctx):
    """strict='filter' removes exactly the columns of the incoming frame that the schema does not declare: the dropped
    labels are an accumulator filled, while ranging over column_info.destuttered_column_names (the frame's columns when
    column_info was taken), under `strict == 'filter' and column not in column_info.expanded_column_names`.  Computing
    the set from the *current* frame against the pre-parse column_info drops the columns add_missing_columns just added."""
    from ..util import path_condition, show_condition
    from .c08 import PDC, PLC, _twin_view
    for q in (PDC, PLC):
        cls = ctx.ix.cls(q)
        f = cls.lookup("strict_filter_columns")
        if f is None:
            raise AnalysisError(f"{q}.strict_filter_columns missing")
        ctx.touched(f)
        fx = _twin_view(f)
        drops = [c for c in calls_in(f.node) if callee_last(c) == "drop" and isinstance(c.func, ast.Attribute)]
        if not drops:
            ctx.ob("R4", f, f"{f.short}: undeclared columns are dropped under strict='filter'", False, "no drop(...) call: strict='filter' keeps undeclared columns")
            continue
        flavour = "polars" if "/polars/" in q else "pandas"
        for c in drops:
            arg = kw(c, "labels") or kw(c, "columns") or (c.args[0] if c.args else None)
            e = fx.expand(arg) if arg is not None else None
            acc = isinstance(e, ast.Name) and e.id.startswith("ACC_")
            if not acc:
                ctx.ob("R4", f, f"{flavour} strict_filter_columns: dropped labels are collected from the incoming frame's columns", False,
                       f"`{txt(c)[:80]}` drops `{txt(e)[:80] if e is not None else None}`, which is not the list collected while ranging over "
                       "column_info.destuttered_column_names: columns that a preceding parser (add_missing_columns) added are not in the "
                       "pre-parse column_info and get dropped again, so the returned frame lacks declared columns", f.loc(c))
                continue
            name = next(k for k, v in fx.acc.items() if v == e.id)
            sites = [s for s in function_stmts(f) if isinstance(s, ast.Expr) and isinstance(s.value, ast.Call) and callee_last(s.value) in ("append", "extend")
                     and txt(s.value.func.value) == name]
            ok = bool(sites)
            why = []
            for s in sites:
                el = fx.expand(s.value.args[0]) if s.value.args else None
                el_ok = el is not None and txt(el).startswith("ELEM_INFO_destuttered_column_names")
                pc = path_condition(fx.cfg, fx.cfg.node_of(s).id, expand=fx,
                                    keep=lambda t, n: ("strict" in t and "filter" in t) or "expanded_column_names" in t)
                d = dict(zip(pc[0], next(iter(pc[1])))) if len(pc[1]) == 1 else {}
                flt = [k for k in d if "filter" in k]
                mem = [k for k in d if "expanded_column_names" in k]
                c_ok = len(d) == 2 and len(flt) == 1 and len(mem) == 1 and d[flt[0]] is True and d[mem[0]] is False
                ok = ok and el_ok and c_ok
                why.append(f"appends `{txt(el) if el is not None else None}` under {show_condition(pc)}")
            ctx.ob("R4", f, f"{flavour} strict_filter_columns: dropped labels are collected from the incoming frame's columns", ok,
                   "; ".join(why) if why else "the dropped list is never filled", f.loc(c))


def r5_container_defaults(ctx):
    """polars: the container fills the default of every column schema that declares one.  The component validation fills
    defaults on its own throw-away copy before checking, so a column the container skips passes its checks while the
    returned frame still holds the nulls."""
    from ..flow import FlowExpander
    from ..util import path_condition, show_condition
    from .c08 import PLC
    cls = ctx.ix.cls(PLC)
    f = cls.lookup("set_default")
    if f is None:
        raise AnalysisError("polars container set_default missing")
    ctx.touched(f)
    fx = FlowExpander(f.node, {p: ("SCHEMA" if "schema" in p else "DATA") for p in f.positional[1:]})
    calls = [c for c in calls_in(f.node) if callee_last(c) == "set_default" and isinstance(c.func, ast.Attribute)]
    if not calls:
        ctx.ob("R5", f, "polars container applies the component defaults", False, "no component set_default call")
        return
    for c in calls:
        from ..util import enclosing_stmt
        st = enclosing_stmt(c)
        pc = path_condition(fx.cfg, fx.cfg.node_of(st).id, expand=fx)
        import re as _re
        extra = [a for a in pc[0] if "default" not in _re.sub(r"\b(ELEM|KEY|ACC)_\w+", "E", a)]
        # skipping a *non-regex* column that the frame does not have is fine (there is nothing to fill); regex-named columns
        # must still be reached although their name (a pattern) is never a frame column
        presence = [a for a in extra if " in " in a and (".name" in a or "KEY_" in a)]
        regex = [a for a in extra if a.endswith(".regex")]
        if presence and regex and len(presence) + len(regex) == len(extra):
            names_ = list(pc[0])
            reach = any(all((r[names_.index(a)] is False) for a in presence) and all(r[names_.index(a)] is True for a in regex) for r in pc[1])
            if reach:
                extra = []
        ctx.ob("R5", f, "polars container fills the default of every column that declares one", not extra,
               f"applied under {show_condition(pc)}" if not extra else
               f"the default is applied only under {show_condition(pc)}: the extra condition(s) {extra} skip columns (e.g. regex-named ones, whose "
               "name is a pattern) that the component validation still fills on its private copy - checks pass, the returned frame keeps the nulls",
               f.loc(c))


def r6_missing_column_runs(ctx):
    """add_missing_columns decides where each missing column goes while ranging over the frame's own columns (so that
    the order of the existing columns is untouched).  Several declared columns may be missing between two existing
    ones, so the insertion performed for one existing column must itself be iterated (an inner loop / comprehension /
    extend of a computed iterable over the pending schema columns): a bounded number of insertions per existing column
    leaves the rest of the run to the trailing 'remaining absent columns' step, i.e. out of schema order, and the
    ordered schema rejects the returned frame on re-validation."""
    from ..expand import expanded
    from .c08 import PDC
    cls = ctx.ix.cls(PDC)
    f0 = cls.lookup("add_missing_columns")
    if f0 is None:
        raise AnalysisError("pandas container add_missing_columns missing")
    ctx.touched(f0)
    f = expanded(ctx.ix, f0)
    data_params = set(f0.positional[1:])
    outer = []
    for n in walk_no_nested(f.node):
        if isinstance(n, ast.For) and isinstance(n.target, ast.Name):
            it = n.iter
            if any(isinstance(a, ast.Attribute) and a.attr == "columns" and isinstance(a.value, ast.Name) and a.value.id in data_params
                   and "schema" not in a.value.id for a in ast.walk(it)):
                outer.append(n)
    if not outer:
        ctx.ob("R6", f0, "missing columns are placed while ranging over the frame's columns", True,
               "no loop over the frame's columns: a different placement construction (not decided by this rule)")
        return
    for L in outer:
        lv = L.target.id
        inserts = []  # (call node, iterated?)

        def visit(stmts, depth):
            for st in stmts:
                for n in ([st] if not isinstance(st, (ast.For, ast.While, ast.If, ast.Try, ast.With)) else []):
                    for c in calls_in(n):
                        if isinstance(c.func, ast.Attribute) and c.func.attr in ("append", "insert", "extend") and c.args:
                            a = c.args[-1]
                            if isinstance(a, ast.Name) and a.id == lv:
                                continue
                            it = c.func.attr == "extend" and not isinstance(a, (ast.List, ast.Tuple))
                            in_comp = False
                            inserts.append((c, depth > 0 or it or in_comp))
                    if isinstance(n, ast.AugAssign) and isinstance(n.op, ast.Add):
                        inserts.append((n, not isinstance(n.value, (ast.List, ast.Tuple)) or depth > 0))
                if isinstance(st, (ast.For, ast.While)):
                    visit(st.body, depth + 1)
                    visit(st.orelse, depth)
                elif isinstance(st, ast.If):
                    visit(st.body, depth)
                    visit(st.orelse, depth)
                elif isinstance(st, ast.Try):
                    visit(st.body, depth)
                    for h in st.handlers:
                        visit(h.body, depth)
                    visit(st.finalbody, depth)
                elif isinstance(st, ast.With):
                    visit(st.body, depth)

        visit(L.body, 0)
        # only insertions into the list that also receives the loop variable (the ordered result) count
        res = {txt(c.func.value) for c in calls_in(L) if isinstance(c.func, ast.Attribute) and c.func.attr in ("append", "insert")
               and c.args and isinstance(c.args[-1], ast.Name) and c.args[-1].id == lv}
        rel = [(c, it) for c, it in inserts if (isinstance(c, ast.Call) and txt(c.func.value) in res) or
               (isinstance(c, ast.AugAssign) and txt(c.target) in res)]
        if not rel:
            ctx.ob("R6", f0, "missing columns are placed while ranging over the frame's columns", True,
                   "the loop over the frame's columns inserts nothing but the existing column (placement happens elsewhere; not decided by this rule)",
                   f0.loc(L))
            continue
        ok = any(it for _, it in rel)
        ctx.ob("R6", f0, "a run of several missing columns ahead of an existing column is inserted in place", ok,
               "the insertion of pending missing columns is iterated per existing column" if ok else
               f"`{txt(rel[0][0])[:70]}` executes at most {len(rel)} time(s) per existing column: with schema a,b,c,d and data a,d only b is placed "
               "before d and c is appended at the end (a,b,d,c) - validate(S, D') of the ordered schema then raises although D' = validate(S, D)",
               f0.loc(rel[0][0]))


def r7_component_writeback(ctx):
    """The pandas component backends (column, index, multi-index) validate by delegating to the array / dataframe backend
    on an object *derived* from the working object (`check_obj[col]`, `check_obj.index.to_series()`, a frame built from
    the index levels).  Whatever the delegate coerces lives in that derived object and is discarded, so the component
    itself must coerce under `schema.coerce` and store the result back into the working object it returns."""
    from ..expand import expanded
    from ..util import Expander
    ix = ctx.ix
    m = ix.module("pandera/backends/pandas/components.py")
    n = 0
    for c in m.classes.values():
        for f0 in c.methods.get("validate", []):
            f = expanded(ix, f0)
            delegates = [x for x in calls_in(f.node, nested=True) if callee_last(x) == "validate" and isinstance(x.func, ast.Attribute)
                         and isinstance(x.func.value, ast.Call) and callee_last(x.func.value) == "super"]
            if not delegates:
                continue
            ctx.touched(f0)
            n += 1
            data = next((p for p in f0.positional[1:3] if p in ("check_obj", "obj")), None)
            if data is None:
                raise AnalysisError(f"{f0.short}: no data parameter")
            from ..util import same_module_helpers
            from ..cfg import cfg_of as _cfg_of
            stores = []
            for h in same_module_helpers(ix, f0):
                hv = f if h is f0 else h
                # which local names of h denote the working object: the data parameter, or the parameter bound to it at the call
                roots = {data} if h is f0 else set()
                if h is not f0:
                    hp = [a.arg for a in h.node.args.args]
                    if hp and hp[0] in ("self", "cls"):
                        hp = hp[1:]
                    for g in same_module_helpers(ix, f0):
                        for cl in calls_in(g.node, nested=True):
                            if callee_last(cl) == h.name:
                                for k_, a in enumerate(cl.args):
                                    if isinstance(a, ast.Name) and a.id == data and k_ < len(hp):
                                        roots.add(hp[k_])
                                for kw_ in cl.keywords:
                                    if isinstance(kw_.value, ast.Name) and kw_.value.id == data and kw_.arg:
                                        roots.add(kw_.arg)
                if not roots:
                    continue
                ex = Expander(hv.node)
                hcfg = _cfg_of(hv.node)
                for st in walk_no_nested(hv.node):
                    if not isinstance(st, ast.Assign):
                        continue
                    for t in st.targets:
                        if not isinstance(t, (ast.Attribute, ast.Subscript)):
                            continue
                        root = t
                        while isinstance(root, (ast.Attribute, ast.Subscript)):
                            root = root.value
                        if not (isinstance(root, ast.Name) and root.id in roots):
                            continue
                        src = [x for d in ex.closure(st.value) for x in ast.walk(d) if isinstance(x, ast.Call) and "coerce" in callee_last(x)]
                        if not src:
                            continue
                        nd = hcfg.node_of(st)
                        guards = [txt(tst) for tst, _pol in (hcfg.guards(nd.id) if nd is not None else [])]
                        stores.append((st, guards))
            stores = [(st, gs) for st, gs in stores if any("coerce" in g for g in gs) or not gs]
            # ... and on nothing about the data's current dtype: "skip coercion when the dtype already matches" compares
            # dtypes only, which object-backed dtypes (str) satisfy for any content
            extra = [g for st, gs in stores for g in gs if "coerce" in g and ("dtype" in g or ".check(" in g)]
            if extra:
                ctx.ob("R7", f0, f"{f0.short}: coercion is written back whenever schema.coerce is set", False,
                       f"the write-back is also conditional on `{extra[0][:80]}`: a dtype-only test is true for every object index, so Index(str, coerce=True) "
                       "leaves non-string labels un-coerced while the checks run on a coerced copy", f0.loc(stores[0][0]))
            ok = bool(stores)
            ctx.ob("R7", f0, f"{f0.short}: coercion is written back into the working object", ok,
                   "; ".join(f"`{txt(st)[:60]}` under {gs or 'no guard'}" for st, gs in stores[:2]) if ok else
                   f"{len(delegates)} delegated validate call(s) run on an object derived from `{data}` and their result is not the returned object, "
                   f"and nothing stores a coerced value into `{data}`: with coerce=True the checks pass on the coerced copy while validate returns "
                   "the un-coerced data, which the same schema without coerce rejects", f0.loc(delegates[0]))
    ctx.stats["component_delegates"] = n
    if n < 3:
        raise AnalysisError(f"expected the column, index and multi-index backends to delegate to super().validate; found {n}")


def _may_return_none(h) -> bool:
    """the helper has a `return <value>` and also a path that ends without one (falls off the end / bare return)"""
    rets = [r for r in walk_no_nested(h.node) if isinstance(r, ast.Return)]
    if not any(r.value is not None and not (isinstance(r.value, ast.Constant) and r.value.value is None) for r in rets):
        return False
    if any(r.value is None or (isinstance(r.value, ast.Constant) and r.value.value is None) for r in rets):
        return True
    cfg = cfg_of(h.node)
    for p_, lab in cfg.pred[cfg.exit.id]:
        if lab not in ("return", "fin-return"):
            return True
    return False


def r8_optional_result_stored(ctx):
    """A helper of a validate function that returns the parsed object on success and falls off the end (None) when it
    has collected an error instead - its result may only be stored into / become the working object under a test that it
    is not None.  Otherwise a failing check in lazy mode overwrites the parsed column (or the whole working object) with
    None, and validate returns data the schema rejects."""
    from ..util import path_condition, same_module_helpers
    ix = ctx.ix
    n = 0
    for bc in schema_backend_classes(ix):
        for f in bc.methods.get("validate", []):
            if "pyspark" in f.module.path:
                continue
            helpers = {h.name: h for h in same_module_helpers(ix, f) if h is not f and _may_return_none(h)}
            if not helpers:
                continue
            data = next((p for p in f.positional[1:3] if p in ("check_obj", "obj")), None)
            cfg = cfg_of(f.node)
            opt = {}     # local name -> helper whose optional result it holds
            for st in function_stmts(f):
                if isinstance(st, ast.Assign) and isinstance(st.value, ast.Call) and callee_last(st.value) in helpers and len(st.targets) == 1 \
                        and isinstance(st.targets[0], ast.Name):
                    opt[st.targets[0].id] = (helpers[callee_last(st.value)], st)
            # the helper's result stored directly: `check_obj[col] = helper(...)`
            for st in function_stmts(f):
                if isinstance(st, ast.Assign) and isinstance(st.value, ast.Call) and callee_last(st.value) in helpers and len(st.targets) == 1 \
                        and isinstance(st.targets[0], (ast.Subscript, ast.Attribute)):
                    root = st.targets[0]
                    while isinstance(root, (ast.Attribute, ast.Subscript)):
                        root = root.value
                    if isinstance(root, ast.Name) and root.id == data:
                        n += 1
                        h = helpers[callee_last(st.value)]
                        ctx.ob("R8", f, f"{f.short}: the optional result of {h.name}() is used only when it is not None", False,
                               f"{h.name}() returns None after collecting an error (lazy mode); `{txt(st)[:70]}` stores it into the working object without a "
                               "None test: a failing check turns the parsed column into None and validate returns it", f.loc(st))
            for name, (h, st0) in sorted(opt.items()):
                sinks = []
                if name == data:
                    sinks.append((st0, f"`{txt(st0)[:60]}` replaces the working object"))
                for st in function_stmts(f):
                    if isinstance(st, ast.Assign) and isinstance(st.value, ast.Name) and st.value.id == name and name != data:
                        t = st.targets[0]
                        root = t
                        while isinstance(root, (ast.Attribute, ast.Subscript)):
                            root = root.value
                        if isinstance(root, ast.Name) and root.id == data:
                            sinks.append((st, f"`{txt(st)[:60]}` stores it into the working object"))
                    if isinstance(st, ast.Return) and isinstance(st.value, ast.Name) and st.value.id == name and name != data:
                        sinks.append((st, f"`{txt(st)}` returns it"))
                for st, what in sinks:
                    n += 1
                    node = cfg.node_of(st)
                    pc = path_condition(cfg, node.id, keep=lambda t, nn: t.replace(" ", "") in (f"{name}isNone", f"{name}isnotNone")) if node is not None else ((), frozenset())
                    guarded = bool(pc[0]) and st is not st0
                    # a positive kind test excludes None as well (`if is_table(result): ...`)
                    if not guarded and st is not st0 and node is not None:
                        guarded = any(pol and isinstance(t, ast.Call) and callee_last(t) in ("is_table", "is_field", "is_index", "is_table_or_field", "isinstance")
                                      and t.args and isinstance(t.args[0], ast.Name) and t.args[0].id == name for t, pol in cfg.guards(node.id))
                    kind = "becomes the working object" if st is st0 else ("is returned" if isinstance(st, ast.Return) else f"is stored into `{txt(st.targets[0])[:30]}`")
                    ctx.ob("R8", f, f"{f.short}: the optional result of {h.name}() {kind} only when it is not None", guarded,
                           "tested for None first" if guarded else
                           f"{h.name}() returns None after collecting an error (lazy mode); {what} without a None test: a failing check turns the "
                           "parsed column / the working object into None and validate returns it", f.loc(st))
    ctx.stats["optional_helper_results"] = n


def r9_delegated_result_not_discarded(ctx):
    """A component backend (Column, Index) delegates the value-level work - default filling, parsers, dropping invalid
    rows, then the checks - to the array backend and gets the *parsed* object back.  What validate returns has to carry
    that object: the result of `super().validate(...)` flows into a return value or into a store on the working object.
    If it is only asserted on, the checks ran on parsed labels the caller never receives: Index(float, default=0.0)
    validates index [1.0, NaN] and returns it unchanged, and the same schema with the parsing options off rejects it."""
    from ..util import Expander
    n = 0
    for path in ("pandera/backends/pandas/components.py",):
        m = ctx.ix.module(path)
        for f in m.all_functions:
            dele = [c for c in calls_in(f.node) if callee_last(c) == "validate" and isinstance(c.func, ast.Attribute)
                    and isinstance(c.func.value, ast.Call) and callee_last(c.func.value) == "super"]
            if not dele:
                continue
            # only delegations that land in the array backend (the one that fills defaults / runs the component's parsers);
            # MultiIndexBackend delegates to the container backend with a schema copy whose levels carry no parsing option
            bases = [b.name for b in (f.cls.mro() if f.cls is not None and hasattr(f.cls, "mro") else [])][1:] if f.cls is not None else []
            if f.cls is not None and "ArraySchemaBackend" not in bases:
                ctx.notes.append(f"R9 not applicable to {f.short}: super().validate is not the array backend ({bases[:1]})")
                continue
            ctx.touched(f)
            for c in dele:
                st = enclosing_stmt(c)
                n += 1
                names = {t.id for t in st.targets if isinstance(t, ast.Name)} if isinstance(st, ast.Assign) else set()
                used = isinstance(st, ast.Return)
                # closure of names: anything assigned from them counts as the result too
                grew = True
                while grew and names:
                    grew = False
                    for a in walk_no_nested(f.node):
                        if isinstance(a, ast.Assign) and any(isinstance(x, ast.Name) and x.id in names for x in ast.walk(a.value)):
                            for t in a.targets:
                                if isinstance(t, ast.Name) and t.id not in names:
                                    names.add(t.id)
                                    grew = True
                                elif isinstance(t, (ast.Attribute, ast.Subscript)):
                                    used = True
                for r in walk_no_nested(f.node):
                    if isinstance(r, ast.Return) and r.value is not None and any(isinstance(x, ast.Name) and x.id in names for x in ast.walk(r.value)):
                        used = True
                ctx.ob("R9", f, f"{f.short}: the object the array backend parsed reaches what validate returns", used,
                       "returned / stored into the working object" if used else
                       f"`{txt(st)[:60]}`: the parsed object is dropped (only asserted on): defaults and parsers of an Index schema change a temporary Series, the checks "
                       "pass on it and validate returns the original index - Index(float, default=0.0) returns index [1.0, NaN], which the same schema without default rejects",
                       f.loc(c))
    if n < 2:
        raise AnalysisError(f"component backends: delegating validate calls found: {n}")


def run(ctx):
    r4_filter_set(ctx)
    r8_optional_result_stored(ctx)
    r9_delegated_result_not_discarded(ctx)
    r7_component_writeback(ctx)
    r6_missing_column_runs(ctx)
    r5_container_defaults(ctx)
    ix = ctx.ix
    total = 0
    for bc in schema_backend_classes(ix):
        f = bc.method("validate")
        if f is not None and f.qual not in EXCLUDED:
            total += r3_snapshot_freshness(ctx, f)
    for f in scope(ix):
        if f.qual in EXCLUDED:
            ctx.notes.append(f"R1 named exclusion {f.short}: {EXCLUDED[f.qual]}")
            continue
        ctx.touched(f)
        total += analyse(ctx, f)
    ctx.stats["uses_examined"] = total
    ctx.assume("a stage is recognised by its method name; the data argument is the first positional / check_obj= argument")
