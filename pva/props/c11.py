"""C11 - drop_invalid_rows removes exactly the rows that violate a row-level constraint."""

from __future__ import annotations

import ast

from ..cfg import cfg_of
from ..expand import expanded
from ..index import AnalysisError, function_stmts, parent, walk_no_nested
from ..roles import schema_backend_classes
from ..util import Expander, callee_last, calls_in, enclosing_stmt, kw, names_in, path_condition, show_condition, txt
from . import c06

EXPLANATION = (
    "Static analysis of the drop_invalid_rows plumbing (CFG guards/dominators, fold shape; nothing executed). (R1) every "
    "backend validate raises SchemaDefinitionError exactly when drop_invalid_rows is set and lazy is not, and that test "
    "dominates the first stage that runs checks; (R2) shape of the removal: the pandas implementation folds over all "
    "collected errors, builds the mask as the negation of index.isin(failing labels) and selects with .loc, and returns "
    "the filtered object; the polars implementation AND-folds every check_output mask starting from True and filters; "
    "(R3) errors that are not attributable to rows (scalar failure cases / no check_output) are tested for before being "
    "used as row sets (typestate, shared with C06.R3); (R4) in every backend validate the drop is reached only when errors "
    "were collected and the option is set, its result is returned, and otherwise SchemaErrors is raised. (R5) in reshape_failure_cases no dropna() precedes the wide-to-long reshaping step (a row-wise dropna on the wide table loses failing rows that hold a null elsewhere); (R6) the object that the pandas column / index / multi-index backends hand to the delegated validation keeps the labels of the working object (no reset_index(drop=True) / .values / to_numpy), because drop_invalid_rows matches failure-case labels against check_obj.index. " 
    " (R7) the check_output a polars core check hands over is the single column CHECK_OUTPUT_KEY (select/alias, never a rename inside the frame of all selector-matched columns); (R8) a container validates its components so that a component's own drop_invalid_rows cannot swallow its errors; (R9) pandas drop_invalid_rows compares labels as objects (no eval of their printed form); (R10) the rows to drop derive from the complete check output, not from the failure-case report that n_failure_cases truncates. " 
    " (R11) pandas drop_invalid_rows never skips a collected error (no `continue` / bypass for errors without row-shaped failure cases). " 
    "NOT decided: "
    "row-set equality on real data; MultiIndex label round trip through str/eval."
    ' (R12) the per-row mask of the polars nullable check (the later check_output) is materialised from the final missing-value expression: at the statement that materialises it the reaching definitions of every step-wise built name equal those at the returns. R6 also recognises `pd.Series(obj.index)` (labels become values) as label-destroying.'
)
LEVEL_RULE = "one obligation per backend validate / fold step / typestate use"
FLOORS = {"R1": 5, "R2": 7, "R3": 2, "R4": 5, "R5": 1, "R6": 3, "R7": 3, "R8": 2, "R9": 1, "R10": 1, "R11": 1}


def _validates(ix):
    out = []
    for bc in schema_backend_classes(ix):
        f = bc.method("validate")
        if f is not None:
            f = expanded(ix, f)
            if any("drop_invalid_rows" in txt(n) for n in walk_no_nested(f.node) if isinstance(n, ast.Constant)):
                out.append(f)
    return out


def r1_precondition(ctx):
    for f in _validates(ctx.ix):
        ctx.touched(f)
        cfg = cfg_of(f.node)
        raises = [s for s in function_stmts(f) if isinstance(s, ast.Raise) and isinstance(s.exc, ast.Call) and callee_last(s.exc) == "SchemaDefinitionError"
                  and "drop_invalid_rows" in txt(s.exc)]
        if not raises:
            ctx.ob("R1", f, f"{f.short}: drop_invalid_rows requires lazy", False,
                   "no SchemaDefinitionError for drop_invalid_rows with lazy=False: the eager run raises on the first invalid row instead of dropping")
            continue
        r = raises[0]
        node = cfg.node_of(r)
        keep = lambda t, n: "drop_invalid_rows" in t or t == "lazy"
        pc = path_condition(cfg, node.id, keep=keep)
        d = dict(zip(pc[0], next(iter(pc[1])))) if len(pc[1]) == 1 else {}
        drop_atom = [k for k in d if "drop_invalid_rows" in k]
        ok = len(pc[1]) == 1 and d.get("lazy") is False and drop_atom and d[drop_atom[0]] is True
        # dominates the stage that runs the checks
        test = cfg.node_of(parent(r)) if isinstance(parent(r), ast.If) else None
        stage = [s for s in function_stmts(f) if any(callee_last(c) in ("run_checks_and_handle_errors",) for c in calls_in(s))
                 or (isinstance(s, ast.For) and any(isinstance(n, ast.Attribute) and n.attr == "passed" for n in ast.walk(s)))]
        dom_ok = True
        if test is not None and stage:
            dom = cfg.dominators()
            sn = cfg.node_of(stage[0])
            dom_ok = sn is not None and test.id in dom.get(sn.id, set())
        ctx.ob("R1", f, f"{f.short}: SchemaDefinitionError iff drop_invalid_rows and not lazy, before the checks", bool(ok) and dom_ok,
               f"raised under {show_condition(pc)}; precedes the checks: {dom_ok}", f.loc(r))


def r2_shape(ctx):
    ix = ctx.ix
    f = ix.func("pandera/backends/pandas/base.py::PandasSchemaBackend.drop_invalid_rows")
    ctx.touched(f)
    ex = Expander(f.node)
    data, handler = f.positional[1], f.positional[2]
    loops = [s for s in function_stmts(f) if isinstance(s, ast.For)]
    full_loops = [l for l in loops if ex.text(l.iter) == f"{handler}.schema_errors"]
    it_ok = bool(full_loops)
    ctx.ob("R2", f, "pandas: folds over all collected schema errors", it_ok,
           f"for err in {handler}.schema_errors" if it_ok else "the loop does not range over every collected error")
    # the cumulative selection  data = data.loc[~data.index.isin(<labels>)]  inside that loop
    sels = []
    for s in function_stmts(f):
        if isinstance(s, ast.Assign) and len(s.targets) == 1 and txt(s.targets[0]) == data and isinstance(s.value, ast.Subscript) \
                and txt(s.value.value) == f"{data}.loc":
            sels.append(s)
    inside = bool(sels) and all(any(p is l for p in _parents(s) for l in full_loops) for s in sels)
    ctx.ob("R2", f, "pandas: rows selected with .loc[mask] for each error, cumulatively", bool(sels) and inside,
           f"{data} = {data}.loc[mask] inside the loop" if sels and inside else "selection is not cumulative over the errors")
    neg = bool(sels)
    labels = []
    shown = None
    for s in sels:
        m = ex.expand(s.value.slice)
        shown = txt(m)
        good = isinstance(m, ast.UnaryOp) and isinstance(m.op, ast.Invert) and isinstance(m.operand, ast.Call) \
            and txt(m.operand.func) == f"{data}.index.isin" and len(m.operand.args) == 1
        neg = neg and good
        if good:
            labels.append(m.operand.args[0])
    ctx.ob("R2", f, f"pandas: mask = ~{data}.index.isin(<failing labels>)", neg,
           "negated membership of the row label" if neg else f"mask is `{shown}`: not the complement of the failing labels of the current frame")
    # every definition of the labels derives from <loop var>.failure_cases["index"]
    src_ok = bool(labels)
    for lab in labels:
        loopvar = next((txt(l.target) for l in full_loops), None)
        # the sources of the labels: follow every local definition (a re-definition in terms of the earlier value, e.g.
        # `index_values = pd.MultiIndex.from_tuples(index_values.apply(eval))`, is derived, not a source)
        defs = [lab]
        seen = set()
        leaves = []
        all_defs = {**{k: list(v) for k, v in ex.defs.items()}}
        for n_ in walk_no_nested(f.node):
            if isinstance(n_, ast.Assign) and len(n_.targets) == 1 and isinstance(n_.targets[0], ast.Name):
                all_defs.setdefault(n_.targets[0].id, [])
                if n_.value not in all_defs[n_.targets[0].id]:
                    all_defs[n_.targets[0].id].append(n_.value)
        while defs:
            d = defs.pop()
            local_refs = [n.id for n in ast.walk(d) if isinstance(n, ast.Name) and n.id in all_defs and n.id != loopvar]
            if f"{loopvar}.failure_cases" in txt(d) or not local_refs:
                leaves.append(d)
                continue
            for nm in local_refs:
                if nm not in seen:
                    seen.add(nm)
                    defs += all_defs[nm]
        want = (f"{loopvar}.failure_cases['index']", f'{loopvar}.failure_cases["index"]')
        src_ok = src_ok and bool(leaves) and all(any(w in txt(d) for w in want) for d in leaves)
    ctx.ob("R2", f, "pandas: failing labels come from err.failure_cases['index']", src_ok, "index column of the failure cases" if src_ok else "labels taken from elsewhere")
    ret = [s for s in function_stmts(f) if isinstance(s, ast.Return)]
    ok = bool(ret) and all(isinstance(s.value, ast.Name) and s.value.id == data for s in ret)
    ctx.ob("R2", f, "pandas: returns the filtered object", ok, f"return {data}" if ok else "returns something else")

    g = ix.func("pandera/backends/polars/base.py::PolarsSchemaBackend.drop_invalid_rows")
    ctx.touched(g)
    gx = Expander(g.node)
    gdata, ghandler = g.positional[1], g.positional[2]
    whole = gx.expand(ast.Module(body=[s for s in g.node.body if isinstance(s, ast.Return)], type_ignores=[]))
    folds = [c for c in ast.walk(whole) if isinstance(c, ast.Call) and callee_last(c) == "fold"]
    ok = False
    detail = "no fold reaches the returned frame"
    for c in folds:
        acc = kw(c, "acc") or (c.args[0] if c.args else None)
        fn = kw(c, "function") or (c.args[1] if len(c.args) > 1 else None)
        acc_ok = acc is not None and isinstance(acc, ast.Call) and callee_last(acc) == "lit" and acc.args and isinstance(acc.args[0], ast.Constant) and acc.args[0].value is True
        fn_ok = isinstance(fn, ast.Lambda) and isinstance(fn.body, ast.BinOp) and isinstance(fn.body.op, ast.BitAnd) \
            and {txt(fn.body.left), txt(fn.body.right)} == {a.arg for a in fn.args.args}
        ok = bool(acc_ok and fn_ok)
        detail = f"acc={txt(acc) if acc is not None else None}, function={txt(fn) if fn is not None else None}"
    ctx.ob("R2", g, "polars: AND-fold of the check_output masks starting from True", ok, detail)
    comps = [n for n in ast.walk(whole) if isinstance(n, ast.DictComp)]
    allerr = False
    why = "no dict of check outputs reaches the fold"
    for n in comps:
        gen = n.generators[0]
        it = gen.iter
        idx = None
        if isinstance(it, ast.Call) and callee_last(it) == "enumerate" and it.args and isinstance(gen.target, ast.Tuple):
            idx = txt(gen.target.elts[0])
            var = txt(gen.target.elts[1])
            src = txt(it.args[0])
        else:
            var, src = txt(gen.target), txt(it)
        over_all = src == f"{ghandler}.schema_errors" and not gen.ifs and len(n.generators) == 1
        val_ok = txt(n.value) == f"{var}.check_output"
        key_ok = idx is not None and idx in names_in(n.key) and not (names_in(n.key) - {idx, "str", "repr", "int", "format"})
        allerr = over_all and val_ok and key_ok
        why = ("one mask per collected error under a key that is distinct per error" if allerr else
               ("errors are filtered before the fold" if not over_all else
                (f"value `{txt(n.value)}` is not the error's check_output" if not val_ok else
                 f"key `{txt(n.key)}` is not injective in the position of the error: masks of different errors overwrite each other")))
    ctx.ob("R2", g, "polars: every collected error contributes its mask", allerr, why)
    filt = False
    for s in function_stmts(g):
        if isinstance(s, ast.Return):
            v = s.value
            filt = isinstance(v, ast.Call) and callee_last(v) == "filter" and txt(v.func.value) == gdata and len(v.args) == 1 \
                and any(isinstance(c, ast.Call) and callee_last(c) == "fold" for c in ast.walk(gx.expand(v.args[0])))
    ctx.ob("R2", g, f"polars: returns {gdata}.filter(valid_rows)", filt, "filter on the fold result" if filt else "result is not the frame filtered by the fold")


def _parents(n):
    p = parent(n)
    while p is not None:
        yield p
        p = parent(p)


def r3_typestate(ctx):
    """Same detector as C06.R3, restricted to the drop paths."""
    from ..report import Ctx
    sub = Ctx("C06", ctx.ix, ctx.tier)
    c06.r3_typestate(sub)
    for o in sub.obs:
        if "drop_invalid_rows" in o.func:
            ctx.ob("R3", o.func, o.construct, o.ok,
                   o.detail if o.ok else o.detail + "; a violation that is not attributable to rows must be raised, not consumed by the drop", o.loc)


def r4_wiring(ctx):
    for f in _validates(ctx.ix):
        cfg = cfg_of(f.node)
        drops = [s for s in function_stmts(f) if isinstance(s, (ast.Assign, ast.Expr, ast.Return)) and any(callee_last(c) == "drop_invalid_rows" and isinstance(c.func, ast.Attribute) for c in calls_in(s))]
        if not drops:
            if f.short.startswith("ColumnBackend") and "pandas" in f.module.path:
                # the pandas column backend drops through the array backend it delegates to
                ok = any("drop_invalid_rows" in txt(s.test) for s in function_stmts(f) if isinstance(s, ast.If))
                ctx.ob("R4", f, f"{f.short}: drop delegated to the array validation", ok, "re-validates the column with the dropped frame" if ok else "option ignored")
            else:
                ctx.ob("R4", f, f"{f.short}: drop_invalid_rows is applied", False, "the option is never applied in this backend")
            continue
        for s in drops:
            node = cfg.node_of(s)
            keep = lambda t, n: "drop_invalid_rows" in t or "collected_errors" in t
            pc = path_condition(cfg, node.id, keep=keep)
            d = dict(zip(pc[0], next(iter(pc[1])))) if len(pc[1]) == 1 else {}
            ok = bool(d) and all(v is True for v in d.values()) and any("collected_errors" in k for k in d) and any("drop_invalid_rows" in k for k in d)
            assigned = (isinstance(s, ast.Assign) and txt(s.targets[0]) == f.positional[1]) or isinstance(s, ast.Return)
            ctx.ob("R4", f, f"{f.short}: drop only when errors were collected and the option is set; result kept", ok and assigned,
                   f"reached under {show_condition(pc)}; result bound to `{f.positional[1]}`: {assigned}", f.loc(s))
        # the other branch raises SchemaErrors
        raises = [s for s in function_stmts(f) if isinstance(s, ast.Raise) and isinstance(s.exc, ast.Call) and callee_last(s.exc) == "SchemaErrors"]
        ok = False
        for r in raises:
            pc = path_condition(cfg, cfg.node_of(r).id, keep=lambda t, n: "drop_invalid_rows" in t)
            if pc[0] and pc[1] == frozenset({(False,)}):
                ok = True
        ctx.ob("R4", f, f"{f.short}: without the option the collected errors are raised", ok,
               "raise SchemaErrors under `not drop_invalid_rows`" if ok else "no SchemaErrors raise on the non-dropping branch")


def r5_no_rowwise_dropna_before_reshape(ctx):
    """The failing labels that drive the drop come from reshape_failure_cases.  Null *cells* are discarded only after a
    wide table of failure cases has been brought to long form (one row per cell): `DataFrame.dropna()` on the wide table
    removes every failing row that holds a null in any other column, and that row is then neither reported nor
    dropped.  So no path leads from a dropna() on the failure cases to the reshaping step (unstack / melt / stack)."""
    ix = ctx.ix
    m = ix.module("pandera/backends/pandas/error_formatters.py")
    f = m.functions.get("reshape_failure_cases")
    if f is None:
        raise AnalysisError("reshape_failure_cases not found")
    ctx.touched(f)
    cfg = cfg_of(f.node)
    drops, reshapes = [], []
    for st in function_stmts(f):
        node = cfg.node_of(st)
        if node is None:
            continue
        exprs = [st.test] if isinstance(st, (ast.If, ast.While)) else [st]
        for e in exprs:
            for c in calls_in(e):
                if callee_last(c) == "dropna" and not kw(c, "subset") and not (kw(c, "how") is not None and getattr(kw(c, "how"), "value", None) == "all"):
                    drops.append((c, node))
                if callee_last(c) in ("unstack", "melt", "stack"):
                    reshapes.append((c, node))
    if not reshapes:
        raise AnalysisError("reshape_failure_cases: no reshaping step found")
    bad = []
    for c, dn in drops:
        reach = cfg.reachable(dn.id)
        for r, rn in reshapes:
            if rn.id in reach and rn.id != dn.id:
                bad.append((c, r))
            elif rn.id == dn.id and c.lineno <= r.lineno and any(x is c for x in ast.walk(r)):
                bad.append((c, r))  # dropna() feeding the reshape within one expression
    ctx.ob("R5", f, "null cells are discarded after the failure cases are in long form", not bad,
           f"{len(drops)} dropna() call(s), none before {len(reshapes)} reshaping step(s)" if not bad else
           f"`{txt(bad[0][0])[:50]}` (line {bad[0][0].lineno}) runs before `{txt(bad[0][1])[-40:]}` (line {bad[0][1].lineno}): on a wide table it removes whole "
           "failing rows that hold a null in another column - such a row is neither reported nor dropped by drop_invalid_rows",
           f.loc(bad[0][0]) if bad else f.loc(f.node))


LABEL_DESTROYING = {"reset_index", "to_numpy", "tolist", "to_list"}


def r6_labels_survive_delegation(ctx):
    """drop_invalid_rows removes `check_obj.index.isin(<index labels of the failure cases>)`.  The pandas component
    backends run their checks on an object derived from the working object (a column, the index as a series, a frame of
    the index levels); the failure cases carry *that* object's index, so the derived object has to keep the labels of
    the working object.  Replacing them by positions (`reset_index(drop=True)`, rebuilding from `.values`) makes the
    drop remove the rows whose label happens to equal the position of an invalid row, and keep the invalid ones."""
    from ..util import same_module_helpers
    ix = ctx.ix
    m = ix.module("pandera/backends/pandas/components.py")
    n = 0
    for c in m.classes.values():
        for f0 in c.methods.get("validate", []):
            f = expanded(ix, f0)
            ex = Expander(f.node)
            for call in calls_in(f.node, nested=True):
                if not (callee_last(call) == "validate" and isinstance(call.func, ast.Attribute) and isinstance(call.func.value, ast.Call)
                        and callee_last(call.func.value) == "super"):
                    continue
                if not call.args:
                    continue
                n += 1
                ctx.touched(f0)
                data = call.args[0]
                exprs = list(ex.closure(data))
                # follow a private helper that builds the derived object (MultiIndex: self.__to_dataframe(check_obj.index))
                for d in list(exprs):
                    for x in ast.walk(d):
                        if isinstance(x, ast.Call) and isinstance(x.func, ast.Attribute) and isinstance(x.func.value, ast.Name) and x.func.value.id in ("self", "cls"):
                            h = c.lookup(x.func.attr) or c.lookup(f"_{c.name}{x.func.attr}")
                            if h is not None and h.module is m:
                                exprs += [r.value for r in walk_no_nested(h.node) if isinstance(r, ast.Return) and r.value is not None]
                                hx = Expander(h.node)
                                exprs += [e2 for r in walk_no_nested(h.node) if isinstance(r, ast.Return) and r.value is not None for e2 in hx.closure(r.value)]
                bad = []
                for d in exprs:
                    for x in ast.walk(d):
                        if isinstance(x, ast.Call) and callee_last(x) in LABEL_DESTROYING:
                            if callee_last(x) == "reset_index":
                                dr = kw(x, "drop")
                                if not (isinstance(dr, ast.Constant) and dr.value is True):
                                    continue
                            bad.append(x)
                        elif isinstance(x, ast.Attribute) and x.attr == "values" and not isinstance(parent(x), ast.Call):
                            bad.append(x)
                        elif isinstance(x, ast.Call) and callee_last(x) in ("Series", "DataFrame") and x.args and kw(x, "index") is None \
                                and any(isinstance(y, ast.Attribute) and y.attr == "index" for y in ast.walk(x.args[0])) \
                                and not isinstance(x.args[0], ast.Dict):
                            # pd.Series(obj.index): the labels become the values, the new index is 0..n-1
                            bad.append(x)
                ctx.ob("R6", f0, f"{f0.short}: the object handed to the delegated validation keeps the labels of the working object", not bad,
                       f"`{txt(data)[:60]}` preserves the index" if not bad else
                       f"`{txt(data)[:80]}` replaces the labels by positions (`{txt(bad[0])[-40:]}`): failure cases of index checks then name positions, and "
                       "drop_invalid_rows removes the rows whose *label* equals such a position while the invalid rows stay "
                       "(DataFrameSchema(index=Index(int, Check.lt(25)), drop_invalid_rows=True) on index [3, 20, 30, 2] returns rows 3, 20, 30)",
                       f0.loc(call))
    ctx.stats["delegated_validations"] = n
    if n < 3:
        raise AnalysisError(f"pandas components: expected 3 delegated validations (column, index, multi-index), found {n}")


def r12_polars_null_mask_is_the_final_expression(ctx):
    """The polars nullable check builds its missing-value expression in steps (`is_not_null()`, then `& is_not_nan()` for
    floats) and materialises it as the per-row mask that becomes `check_output` - the thing drop_invalid_rows filters with.
    The mask has to be taken from the *final* expression: materialised before the last step, the verdict (computed from the
    full expression) says "fails" while the mask marks nulls only, and the NaN rows survive drop_invalid_rows."""
    ix = ctx.ix
    m = ix.module("pandera/backends/polars/components.py")
    cb = m.classes.get("ColumnBackend")
    f0 = cb.lookup("check_nullable") if cb is not None else None
    if f0 is None:
        raise AnalysisError("polars ColumnBackend.check_nullable missing")
    ctx.touched(f0)
    f = expanded(ix, f0)
    cfg = cfg_of(f.node)
    rd = cfg.reaching_defs()
    data = f0.positional[1]
    # names assigned more than once (built in steps)
    counts = {}
    for st in function_stmts(f):
        if isinstance(st, (ast.Assign, ast.AugAssign)):
            for t in (st.targets if isinstance(st, ast.Assign) else [st.target]):
                if isinstance(t, ast.Name):
                    counts[t.id] = counts.get(t.id, 0) + 1
    stepwise = {k for k, v in counts.items() if v > 1}
    masks = [st for st in function_stmts(f) if isinstance(st, ast.Assign) and isinstance(st.value, ast.Call) and callee_last(st.value) == "select"
             and isinstance(st.value.func, ast.Attribute) and txt(st.value.func.value) == data
             and any(isinstance(x, ast.Name) and x.id in stepwise for a in st.value.args for x in ast.walk(a))]
    if not masks:
        # the expression is built in one step (or the mask is not named): nothing can be materialised too early
        ctx.ob("R12", f0, "polars check_nullable: the per-row mask is taken from the final missing-value expression", True, "expression not built in steps")
        return
    ends = [n_ for n_ in cfg.nodes if n_.kind == "stmt" and isinstance(n_.ast, ast.Return)]
    for st in masks:
        node = cfg.node_of(st)
        for nm in {x.id for a in st.value.args for x in ast.walk(a) if isinstance(x, ast.Name) and x.id in stepwise}:
            here = rd.get(node.id, {}).get(nm, set())
            final = set()
            for e in ends:
                final |= rd.get(e.id, {}).get(nm, set())
            ok = here == final
            ctx.ob("R12", f0, f"polars check_nullable: the per-row mask `{txt(st.targets[0])}` is taken from the final `{nm}`", ok,
                   "materialised after the last step" if ok else
                   f"`{txt(st)[:60]}` materialises `{nm}` before its last step (`& is_not_nan()`): check_output / failure cases mark nulls only while the verdict counts NaN - "
                   "with drop_invalid_rows=True the NaN rows of a non-nullable float column are kept", f0.loc(st))


def r7_polars_check_output_is_one_column(ctx):
    """polars drop_invalid_rows AND-folds the boolean column CHECK_OUTPUT_KEY of every collected error.  A core check that
    runs over a selector (a regex column matches several columns) must hand over exactly that one column:
    `frame.select(pl.col(c).alias(KEY))`.  `frame.rename({c: KEY})` keeps the other matched columns next to it; the fold
    then sees a struct instead of a boolean and ignores the error - rows with nulls in a regex-matched non-nullable
    column are kept and nothing is raised."""
    ix = ctx.ix
    n = 0
    for m in ix.modules.values():
        if not m.path.startswith("pandera/backends/polars/"):
            continue
        for f in m.all_functions:
            ex = None
            for c in calls_in(f.node, nested=True):
                if callee_last(c) != "CoreCheckResult":
                    continue
                v = kw(c, "check_output")
                if v is None or (isinstance(v, ast.Constant) and v.value is None):
                    continue
                ex = ex or Expander(f.node)
                n += 1
                renames = [x for d in ex.closure(v) for x in ast.walk(d) if isinstance(x, ast.Call) and callee_last(x) == "rename"
                           and any("CHECK_OUTPUT_KEY" in txt(a) for a in list(x.args) + [k.value for k in x.keywords])]
                ctx.ob("R7", f, f"{f.short}: check_output is the single column CHECK_OUTPUT_KEY", not renames,
                       "selected / aliased as one column" if not renames else
                       f"`{txt(renames[0])[:70]}` renames one column of a frame that holds every column matched by the selector: with a regex column the "
                       "other matched columns stay in check_output and drop_invalid_rows ignores the error (invalid rows are returned, nothing is raised)",
                       f.loc(renames[0]) if renames else f.loc(c))
    ctx.stats["polars_check_outputs"] = n
    if n < 3:
        raise AnalysisError(f"polars backends: only {n} CoreCheckResult(check_output=...) sites found")


def r8_component_errors_reach_the_container(ctx):
    """A column / index component has its own `drop_invalid_rows` flag.  When it is set the component drops rows from
    *its* result and raises nothing.  The containers validate their components for the errors only (the component's
    return value is not the object they go on with), so unless the container switches the flag off on the component it
    validates, a `Column(..., drop_invalid_rows=True)` inside a DataFrameSchema is neither checked nor dropped: the
    invalid rows are returned."""
    from .c08 import PDC, PLC
    ix = ctx.ix
    for q in (PDC, PLC):
        f = ix.cls(q).lookup("run_schema_component_checks")
        if f is None:
            raise AnalysisError(f"{q}.run_schema_component_checks missing")
        ctx.touched(f)
        flavour = "polars" if "/polars/" in q else "pandas"
        data = f.positional[1]
        vals = [c for c in calls_in(f.node) if callee_last(c) == "validate" and isinstance(c.func, ast.Attribute) and c.args
                and isinstance(c.args[0], ast.Name) and c.args[0].id == data]
        if not vals:
            raise AnalysisError(f"{flavour} run_schema_component_checks: component validate call not found")
        for c in vals:
            comp = txt(c.func.value)
            st = enclosing_stmt(c)
            rebinds = isinstance(st, ast.Assign) and any(isinstance(t, ast.Name) and t.id == data for t in st.targets)
            off = any(isinstance(x, ast.Assign) and any(isinstance(t, ast.Attribute) and t.attr == "drop_invalid_rows" and txt(t.value) == comp for t in x.targets)
                      and isinstance(x.value, ast.Constant) and x.value.value is False for x in walk_no_nested(f.node)) \
                or (kw(c, "drop_invalid_rows") is not None)
            ok = rebinds or off
            ctx.ob("R8", f, f"{flavour} container: a component's own drop_invalid_rows cannot swallow its errors", ok,
                   "the component result becomes the working object" if rebinds else ("the flag is switched off on the validated component" if off else
                   f"`{txt(c)[:60]}` is used for its errors only, and nothing switches `{comp}.drop_invalid_rows` off: DataFrameSchema({{'a': Column(int, Check.ge(0), "
                   "drop_invalid_rows=True)}).validate(df with a == -1, lazy=True) returns the invalid row and raises nothing"), f.loc(c))


def r9_labels_not_rebuilt_by_eval(ctx):
    """The labels of the rows to drop are compared with check_obj.index as objects.  Rebuilding MultiIndex labels from
    their *printed* form with eval() works for tuples of numbers and strings only: a Timestamp or NaN level prints as
    `Timestamp('...')` / `nan` and eval raises NameError out of validate."""
    ix = ctx.ix
    f = ix.func("pandera/backends/pandas/base.py::PandasSchemaBackend.drop_invalid_rows")
    ctx.touched(f)
    evals = [x for x in ast.walk(f.node) if isinstance(x, ast.Name) and x.id in ("eval", "literal_eval") and isinstance(x.ctx, ast.Load)]
    ctx.ob("R9", f, "pandas drop_invalid_rows compares labels as objects (no eval of their printed form)", not evals,
           "labels used as recorded" if not evals else
           f"`{txt(getattr(evals[0], '_parent', evals[0]))[:60]}` re-creates MultiIndex labels by evaluating their string form: a (Timestamp, int) or NaN-containing "
           "MultiIndex with drop_invalid_rows=True raises NameError: name 'Timestamp' / 'nan' is not defined", f.loc(evals[0]) if evals else None)


def r10_rows_from_complete_output(ctx):
    """Which rows to drop has to be computed from the complete verdict of each check (its boolean output), as the polars
    backend does.  The failure cases are a *report*: Check(n_failure_cases=k) truncates them to the first k and
    ignore_na removes nulls, so dropping `index.isin(failure_cases['index'])` leaves the other invalid rows in the
    returned object (and a second validate drops further rows)."""
    ix = ctx.ix
    f = ix.func("pandera/backends/pandas/base.py::PandasSchemaBackend.drop_invalid_rows")
    ex = Expander(f.node)
    reads_report = [x for x in walk_no_nested(f.node) if isinstance(x, ast.Attribute) and x.attr == "failure_cases" and isinstance(x.ctx, ast.Load)]
    reads_output = [x for x in walk_no_nested(f.node) if isinstance(x, ast.Attribute) and x.attr == "check_output" and isinstance(x.ctx, ast.Load)]
    if not reads_report and not reads_output:
        raise AnalysisError("pandas drop_invalid_rows reads neither failure_cases nor check_output of the collected errors")
    from_report = bool(reads_report) and not reads_output
    ctx.ob("R10", f, "pandas drop_invalid_rows takes the rows to drop from the complete check output", not from_report,
           "labels derive from the check output" if not from_report else
           f"`{txt(getattr(reads_report[0], '_parent', reads_report[0]))[:60]}` takes the labels from err.failure_cases, the (truncatable) report: "
           "Column(int, Check.gt(0, n_failure_cases=1)) on [1,-2,-3,4,-5] returns [1,-3,4,-5]", f.loc(reads_report[0]) if reads_report else None)


def r11_no_error_skipped(ctx):
    """drop_invalid_rows may return an object only if every collected error was turned into dropped rows.  A `continue`
    (or a conditional that bypasses the drop) for errors whose failure cases are not row-shaped forgets violations that
    dropping rows cannot repair - a wrong dtype, a missing column, a failing aggregate check - and returns the
    non-conforming object without raising."""
    ix = ctx.ix
    f = ix.func("pandera/backends/pandas/base.py::PandasSchemaBackend.drop_invalid_rows")
    ctx.touched(f)
    loops = [lp for lp in walk_no_nested(f.node) if isinstance(lp, ast.For)]
    if not loops:
        raise AnalysisError("pandas drop_invalid_rows: no loop over the collected errors")
    skips = []
    for lp in loops:
        for x in ast.walk(lp):
            if isinstance(x, ast.Continue):
                skips.append(x)
        # the statement that narrows check_obj sits under a condition without a raising alternative
        for st in ast.walk(lp):
            if isinstance(st, ast.If) and not st.orelse and any(isinstance(y, ast.Call) and callee_last(y) == "isin" for b in st.body for y in ast.walk(b)) \
                    and not any(isinstance(y, ast.Raise) for y in ast.walk(st)):
                skips.append(st)
    ctx.ob("R11", f, "pandas drop_invalid_rows turns every collected error into dropped rows (or raises)", not skips,
           "no error is skipped" if not skips else
           f"line {skips[0].lineno}: some collected errors are skipped: a violation that has no row-shaped failure cases (dtype, missing column, aggregate check) "
           "is forgotten and the non-conforming object is returned", f.loc(skips[0]) if skips else None)


def run(ctx):
    r1_precondition(ctx)
    r2_shape(ctx)
    r3_typestate(ctx)
    r4_wiring(ctx)
    r5_no_rowwise_dropna_before_reshape(ctx)
    r6_labels_survive_delegation(ctx)
    r7_polars_check_output_is_one_column(ctx)
    r12_polars_null_mask_is_the_final_expression(ctx)
    r8_component_errors_reach_the_container(ctx)
    r9_labels_not_rebuilt_by_eval(ctx)
    r10_rows_from_complete_output(ctx)
    r11_no_error_skipped(ctx)
    ctx.assume("Index.isin / DataFrame.loc / LazyFrame.filter have their documented meaning")
