"""C09 - dtype resolution coherent: registry coherence rules over the literal
part of every engine's `register_dtype` table."""

from __future__ import annotations

import ast
import re

from ..index import AnalysisError, dotted, parent, walk_no_nested
from ..util import callee_last, calls_in, kw, txt

EXPLANATION = (
    "Static registry-coherence analysis of the dtype engines (ast only). Enumerates every class decorated with "
    "<Engine>.register_dtype in numpy/pandas/pyarrow/polars/pyspark/geopandas engines and decides: (R1) no literal "
    "equivalence key is registered for two different classes of one engine (mutually exclusive if/else definitions "
    "excepted); (R2) per row: width suffix of the class name == bit_width literal == width in the native `type` "
    "literal, kind/signedness of the abstract pandera base agrees with the name, string aliases carry the same "
    "kind and width, and the abstract families in dtypes.py have bit_width == name suffix; (R3) Int/Float/Complex "
    ".check are conjunctions of isinstance(own kind) and bit_width (and signed) equalities and engine DataType.check "
    "resolves through Engine.dtype first; (R4) every registered class is @immutable and classes defining __eq__ keep "
    "a hash; (R5) generated number families are called with names/sizes for which classes exist; (R6) duplicate "
    "Arrow* definitions agree (bodies compared modulo local names); (R7) every from_parametrized_dtype passes, for each "
    "argument slot of the native type built by the class initialiser, one of the init fields that feed that slot, with a "
    "value derived from the source dtype (so E.dtype(native) keeps unit / tz / categories / precision ...); (R8) no "
    "Engine.dtype resolver writes shared state (no memo keyed by native dtype objects, whose equality is coarser than "
    "pandera's); (R9) every engine-level check override establishes the kind of the other type (native type equality / isinstance / inherited check) besides comparing parameters; (R10) a resolver re-parses the printed name of a numpy dtype only under a test of its kind (sized string/bytes/void names are not parseable). (R11) register_dtype installs a from_parametrized_dtype hook only when the class defines it in its own namespace (`in cls.__dict__`) and reads it from there - an inherited hook re-registered for a user subclass would take over the parent's native types. " 
    " (R12) a dataclass field that the native constructor canonicalises (DateTime.tz) is re-bound from the native object in __post_init__, so equal native types give equal, equally hashed dtypes; (R13) the infer_dtype labels 'mixed-integer' / 'mixed' are equivalents of the object dtype only. " 
    " (R14) no engine check() asserts the kind of the other dtype - it answers False. " 
    "NOT decided: closure of the runtime registry under resolve/print/resolve, "
    "parameterised types, anything depending on what pandas/numpy/pyarrow objects print."
    " (R15) in _build_number_equivalents / _register_numpy_numbers every key of the per-width collection depends on the width variable (directly or through a local computed from it); width-independent keys (the default instance / class / builtin) appear only in the part guarded by a condition on the width - otherwise each width's registration overwrites the previous one and the key resolves to the last width."
)
LEVEL_RULE = "one obligation per registry row / key / family member / duplicate pair found in the current tree"
FLOORS = {"R1": 150, "R2": 60, "R3": 5, "R4": 100, "R5": 6, "R6": 20, "R7": 20, "R8": 3, "R9": 8, "R10": 1, "R11": 1, "R12": 1, "R13": 2, "R14": 1}

ENGINE_FILES = [
    "pandera/engines/numpy_engine.py", "pandera/engines/pandas_engine.py", "pandera/engines/pyarrow_engine.py",
    "pandera/engines/polars_engine.py", "pandera/engines/pyspark_engine.py", "pandera/engines/geopandas_engine.py",
]

NAME_RE = re.compile(r"^(?:Arrow)?(U?INT|U?Int|FLOAT|Float|COMPLEX|Complex)(\d+)$")
KIND = {"int": "Int", "uint": "UInt", "float": "Float", "complex": "Complex"}


def _norm_key(m, node):
    """Normalised text of an equivalence key with the module alias expanded."""
    t = txt(node)
    d = None
    base = node
    while isinstance(base, (ast.Call, ast.Attribute, ast.Subscript)):
        base = base.func if isinstance(base, ast.Call) else base.value
    if isinstance(base, ast.Name) and base.id in m.imports:
        full = m.imports[base.id]
        t = re.sub(rf"^{re.escape(base.id)}\b", full, t)
    return t


def _exclusive(a: ast.AST, b: ast.AST) -> bool:
    """True when a and b live in different branches of the same if statement."""
    def chain(n):
        out = []
        p = parent(n)
        c = n
        while p is not None:
            if isinstance(p, ast.If):
                out.append((id(p), "body" if c in p.body else "orelse"))
            c, p = p, parent(p)
        return out
    ca, cb = dict(chain(a)), dict(chain(b))
    return any(k in cb and cb[k] != v for k, v in ca.items())


def registered_classes(ix, tier="quick"):
    rows = []
    for path in ENGINE_FILES:
        m = ix.by_path.get(path)
        if m is None:
            raise AnalysisError(f"engine module missing: {path}")
        for n in ast.walk(m.tree):
            if not isinstance(n, ast.ClassDef):
                continue
            for d in n.decorator_list:
                call = d if isinstance(d, ast.Call) else None
                fn = call.func if call else d
                if isinstance(fn, ast.Attribute) and fn.attr == "register_dtype":
                    eng = ix.resolve_expr(m, fn.value)
                    engq = eng[1].qual if eng and eng[0] == "class" else txt(fn.value)
                    eq = kw(call, "equivalents") if call else None
                    rows.append({"module": m, "cls": n, "engine": engq, "equivalents": eq, "deco": d})
    return rows


def _class_assign(cls_node, name):
    for s in cls_node.body:
        if isinstance(s, ast.Assign) and any(isinstance(t, ast.Name) and t.id == name for t in s.targets):
            return s.value
        if isinstance(s, ast.AnnAssign) and isinstance(s.target, ast.Name) and s.target.id == name and s.value is not None:
            return s.value
    return None


def _mro_names(ix, m, cls_node):
    """dotted base names along the (index) MRO, incl. external ones."""
    ci = None
    for c in ix.classes_by_name.get(cls_node.name, []):
        if c.node is cls_node:
            ci = c
    if ci is None:
        return [], None
    names = []
    for k in ci.mro():
        names.append(f"{k.module.name}.{k.name}")
    return names, ci


def r1_collisions(ctx, rows):
    by_engine = {}
    for r in rows:
        eqs = r["equivalents"]
        if not isinstance(eqs, (ast.List, ast.Tuple, ast.Set)):
            continue
        for k in eqs.elts:
            by_engine.setdefault(r["engine"], {}).setdefault(_norm_key(r["module"], k), []).append(r)
    for eng, keys in sorted(by_engine.items()):
        for key, rs in sorted(keys.items()):
            names = {}
            for r in rs:
                names.setdefault(r["cls"].name, []).append(r)
            clash = []
            items = list(names.items())
            for i in range(len(items)):
                for j in range(i + 1, len(items)):
                    a, b = items[i][1][0], items[j][1][0]
                    if a["module"] is b["module"] and _exclusive(a["cls"], b["cls"]):
                        continue
                    clash.append((items[i][0], items[j][0]))
            r0 = rs[0]
            ctx.ob("R1", f"{eng}", f"equivalence key {key}", not clash,
                   (f"key registered for different classes {clash}: the later registration silently wins, so "
                    f"Engine.dtype({key}) resolves to the wrong type") if clash else
                   f"registered for {sorted(names)} only",
                   f"{r0['module'].path}:{r0['cls'].lineno}")


def _width_in(text):
    m = re.search(r"(\d+)", text)
    return int(m.group(1)) if m else None


def r2_rows(ctx, rows):
    ix = ctx.ix
    for r in rows:
        cls, m = r["cls"], r["module"]
        mt = NAME_RE.match(cls.name)
        if not mt:
            continue
        kind = mt.group(1).lower()
        width = int(mt.group(2))
        probs = []
        bw = _class_assign(cls, "bit_width")
        if bw is not None:
            if not (isinstance(bw, ast.Constant) and bw.value == width):
                probs.append(f"bit_width = {txt(bw)} but class name says {width}")
        else:
            # inherited: must come from an abstract base with that width
            names, ci = _mro_names(ix, m, cls)
            inherited = None
            if ci:
                for k in ci.mro()[1:]:
                    v = _class_assign(k.node, "bit_width")
                    if v is not None:
                        inherited = v
                        break
            if inherited is None or not (isinstance(inherited, ast.Constant) and inherited.value == width):
                probs.append(f"inherits bit_width {txt(inherited) if inherited is not None else None}, name says {width}")
        ty = _class_assign(cls, "type")
        if ty is not None and "pyspark" not in m.path:
            t = txt(ty)
            low = t.lower()
            w = _width_in(t)
            if w is not None and w != width:
                probs.append(f"native type {t} has width {w}, class name says {width}")
            tk = "uint" if "uint" in low else ("int" if "int" in low else ("float" if "float" in low else ("complex" if "complex" in low else None)))
            if tk is not None and tk != kind:
                probs.append(f"native type {t} is {tk}, class name says {kind}")
        names, ci = _mro_names(ix, m, cls)
        want = f"pandera.dtypes.{KIND[kind]}"
        fam = [n for n in names if n.startswith("pandera.dtypes.")]
        if ci is not None:
            if not any(n == want or n.startswith(want) and n[len(want):].isdigit() for n in fam):
                probs.append(f"no abstract base {want}* in MRO {fam}")
            if kind == "int" and any(n.startswith("pandera.dtypes.UInt") for n in fam):
                probs.append("signed class inherits from dtypes.UInt (signed=False)")
            if kind == "float" and any(n.startswith("pandera.dtypes.Int") or n.startswith("pandera.dtypes.UInt") for n in fam):
                probs.append("float class inherits an integer base")
        eqs = r["equivalents"]
        if isinstance(eqs, (ast.List, ast.Tuple)):
            for k in eqs.elts:
                if isinstance(k, ast.Constant) and isinstance(k.value, str):
                    w = _width_in(k.value)
                    lowk = k.value.lower()
                    kk = "uint" if "uint" in lowk else ("int" if "int" in lowk else ("float" if "float" in lowk else ("complex" if "complex" in lowk else None)))
                    if w is not None and w != width and kk is not None:
                        probs.append(f"string alias {k.value!r} names width {w}")
                    if kk is not None and kk != kind:
                        probs.append(f"string alias {k.value!r} names kind {kk}")
                else:
                    t = txt(k)
                    w = _width_in(t.split(".")[-1]) if re.search(r"(int|float|complex)\d+", t.lower()) else None
                    if w is not None and w != width:
                        probs.append(f"alias {t} names width {w}")
        ctx.ob("R2", f"{m.path}::{cls.name}", f"row {cls.name} (engine {r['engine'].split('::')[0].split('/')[-1]})",
               not probs, "; ".join(probs) if probs else f"name/bit_width/type/base/aliases agree on {kind}{width}",
               f"{m.path}:{cls.lineno}")
    # abstract families in dtypes.py
    dm = ix.module("pandera/dtypes.py")
    for name, ci in sorted(dm.classes.items()):
        mt = re.match(r"^(U?Int|Float|Complex)(\d+)$", name)
        if not mt:
            continue
        bw = _class_assign(ci.node, "bit_width")
        ok = isinstance(bw, ast.Constant) and bw.value == int(mt.group(2))
        fam_ok = ci.is_subclass_of(mt.group(1))
        signed_ok = True
        if mt.group(1) == "Int":
            signed_ok = not ci.is_subclass_of("UInt")
        ctx.ob("R2", f"pandera/dtypes.py::{name}", f"abstract family member {name}",
               ok and fam_ok and signed_ok,
               f"bit_width={txt(bw) if bw is not None else None}, subclass of {mt.group(1)}: {fam_ok}, signedness ok: {signed_ok}",
               f"pandera/dtypes.py:{ci.node.lineno}")


def _conj_set(e):
    if isinstance(e, ast.BoolOp) and isinstance(e.op, ast.And):
        out = []
        for v in e.values:
            out += _conj_set(v)
        return out
    return [e]


def r3_recognition(ctx):
    ix = ctx.ix
    dm = ix.module("pandera/dtypes.py")
    for cname, attrs in (("Int", ["signed", "bit_width"]), ("Float", ["bit_width"]), ("Complex", ["bit_width"])):
        ci = dm.classes.get(cname)
        if ci is None:
            raise AnalysisError(f"dtypes.{cname} not found")
        f = ci.method("check")
        if f is None:
            ctx.ob("R3", f"pandera/dtypes.py::{cname}", f"{cname}.check", False, "family has no check of its own: falls back to ==")
            continue
        other = f.positional[1] if len(f.positional) > 1 else None
        probs = []
        from ..util import boolean_verdict, canon_atom
        bv = boolean_verdict(f.node)
        if bv is None:
            probs.append("the verdict is not a decision of boolean returns")
        else:
            names, table = bv
            want = {f"isinstance({other}, {cname})"}
            for a_ in attrs:
                l, r = sorted((f"self.{a_}", f"{other}.{a_}"))
                want.add(f"{l} == {r}")
            dep = {names[i] for i in range(len(names)) if any(table[k] != table[k[:i] + (not k[i],) + k[i + 1:]] for k in table)}
            for w in sorted(want - dep):
                probs.append(f"the verdict does not depend on `{w}`")
            for x in sorted(dep - want):
                probs.append(f"unexpected conjunct {x}")
            if not probs:
                for k, v in table.items():
                    allt = all(k[names.index(w)] for w in want)
                    if v != allt:
                        probs.append("the verdict is not the conjunction of the kind test and the attribute equalities")
                        break
        ctx.ob("R3", f, f"{cname}.check conjuncts", not probs,
               "; ".join(probs) if probs else f"isinstance({cname}) and equal {attrs}")
    # engine-level DataType.check resolves the argument first
    for path in ("pandera/engines/pandas_engine.py", "pandera/engines/polars_engine.py"):
        m = ix.module(path)
        ci = m.classes.get("DataType")
        f = ci.method("check") if ci else None
        if f is None:
            raise AnalysisError(f"{path}: DataType.check not found")
        other = f.positional[1]
        resolved = False
        ret_false_on_typeerror = False
        for s in f.node.body:
            if isinstance(s, ast.Try):
                for b in s.body:
                    if isinstance(b, ast.Assign) and isinstance(b.value, ast.Call) and txt(b.value.func).endswith("Engine.dtype") \
                            and any(isinstance(t, ast.Name) and t.id == other for t in b.targets):
                        resolved = True
                for h in s.handlers:
                    if any(isinstance(x, ast.Return) and isinstance(x.value, ast.Constant) and x.value.value is False for x in h.body):
                        ret_false_on_typeerror = True
                if resolved:
                    break
            elif isinstance(s, ast.Expr) and isinstance(s.value, ast.Constant):
                continue
            else:
                # any use of the raw argument before resolution?
                break
        ctx.ob("R3", f, "engine DataType.check resolves its argument through Engine.dtype first",
               resolved and ret_false_on_typeerror,
               "ok" if resolved and ret_false_on_typeerror else
               f"resolved-first={resolved}, unresolvable -> False={ret_false_on_typeerror}")


def r4_immutable(ctx, rows):
    for r in rows:
        cls = r["cls"]
        decos = []
        for d in cls.decorator_list:
            fn = d.func if isinstance(d, ast.Call) else d
            decos.append(dotted(fn) or "?")
        ok = any(x.split(".")[-1] == "immutable" for x in decos)
        ctx.ob("R4", f"{r['module'].path}::{cls.name}", f"registered class {cls.name} is @immutable", ok,
               "frozen dataclass: field-wise ==/hash" if ok else f"decorators {decos}: not a frozen dataclass, "
               "instances compare by identity so equivalent spellings resolve to unequal objects",
               f"{r['module'].path}:{cls.lineno}")
    ix = ctx.ix
    for path in ENGINE_FILES + ["pandera/dtypes.py"]:
        m = ix.module(path)
        for ci in m.classes.values():
            if ci.method("__eq__") is None:
                continue
            decos = ci.decorator_names()
            imm = [d for d in ci.node.decorator_list if (dotted(d.func if isinstance(d, ast.Call) else d) or "").split(".")[-1] == "immutable"]
            eq_false = any(isinstance(d, ast.Call) and isinstance(kw(d, "eq"), ast.Constant) and kw(d, "eq").value is False for d in imm)
            has_hash = ci.method("__hash__") is not None
            ok = has_hash or (bool(imm) and not eq_false)
            ctx.ob("R4", f"{path}::{ci.name}", f"{ci.name} defines __eq__ and keeps a hash", ok,
                   "hash defined or generated by frozen dataclass" if ok else
                   "defines __eq__ without __hash__ and without a hash-generating dataclass decorator: unhashable")


def r5_generated(ctx):
    ix = ctx.ix
    dm = ix.module("pandera/dtypes.py")
    for path in ("pandera/engines/numpy_engine.py", "pandera/engines/pandas_engine.py"):
        m = ix.module(path)
        for n in ast.walk(m.tree):
            if isinstance(n, ast.Call) and callee_last(n) in ("_build_number_equivalents", "_register_numpy_numbers"):
                b, p, s = kw(n, "builtin_name") or (n.args[0] if n.args else None), \
                    kw(n, "pandera_name") or (n.args[1] if len(n.args) > 1 else None), \
                    kw(n, "sizes") or (n.args[2] if len(n.args) > 2 else None)
                if not (isinstance(b, ast.Constant) and isinstance(p, ast.Constant)):
                    raise AnalysisError(f"{path}:{n.lineno}: non literal family call")
                probs = []
                if KIND.get(b.value) != p.value:
                    probs.append(f"builtin_name {b.value!r} paired with pandera_name {p.value!r}")
                size_lists = []
                if isinstance(s, ast.IfExp):
                    size_lists = [s.body, s.orelse]
                elif s is not None:
                    size_lists = [s]
                for sl in size_lists:
                    if not isinstance(sl, (ast.List, ast.Tuple)):
                        continue
                    for e in sl.elts:
                        if isinstance(e, ast.Constant):
                            if f"{p.value}{e.value}" not in dm.classes:
                                probs.append(f"dtypes.{p.value}{e.value} does not exist")
                ctx.ob("R5", f"{path}::<module>", f"{callee_last(n)}({b.value!r}, {p.value!r}, {txt(s) if s is not None else ''})",
                       not probs, "; ".join(probs) if probs else "names and sizes match existing abstract classes",
                       f"{path}:{n.lineno}")


def r6_duplicates(ctx, rows):
    by_name = {}
    for r in rows:
        by_name.setdefault((r["engine"], r["cls"].name), []).append(r)
    for (eng, name), rs in sorted(by_name.items()):
        mods = {r["module"].path for r in rs}
        if len(rs) < 2 or len(mods) < 2:
            continue
        a, b = rs[0], rs[1]

        def row(r):
            eqs = r["equivalents"]
            keys = sorted(_norm_key(r["module"], k) for k in eqs.elts) if isinstance(eqs, (ast.List, ast.Tuple)) else [txt(eqs) if eqs is not None else ""]
            bases = [txt(x) for x in r["cls"].bases]
            body = []
            for s in r["cls"].body:
                if isinstance(s, ast.Expr) and isinstance(s.value, ast.Constant):
                    continue
                body.append(_norm_stmt(r["module"], s))
            decos = [txt(d) for d in r["cls"].decorator_list if "register_dtype" not in txt(d)]
            return {"keys": keys, "bases": bases, "body": body, "decorators": decos}
        ra, rb = row(a), row(b)
        diffs = [k for k in ra if ra[k] != rb[k]]
        ctx.ob("R6", f"{eng}", f"duplicate definition {name} in {sorted(mods)}", not diffs,
               f"definitions differ in {diffs}: which one wins depends on import order" if diffs else "identical rows",
               f"{a['module'].path}:{a['cls'].lineno}")


def _type_setters(fn_node):
    """Expressions stored into the `type` field by an initialiser: object.__setattr__(self, "type", X) / self.type = X."""
    out = []
    for n in walk_no_nested(fn_node):
        if isinstance(n, ast.Call) and txt(n.func) == "object.__setattr__" and len(n.args) == 3 \
                and isinstance(n.args[1], ast.Constant) and n.args[1].value == "type":
            out.append(n.args[2])
        elif isinstance(n, ast.Assign) and any(txt(t) == "self.type" for t in n.targets):
            out.append(n.value)
    return out


def _init_fields(cls_node):
    """(ordered init field names, initialiser function) of a dtype class: explicit __init__ parameters, else the
    dataclass fields of the class body that take part in __init__."""
    init = post = None
    for s in cls_node.body:
        if isinstance(s, ast.FunctionDef) and s.name == "__init__":
            init = s
        if isinstance(s, ast.FunctionDef) and s.name == "__post_init__":
            post = s
    if init is not None:
        a = init.args
        return [x.arg for x in a.posonlyargs + a.args][1:] + [x.arg for x in a.kwonlyargs], init
    fields = []
    for s in cls_node.body:
        if isinstance(s, ast.AnnAssign) and isinstance(s.target, ast.Name):
            v = s.value
            if isinstance(v, ast.Call) and callee_last(v) == "field" and isinstance(kw(v, "init"), ast.Constant) and kw(v, "init").value is False:
                continue
            if "ClassVar" in txt(s.annotation):
                continue
            fields.append(s.target.id)
    return fields, post


def _field_slots(expr, fields, slots):
    """Attach every occurrence of an init field inside `expr` to the argument slot of the innermost call that receives it."""
    def visit(n, slot):
        if isinstance(n, ast.Call):
            callee = txt(n.func)
            visit(n.func, slot)
            for i, a in enumerate(n.args):
                visit(a, f"{callee}#{i}")
            for k in n.keywords:
                visit(k.value, f"{callee}.{k.arg}" if k.arg else slot)
            return
        f = None
        if isinstance(n, ast.Attribute) and isinstance(n.value, ast.Name) and n.value.id == "self" and n.attr in fields:
            f = n.attr
        elif isinstance(n, ast.Name) and n.id in fields:
            f = n.id
        if f is not None:
            slots.setdefault(slot or f"bare:{f}", set()).add(f)
            return
        for ch in ast.iter_child_nodes(n):
            visit(ch, slot)
    visit(expr, None)


def r7_parametrized(ctx):
    """from_parametrized_dtype must carry every parameter that determines the native type over from the source dtype."""
    from ..util import Expander, names_in
    n = 0
    for path in ENGINE_FILES:
        m = ctx.ix.by_path.get(path)
        for c in ast.walk(m.tree):
            if not isinstance(c, ast.ClassDef):
                continue
            fpd = next((s for s in c.body if isinstance(s, ast.FunctionDef) and s.name == "from_parametrized_dtype"), None)
            if fpd is None or len(fpd.args.args) < 2:
                continue
            src = fpd.args.args[1].arg
            fields, init = _init_fields(c)
            if init is None or not fields:
                continue
            ex = Expander(init)
            # slot of the native constructor -> init fields that may feed it (alternative spellings share a slot)
            slots = {}
            for x in _type_setters(init):
                for xx in ex.closure(x):
                    _field_slots(xx, fields, slots)
            for name, vals in ex.flows.items():
                for tgt in walk_no_nested(init):
                    if isinstance(tgt, ast.Assign) and isinstance(tgt.targets[0], ast.Subscript) and txt(tgt.targets[0].value) == name \
                            and isinstance(tgt.targets[0].slice, ast.Constant):
                        fs = set()
                        for xx in ex.closure(tgt.value):
                            for a in ast.walk(xx):
                                if isinstance(a, ast.Name) and a.id in fields:
                                    fs.add(a.id)
                                if isinstance(a, ast.Attribute) and txt(a.value) == "self" and a.attr in fields:
                                    fs.add(a.attr)
                        if fs:
                            key = f"{name}[{tgt.targets[0].slice.value!r}]"
                            for k in list(slots):
                                if slots[k] & fs and k.startswith("bare:"):
                                    del slots[k]
                            slots.setdefault(key, set()).update(fs)
            determining = set().union(*slots.values()) if slots else set()
            fx = Expander(fpd)
            calls = [k for k in ast.walk(fpd) if isinstance(k, ast.Call) and isinstance(k.func, ast.Name) and k.func.id == fpd.args.args[0].arg]
            if not calls:
                continue
            passed = {}
            for k in calls:
                for i, a in enumerate(k.args):
                    if i < len(fields) and not isinstance(a, ast.Starred):
                        passed.setdefault(fields[i], []).append(a)
                for kk in k.keywords:
                    if kk.arg:
                        passed.setdefault(kk.arg, []).append(kk.value)
            qual = f"{path}::{c.name}.from_parametrized_dtype"
            for slot, fs in sorted(slots.items()):
                n += 1
                given = [t for t in sorted(fs) if passed.get(t)]
                from_src = bool(given) and all(any(src in names_in(d) for d in fx.closure(v)) for t in given for v in passed[t])
                names = "/".join(sorted(fs))
                ctx.ob("R7", qual, f"{c.name}: parameter `{names}` of the native type is carried over from `{src}`", bool(given) and from_src,
                       f"{names}=<derived from {src}>" if given and from_src else
                       (f"`{names}` determines the native type built in {init.name} but from_parametrized_dtype does not pass it: "
                        f"every {src} resolves to the default `{names}`, so native dtypes differing in `{names}` resolve to the same pandera type and "
                        f"E.dtype(str(t)) != t" if not given else f"`{given[0]}` is passed a value that does not come from `{src}`: {txt(passed[given[0]][0])}"),
                       f"{path}:{fpd.lineno}")
    ctx.stats["parametrized_parameters"] = n


def r8_pure_resolution(ctx):
    """Engine.dtype is a function of its argument: it writes neither the registries nor any other shared state
    (a memo keyed by native dtype objects is unsound because their equality is coarser than pandera's)."""
    from ..effprops import engine
    from ..effects import show_effect
    eng = engine(ctx.ix)
    n = 0
    for q, f in sorted(ctx.ix.funcs.items()):
        if not (q.startswith("pandera/engines/") and q.endswith("::Engine.dtype")) or "pyspark" in q:
            continue
        n += 1
        ctx.touched(f)
        bad = [e for e in eng.summary(f).effects if e.kind not in ("init",)]
        ctx.ob("R8", f, f"{f.module.path.split('/')[-1]} Engine.dtype resolves without writing shared state", not bad,
               "no write effect reachable from the resolver" if not bad else
               f"resolution writes shared state: {show_effect(bad[0])}; the result of E.dtype(k) then depends on which keys were resolved "
               "before (native dtypes that compare equal, e.g. unordered categoricals with permuted categories, alias each other)")
    if n < 3:
        raise AnalysisError("Engine.dtype resolvers not found")


def r9_kind_conjunct(ctx):
    """An engine-level `check` override that compares parameters of the native type (time unit, categories, scale ...)
    must also establish the *kind* of the other type: native type equality, isinstance of the native class, or the
    inherited check.  Comparing a parameter alone lets a type of another kind that happens to carry the same attribute
    (pl.Duration.time_unit) be recognised."""
    n = 0
    for path in ENGINE_FILES:
        m = ctx.ix.by_path.get(path)
        if m is None:
            continue
        for f in m.all_functions:
            if f.name != "check" or f.cls is None or len(f.positional) < 2:
                continue
            other = f.positional[1]
            from ..util import Expander
            ex9 = Expander(f.node)
            for s in walk_no_nested(f.node):
                if not isinstance(s, ast.Return) or s.value is None or isinstance(s.value, ast.Constant):
                    continue
                v = ex9.expand(s.value)  # read through locals (`other_type = pandera_dtype.type`)
                t = txt(v)
                if other not in t and "super()" not in t:
                    continue
                n += 1
                kind = any(
                    (isinstance(x, ast.Compare) and len(x.ops) == 1 and isinstance(x.ops[0], (ast.Eq, ast.Is)) and
                     {txt(x.left), txt(x.comparators[0])} & {"self.type", "type(self)", "self"} and other in (txt(x.left) + txt(x.comparators[0])))
                    or (isinstance(x, ast.Call) and isinstance(x.func, ast.Name) and x.func.id == "isinstance" and x.args and other in txt(x.args[0]))
                    or (isinstance(x, ast.Call) and isinstance(x.func, ast.Attribute) and x.func.attr == "check" and "super()" in txt(x.func.value))
                    or (isinstance(x, ast.Call) and isinstance(x.func, ast.Attribute) and x.func.attr == "check" and txt(x.func.value) in ("self.type", "self"))
                    for x in ast.walk(v))
                if not kind:
                    kind = any(isinstance(a, ast.Call) and isinstance(a.func, ast.Name) and a.func.id == "isinstance" and a.args and other in txt(a.args[0])
                               for st in walk_no_nested(f.node) if isinstance(st, (ast.Assert, ast.If)) for a in ast.walk(st.test))
                ctx.ob("R9", f, f"{f.cls.name}.check `return {t[:60]}` establishes the kind of `{other}`", kind,
                       "native type equality / isinstance / inherited check is part of the verdict" if kind else
                       f"`{t[:90]}` compares parameters only: a type of another kind that carries the same attribute is recognised "
                       "(t1.check(t2) although kind(t1) != kind(t2))", f.loc(s))
    ctx.stats["check_returns"] = n


def r10_no_name_reparse(ctx):
    """A resolver may re-parse the printed name of a numpy dtype (to fold platform aliases) only for kinds whose name is
    parseable: sized string / bytes / void dtypes print as 'str96' / 'bytes32', which numpy rejects, so an unguarded
    `np.dtype(x.name)` turns accepted spellings ('<U3', 'S4', the dtype of a numpy string array) into TypeErrors."""
    from ..cfg import cfg_of
    from ..util import enclosing_stmt, path_condition, show_condition
    n = 0
    for q, f in sorted(ctx.ix.funcs.items()):
        if not (q.startswith("pandera/engines/") and q.endswith("::Engine.dtype")) or "pyspark" in q:
            continue
        cfg = None
        for c in ast.walk(f.node):
            if isinstance(c, ast.Call) and txt(c.func) in ("np.dtype", "numpy.dtype") and c.args and any(
                    isinstance(a, ast.Attribute) and a.attr == "name" for a in ast.walk(c.args[0])):
                n += 1
                cfg = cfg or cfg_of(f.node)
                st = enclosing_stmt(c)
                node = cfg.node_of(st)
                from ..util import ifexp_guards
                pc = path_condition(cfg, node.id, keep=lambda t, nn: ".kind" in t, extra=ifexp_guards(c, st)) if node is not None else ((), frozenset())
                ok = bool(pc[0])
                ctx.ob("R10", f, f"`{txt(c)[:60]}` is applied to dtypes with a parseable name only", ok,
                       f"guarded by {show_condition(pc)}" if ok else
                       "the printed name of a sized flexible dtype ('str96', 'bytes32', 'void64') is not a numpy spelling: resolving through it "
                       "raises TypeError for '<U3' / 'S4' / the dtype of a numpy string array, which the engine otherwise accepts", f.loc(c))
    ctx.stats["name_reparse_sites"] = n


def r11_own_hook_only(ctx):
    """`register_dtype` installs a class's `from_parametrized_dtype` as the resolver of the native types named in the
    hook's annotations.  Only a hook defined by the class itself may be installed: a subclass that merely inherits it
    (a user's `class MyDateTime(DateTime)`) would otherwise take over the resolution of `pd.DatetimeTZDtype(...)` /
    'datetime64[ns, UTC]' for everybody, so equal spellings stop resolving to equal objects after a registration.
    The decision must therefore be a membership test on the class's own namespace (`in cls.__dict__` / vars(cls))."""
    from ..cfg import cfg_of
    from ..util import enclosing_stmt
    m = ctx.ix.module("pandera/engines/engine.py")
    n = 0
    for f in m.all_functions:
        for c in calls_in(f.node):
            if callee_last(c) != "_register_from_parametrized_dtype":
                continue
            n += 1
            cfg = cfg_of(f.node)
            node = cfg.node_of(enclosing_stmt(c))
            tests = [t for t, pol in (cfg.guards(node.id) if node is not None else []) if "from_parametrized_dtype" in txt(t)]
            own = [t for t in tests for x in ast.walk(t) if isinstance(x, ast.Compare) and len(x.ops) == 1 and isinstance(x.ops[0], ast.In)
                   and isinstance(x.left, ast.Constant) and x.left.value == "from_parametrized_dtype"
                   and ("__dict__" in txt(x.comparators[0]) or txt(x.comparators[0]).startswith("vars("))]
            other = [t for t in tests if t not in own]
            ok = bool(own) and not other
            ctx.ob("R11", f, "only a from_parametrized_dtype hook defined by the class itself is installed", ok,
                   f"guarded by `{txt(own[0])}`" if ok else
                   f"installed under {[txt(t) for t in tests] or 'no test of the own namespace'}: an inherited hook is registered again for the subclass, which "
                   "then resolves the parent's native types (E.dtype(x) of equal spellings differs after a user registration)", f.loc(c))
        for x in walk_no_nested(f.node):
            # the hook itself is fetched from the own namespace as well (getattr would follow the MRO)
            if f.name == "_register_from_parametrized_dtype" and isinstance(x, ast.Assign) and len(x.targets) == 1 and txt(x.targets[0]) == "method":
                n += 1
                ok = isinstance(x.value, ast.Subscript) and ("__dict__" in txt(x.value.value) or txt(x.value.value).startswith("vars("))
                ctx.ob("R11", f, "the hook is read from the class's own namespace", ok,
                       f"`{txt(x.value)[:60]}`" if ok else f"`{txt(x.value)[:60]}` follows the class hierarchy", f.loc(x))
    ctx.stats["hook_registration_sites"] = n
    if n < 1:
        raise AnalysisError("engine.py: no _register_from_parametrized_dtype call found")


# fields whose value the native constructor canonicalises (confirmed by reading pandas: DatetimeTZDtype turns 'UTC' /
# a pytz / zoneinfo spelling into one tzinfo object): the pandera field must be re-bound from the native object, otherwise
# DateTime(tz='UTC') and the dtype resolved from pd.DatetimeTZDtype('ns', 'UTC') have equal `type` but unequal fields
CANONICALISED_FIELDS = [("pandera/engines/pandas_engine.py", "DateTime", "tz")]


def r12_canonical_fields(ctx):
    """Equivalent spellings must resolve to *equal, equally hashed* objects.  The engine dtypes are dataclasses compared
    field by field, so a field that the native constructor canonicalises has to be re-bound, in __post_init__, from the
    native object that was built - not kept as the caller spelled it."""
    from ..util import Expander
    for path, cname, field in CANONICALISED_FIELDS:
        m = ctx.ix.module(path)
        cls = next((c for c in (m.all_classes if hasattr(m, "all_classes") else m.classes.values()) if c.name == cname), None)
        if cls is None:
            raise AnalysisError(f"{path}::{cname} missing")
        post = cls.methods.get("__post_init__") or []
        if not post:
            raise AnalysisError(f"{cname}.__post_init__ missing")
        ok = False
        for g in post:
            ex = Expander(g.node)
            built = {t.id for st in walk_no_nested(g.node) if isinstance(st, ast.Assign) for t in st.targets if isinstance(t, ast.Name)
                     and any(isinstance(x, ast.Call) and field in {k.arg for k in x.keywords} | {txt(a).split(".")[-1] for a in x.args} for x in ast.walk(st.value))}
            for c in calls_in(g.node):
                if callee_last(c) == "__setattr__" and len(c.args) == 3 and isinstance(c.args[1], ast.Constant) and c.args[1].value == field:
                    names = {x.id for d in ex.closure(c.args[2]) for x in ast.walk(d) if isinstance(x, ast.Name)}
                    attrs = {x.attr for d in ex.closure(c.args[2]) for x in ast.walk(d) if isinstance(x, ast.Attribute)}
                    if (names & built) or field in attrs and not any(txt(x) == f"self.{field}" for d in ex.closure(c.args[2]) for x in ast.walk(d)):
                        ok = True
            ctx.ob("R12", g, f"{cname}.{field} is re-bound from the native dtype built in __post_init__", ok,
                   "canonical value taken from the native object" if ok else
                   f"`{field}` keeps the caller's spelling: {cname}({field}='UTC') and the dtype resolved from the equivalent native dtype have equal `type` but "
                   f"unequal / differently hashed `{field}` fields, so equal spellings no longer resolve to equal objects", g.loc(g.node))


def _norm_stmt(m, s):
    from ..util import canon_function_text
    if isinstance(s, (ast.FunctionDef, ast.AsyncFunctionDef)):
        return canon_function_text(s, keep_params=False)
    return ast.unparse(s)


OBJECT_ONLY_LABELS = {"mixed-integer", "mixed"}   # pandas.api.types.infer_dtype labels of columns that also hold non-numbers


def r13_infer_dtype_labels(ctx):
    """`pandas.api.types.infer_dtype` labels are registered as dtype equivalents so that schema inference can resolve them.
    'mixed-integer' / 'mixed' describe object columns that hold ints *and* other things ([12, '14a', 7]): they resolve to
    the object dtype and to nothing numeric - registered for int64, infer_schema either raises or infers a schema that its
    own data fails."""
    m = ctx.ix.module("pandera/engines/pandas_engine.py")
    seen = {}
    for node in ast.walk(m.tree):
        if isinstance(node, ast.Constant) and node.value in OBJECT_ONLY_LABELS:
            p_ = getattr(node, "_parent", None)
            where = None
            while p_ is not None:
                if isinstance(p_, ast.Call) and callee_last(p_) == "register_dtype":
                    where = ("register", txt(p_.args[0]) if p_.args else "?")
                    break
                if isinstance(p_, (ast.FunctionDef, ast.AsyncFunctionDef)):
                    where = ("function", p_.name)
                    break
                p_ = getattr(p_, "_parent", None)
            seen.setdefault(node.value, []).append((where, node))
    for label in sorted(OBJECT_ONLY_LABELS):
        sites = seen.get(label, [])
        bad = [(w, n) for w, n in sites if not (w and w[0] == "register" and "Object" in w[1])]
        ok = bool(sites) and not bad
        ctx.ob("R13", f"{m.path}", f"infer_dtype label {label!r} is an equivalent of the object dtype only", ok,
               "registered with numpy_engine.Object" if ok else
               (f"{label!r} is registered in {bad[0][0]}: an object column mixing ints with other values resolves to a numeric dtype" if bad else
                f"{label!r} is not registered: schema inference cannot resolve such a column"), f"{m.path}:{(bad[0][1].lineno if bad else 1)}")


def r15_generated_keys_depend_on_the_width(ctx):
    """`_build_number_equivalents` / `_register_numpy_numbers` generate, for each bit width of a number family, the keys
    that resolve to *that* width.  A key that does not depend on the width (the default instance `dtypes.Float()`) and is
    nevertheless put into the collection of every width is registered once per width; each registration overwrites the
    previous one, so the last (narrowest) width wins: numpy_engine.Engine.dtype(pandera.Float64()) is Float16, because
    Float() == Float64() share one slot.  Decided: in the per-width collection every element mentions the width variable;
    width-independent keys live in the part that is added under a condition on the width (`if bit_width == default`)."""
    n = 0
    for path in ("pandera/engines/numpy_engine.py", "pandera/engines/pandas_engine.py"):
        m = ctx.ix.module(path)
        for f in m.all_functions:
            if f.name not in ("_build_number_equivalents", "_register_numpy_numbers"):
                continue
            loops = []   # (width variable, per-width body nodes)
            for x in walk_no_nested(f.node):
                if isinstance(x, ast.DictComp) and isinstance(x.generators[0].target, ast.Name):
                    loops.append((x.generators[0].target.id, [x.value]))
                elif isinstance(x, ast.For) and isinstance(x.target, ast.Name):
                    loops.append((x.target.id, x.body))
            for var0, body in loops:
                # names computed from the width inside the loop are width-dependent too (`np_dtype = getattr(np, f"...{bit_width}")`)
                var = {var0}
                grew = True
                while grew:
                    grew = False
                    for b in body:
                        for a in ast.walk(b):
                            if isinstance(a, ast.Assign) and any(isinstance(v, ast.Name) and v.id in var for v in ast.walk(a.value)):
                                for t in a.targets:
                                    if isinstance(t, ast.Name) and t.id not in var:
                                        var.add(t.id)
                                        grew = True
                for b in body:
                    for coll in ast.walk(b):
                        if not isinstance(coll, (ast.Set, ast.List, ast.Tuple)) or len(coll.elts) < 2:
                            continue
                        # conditional parts (`... if bit_width == default else []`, `if bit_width == ...:` blocks) may hold width-independent keys
                        conditional, p_, child = False, getattr(coll, "_parent", None), coll
                        while p_ is not None and p_ is not f.node:
                            if isinstance(p_, ast.IfExp) and child is not p_.test and any(isinstance(v, ast.Name) and v.id in var for v in ast.walk(p_.test)):
                                conditional = True
                            if isinstance(p_, ast.If) and child is not p_.test and any(isinstance(v, ast.Name) and v.id in var for v in ast.walk(p_.test)):
                                conditional = True
                            child, p_ = p_, getattr(p_, "_parent", None)
                        if conditional:
                            continue
                        for e in coll.elts:
                            if isinstance(e, ast.Starred):
                                continue
                            n += 1
                            dep = any(isinstance(v, ast.Name) and v.id in var for v in ast.walk(e))
                            ctx.ob("R15", f, f"{f.short}: per-width key `{txt(e)[:50]}` depends on the width", dep,
                                   "mentions the width" if dep else
                                   f"`{txt(e)}` is the same key for every `{var0}`: it is registered for each width in turn and ends up resolving to the last one "
                                   "(numpy_engine.Engine.dtype(pandera.Float64()) -> Float16, Int() -> Int8, Complex128() -> Complex64), unequal to the class / string / numpy spellings",
                                   f.loc(e))
    if n < 3:
        raise AnalysisError(f"generated number equivalents: per-width keys found: {n}")


def r14_check_answers_false(ctx):
    """`t1.check(t2)` is a question with a boolean answer; for a type of another kind the answer is False.  An
    `assert isinstance(other, <own class>)` in an engine `check` turns that answer into an AssertionError, which escapes
    schema validation (Column(pl.Decimal(10, 2)) on a float column) where the sibling engines report a dtype SchemaError."""
    n = 0
    for path in ENGINE_FILES:
        m = ctx.ix.by_path.get(path)
        if m is None or "pyspark" in path:
            continue
        for f in m.all_functions:
            if f.name != "check" or f.cls is None or len(f.positional) < 2:
                continue
            other = f.positional[1]
            n += 1
            for a in walk_no_nested(f.node):
                if isinstance(a, ast.Assert) and any(isinstance(x, ast.Call) and isinstance(x.func, ast.Name) and x.func.id == "isinstance" and x.args
                                                     and other in txt(x.args[0]) for x in ast.walk(a.test)):
                    ctx.ob("R14", f, f"{f.cls.name}.check answers False for a dtype of another kind", False,
                           f"`{txt(a)[:70]}` asserts the kind of `{other}` instead of answering False: a column of another dtype makes validate raise AssertionError", f.loc(a))
    ctx.ob("R14", "pandera/engines", "no engine check() asserts the kind of the other dtype", True, f"{n} check methods examined")


def run(ctx):
    rows = registered_classes(ctx.ix)
    ctx.stats["registered_rows"] = len(rows)
    eng = {}
    for r in rows:
        eng[r["engine"]] = eng.get(r["engine"], 0) + 1
    ctx.stats["rows_by_engine"] = eng
    r1_collisions(ctx, rows)
    r2_rows(ctx, rows)
    r3_recognition(ctx)
    r4_immutable(ctx, rows)
    r5_generated(ctx)
    r6_duplicates(ctx, rows)
    r7_parametrized(ctx)
    r8_pure_resolution(ctx)
    r9_kind_conjunct(ctx)
    r10_no_name_reparse(ctx)
    r11_own_hook_only(ctx)
    r12_canonical_fields(ctx)
    r13_infer_dtype_labels(ctx)
    r14_check_answers_false(ctx)
    r15_generated_keys_depend_on_the_width(ctx)
    ctx.assume("equivalence keys are compared by normalised source text with import aliases expanded; keys that are "
               "equal only at run time (e.g. two spellings of one numpy dtype object) are not detected")
    ctx.assume("generated rows (_build_number_equivalents, _register_numpy_numbers, runtime pyarrow/pyspark objects) "
               "are checked through their call arguments only")
