"""C19 - check options do only what they document."""

from __future__ import annotations

import ast

from ..cfg import cfg_of
from ..index import AnalysisError, function_stmts, walk_no_nested
from ..util import (bool_atoms, ifexp_guards, same_module_helpers, Expander, callee_last, calls_in, enclosing_stmt, kw, names_in, path_condition, show_condition, txt,
                    in_subtree)

EXPLANATION = (
    "Static analysis of the option plumbing (ast + CFG guards). (R1) every alias constructor (eq, ne, gt, ge, lt, le, "
    "between) is `return cls.<canonical>(<its parameters in order>, **kwargs)` and every canonical constructor calls "
    "from_builtin_check_name(<own name>, kwargs, ..., <param>=<value derived from that param>) for each parameter; "
    "(R2) element_wise selects map/apply(axis=1)/map_elements(check_fn) versus a direct call of check_fn, and check_fn "
    "is the registered function bound to the check's keyword arguments; (R3) null dropping (dropna) and null or-ing "
    "(| isna / is_null) happen exactly under ignore_na, and run_check hands ignore_na to failure-case reshaping; (R4) "
    "n_failure_cases reaches only failure-case truncation (no flow into check_output / check_passed); (R5) "
    "raise_warning: warnings.warn is reached only when the check failed and raise_warning is set, the branch returns "
    "CoreCheckResult(passed=True) and cannot raise; (R6) groups restricts the dict given to the check function and "
    "unknown groups raise. (R7) definite assignment: no function of the Check API / check backend modules reads a local that a branch-only path from its entry leaves unassigned (CFG may-analysis, optimistic about try bodies and loop bodies, correlated guards pruned, non-empty local accumulators accepted as witnesses) - an UnboundLocalError there would escape the check. " 
    " R4 also covers the runner: CoreCheckResult.passed in run_check (both backends) is never decided from, or under a condition on, the failure cases built for the report. " 
    " R3 also covers polars: a null check output is decided before the verdict on every path (True under ignore_na, False otherwise), the failure cases are selected with the same decided output that gives the verdict, and pandas per-column preprocessing drops nulls of the checked column only (never row-wise from the whole table). " 
    "NOT decided: the metamorphic equalities over predicates and data."
    ' R3 (pandas null outputs): in postprocess_field every path to the `.all()` verdict passes `fillna(False)` (a `hasnans`-guarded fill counts), so <NA> outputs of nullable dtypes fail under ignore_na=False as NaN does. R3 (null-aware paths): every value returned by a field-level preprocess function (the targets `preprocess` dispatches to for a Series or with the `key` of a column) is produced with ignore_na consulted - by a guard, a reaching definition under a guard, or a private helper that reads it - so the groupby branch drops the nulls of each group too; guards of conditional expressions are part of every path condition.'
    ' R6 (keys): every len(key) / key[0] on a group key in _format_groupby_input is guarded by isinstance(key, tuple) (conditional-expression, `and` and statement guards).'
    ' R3 (pure null test): apart from ignore_na the condition of a pre-check dropna is a plain null-presence test (.hasnans, isna().any(), or a helper whose every return is one) - a dtype-kind short cut leaves <NA> of nullable dtypes in the data. R6 follows the key into helpers and accepts the groups restriction as a filtered dict comprehension.'
)
LEVEL_RULE = "one obligation per constructor / backend function / option use site"
FLOORS = {"R1": 22, "R2": 4, "R3": 5, "R4": 2, "R5": 4, "R6": 3, "R7": 1}

ALIASES = {"eq": "equal_to", "ne": "not_equal_to", "gt": "greater_than", "ge": "greater_than_or_equal_to",
           "lt": "less_than", "le": "less_than_or_equal_to", "between": "in_range"}
CANON = ["equal_to", "not_equal_to", "greater_than", "greater_than_or_equal_to", "less_than", "less_than_or_equal_to",
         "in_range", "isin", "notin", "str_matches", "str_contains", "str_startswith", "str_endswith", "str_length",
         "unique_values_eq"]
PCB = "pandera/backends/pandas/checks.py::PandasCheckBackend"
LCB = "pandera/backends/polars/checks.py::PolarsCheckBackend"


def r1_aliases(ctx):
    check = ctx.ix.cls("pandera/api/checks.py::Check")
    for alias, canon in ALIASES.items():
        f = check.method(alias)
        if f is None:
            ctx.ob("R1", f"pandera/api/checks.py::Check.{alias}", f"alias {alias}", False, "alias constructor missing")
            continue
        params = f.positional[1:]
        rets = [s for s in function_stmts(f) if isinstance(s, ast.Return)]
        ok, detail = False, "not a single `return cls.<canonical>(...)`"
        if len(rets) == 1 and isinstance(rets[0].value, ast.Call):
            c = rets[0].value
            tgt = c.func.attr if isinstance(c.func, ast.Attribute) and isinstance(c.func.value, ast.Name) and c.func.value.id == "cls" else None
            cf = check.method(canon)
            passed = {}
            for i, a in enumerate(c.args):
                if i < len(cf.positional) - 1:
                    passed[cf.positional[1 + i]] = txt(a)
            for k in c.keywords:
                if k.arg:
                    passed[k.arg] = txt(k.value)
            splat = any(k.arg is None and txt(k.value) == "kwargs" for k in c.keywords)
            bad = [f"{p}<-{passed.get(p)}" for p in params if passed.get(p) != p]
            other_stmts = [s for s in f.node.body if not (isinstance(s, ast.Expr) and isinstance(s.value, ast.Constant)) and s is not rets[0]]
            ok = tgt == canon and not bad and splat and not other_stmts and cf.positional[1:] == params
            detail = (f"delegates to cls.{tgt} with {passed}, **kwargs={splat}" if ok else
                      f"delegates to cls.{tgt} (canonical {canon}); mismatched {bad}; **kwargs forwarded={splat}; extra statements={len(other_stmts)}")
        ctx.ob("R1", f, f"alias {alias} -> {canon}", ok, detail)
    for name in CANON:
        f = check.method(name)
        if f is None:
            raise AnalysisError(f"Check.{name} not found")
        params = [p for p in f.positional[1:]]
        calls = [c for c in calls_in(f.node) if callee_last(c) == "from_builtin_check_name"]
        if len(calls) != 1:
            ctx.ob("R1", f, f"constructor {name}", False, f"{len(calls)} from_builtin_check_name calls")
            continue
        c = calls[0]
        probs = []
        if not (c.args and isinstance(c.args[0], ast.Constant) and c.args[0].value == name):
            probs.append(f"builds the built-in {txt(c.args[0]) if c.args else None}, not {name!r}")
        if not (len(c.args) > 1 and isinstance(c.args[1], ast.Name) and c.args[1].id == (f.node.args.kwarg.arg if f.node.args.kwarg else "")):
            probs.append("option kwargs not passed as init_kwargs")
        dep = {q: {q} for q in params}   # local name -> parameters it derives from (def-use closure)
        changed = True
        while changed:
            changed = False
            for s in function_stmts(f):
                if isinstance(s, ast.Assign) and len(s.targets) == 1 and isinstance(s.targets[0], ast.Name):
                    src = set()
                    for nm in names_in(s.value):
                        src |= dep.get(nm, set())
                    t = s.targets[0].id
                    if not src <= dep.get(t, set()):
                        dep[t] = dep.get(t, set()) | src
                        changed = True
        for p in params:
            v = kw(c, p)
            if v is None:
                probs.append(f"parameter {p} not forwarded")
                continue
            srcs = set()
            for nm in names_in(v):
                srcs |= dep.get(nm, set()) if nm not in params else {nm}
            if p not in srcs:
                probs.append(f"{p}={txt(v)} is not derived from the parameter")
            elif srcs - {p}:
                probs.append(f"{p}={txt(v)} also depends on {sorted(srcs - {p})}")
        # parameters rebinding before the call must derive from themselves
        for s in function_stmts(f):
            if isinstance(s, ast.Assign) and len(s.targets) == 1 and isinstance(s.targets[0], ast.Name) and s.targets[0].id in params:
                if s.targets[0].id not in names_in(s.value):
                    probs.append(f"parameter {s.targets[0].id} overwritten by `{txt(s.value)}`")
        ctx.ob("R1", f, f"constructor {name} forwards {params}", not probs, "; ".join(probs) if probs else "each parameter forwarded under its own name")


def r2_element_wise(ctx):
    ix = ctx.ix
    for cq, fnames in ((PCB, ["apply_field", "apply_table"]), (LCB, ["apply"])):
        cls = ix.cls(cq)
        init = cls.method("__init__")
        ok = False
        for s in function_stmts(init):
            if isinstance(s, ast.Assign) and txt(s.targets[0]) == "self.check_fn" and isinstance(s.value, ast.Call) \
                    and callee_last(s.value) == "partial" and s.value.args and txt(s.value.args[0]).endswith("._check_fn") \
                    and any(k.arg is None and txt(k.value).endswith("._check_kwargs") for k in s.value.keywords):
                ok = True
        ctx.ob("R2", init, "check_fn = partial(check._check_fn, **check._check_kwargs)", ok,
               "registered function bound to the check's keyword arguments" if ok else "check_fn is not the check's function bound to its kwargs")
        for fname in fnames:
            f = cls.method(fname)
            if f is None:
                raise AnalysisError(f"{cq}.{fname} missing")
            cfg = cfg_of(f.node)
            mapped, direct = [], []
            for c in calls_in(f.node):
                if callee_last(c) in ("map", "apply", "map_elements", "applymap") and any(txt(a) == "self.check_fn" for a in c.args):
                    mapped.append(c)
                elif txt(c.func) == "self.check_fn":
                    direct.append(c)
            probs = []
            if not mapped:
                probs.append("no element-wise application of check_fn")
            if not direct:
                probs.append("no vectorised call of check_fn")
            keep = lambda t, n: "element_wise" in t
            for c in mapped:
                extra = [k.arg for k in c.keywords if k.arg not in ("axis", "return_dtype")] + [txt(a) for a in c.args[1:]]
                if extra:
                    probs.append(f"element-wise application passes extra arguments {extra}: not a plain map of the function over all "
                                 "elements (e.g. na_action='ignore' hides nulls from the function although ignore_na=False)")
                pc = path_condition(cfg, cfg.node_of(enclosing_stmt(c)).id, keep=keep)
                if pc != (("self.check.element_wise",), frozenset({(True,)})):
                    probs.append(f"element-wise application reached under {show_condition(pc)}")
                if fname == "apply_table" and not (isinstance(kw(c, "axis"), ast.Constant) and kw(c, "axis").value in (1, "columns")):
                    probs.append("row-wise apply without axis=1")
            for c in direct:
                pc = path_condition(cfg, cfg.node_of(enclosing_stmt(c)).id, keep=keep)
                if pc != (("self.check.element_wise",), frozenset({(False,)})):
                    probs.append(f"vectorised call reached under {show_condition(pc)}")
            ctx.ob("R2", f, f"{fname}: element_wise selects map vs direct call", not probs,
                   "; ".join(probs) if probs else "map under element_wise, direct call otherwise")


def _is_failure_case_helper(cls, f) -> bool:
    """a private method whose result is, at every call site in the class, bound to the failure cases of the report
    (`failure_cases = self._h(...)` / `failure_cases=self._h(...)`): what it computes is report formatting"""
    if not f.name.startswith("_") or f.name.startswith("__"):
        return False
    sites = []
    for lst in cls.methods.values():
        for g in lst:
            for c in calls_in(g.node, nested=True):
                if isinstance(c.func, ast.Attribute) and c.func.attr == f.name and isinstance(c.func.value, ast.Name) and c.func.value.id in ("self", "cls"):
                    sites.append((g, c))
    if not sites:
        return False
    from ..index import parent
    for g, c in sites:
        p = parent(c)
        ok = (isinstance(p, ast.Assign) and all("failure_case" in txt(t) for t in p.targets)) or \
             (isinstance(p, ast.keyword) and p.arg == "failure_cases") or (isinstance(p, ast.Return) and _is_failure_case_helper(cls, g))
        if not ok:
            return False
    return True



def _pure_null_test(ix, f, node, depth=0) -> bool:
    """`x.hasnans`, `x.isna().any()` / `isnull` / `has_nulls` forms, and/or of those, or a private helper all of whose
    returns are such tests (a helper that answers a constant on some path is not)"""
    if isinstance(node, ast.Attribute) and node.attr == "hasnans":
        return True
    if isinstance(node, ast.Call) and callee_last(node) == "any" and isinstance(node.func, ast.Attribute) and \
            any(isinstance(x, ast.Call) and callee_last(x) in ("isna", "isnull") for x in ast.walk(node.func.value)):
        return True
    if isinstance(node, ast.BoolOp):
        return all(_pure_null_test(ix, f, v, depth) for v in node.values)
    if isinstance(node, ast.Call) and depth < 2:
        name = callee_last(node)
        h = None
        if isinstance(node.func, ast.Attribute) and isinstance(node.func.value, ast.Name) and node.func.value.id in ("self", "cls") and f.cls is not None:
            h = f.cls.lookup(name)
        elif isinstance(node.func, ast.Name):
            h = f.module.functions.get(name)
        if h is not None:
            rets = [r for r in walk_no_nested(h.node) if isinstance(r, ast.Return)]
            return bool(rets) and all(r.value is not None and _pure_null_test(ix, h, r.value, depth + 1) for r in rets)
    return False


def r3_ignore_na(ctx):
    ix = ctx.ix
    pcb, lcb = ix.cls(PCB), ix.cls(LCB)
    keep = lambda t, n: "ignore_na" in t
    n_drop = 0
    for cls_, f in [(pcb, x) for lst in pcb.methods.values() for x in lst] + [(lcb, x) for lst in lcb.methods.values() for x in lst]:
        cfg = None
        post_check = "check_output" in f.params   # a postprocess stage: it receives what the check function returned
        fc_helper = post_check and _is_failure_case_helper(cls_, f)
        for c in calls_in(f.node):
            last = callee_last(c)
            is_drop = last in ("dropna", "drop_nulls", "drop_nans")
            st = enclosing_stmt(c)
            if is_drop and post_check and (fc_helper or (isinstance(st, ast.Assign) and "failure" in txt(st.targets[0]))
                                           or any(isinstance(p, ast.For) for p in _parents(c))):
                continue  # null removal inside failure-case formatting (after the check ran), not before the check
            if is_drop and "key" in f.params and not post_check:
                # preprocessing for one column: nulls are dropped from the selected column, never row-wise from the whole
                # table (a null in *another* column would hide this row from the check)
                recv = c.func.value if isinstance(c.func, ast.Attribute) else None
                whole = isinstance(recv, ast.Name) and recv.id in f.params and kw(c, "subset") is None
                ctx.ob("R3", f, f"`{txt(c)[:50]}` drops nulls of the checked column only", not whole,
                       "column-wise" if not whole else
                       f"`{txt(c)}` removes every row that has a null in *any* column before the column `key` is selected: a violating value in a row whose "
                       "other column is null is never shown to the check (Check.gt(0) accepts a == -5 when b is NaN in that row)", f.loc(c))
            if is_drop:
                cfg = cfg or cfg_of(f.node)
                pc = path_condition(cfg, cfg.node_of(st).id, keep=keep, extra=ifexp_guards(c, st))
                ok = pc == (("self.check.ignore_na",), frozenset({(True,)}))
                n_drop += 1
                if ok and not post_check:
                    # whatever else the drop is conditional on has to be a pure "are there nulls" test: any further condition
                    # (a dtype short cut, a size test) leaves nulls in the data although ignore_na is set
                    extra_atoms = {}
                    for t, pol in list(cfg.guards(cfg.node_of(st).id)) + list(ifexp_guards(c, st)):
                        if pol:
                            for at, an in bool_atoms(t).items():
                                if "ignore_na" not in at and "groupby" not in at:
                                    extra_atoms[at] = an
                    impure = [at for at, an in extra_atoms.items() if not _pure_null_test(ctx.ix, f, an)]
                    ctx.ob("R3", f, f"`{txt(c)[:50]}`: apart from ignore_na the drop depends only on whether nulls are present", not impure,
                           "pure null-presence test" if not impure else
                           f"nulls are dropped only when `{impure[0][:70]}` also holds, which is not a plain null-presence test: when it is false the nulls stay and are shown "
                           "to the check function although ignore_na=True (e.g. a dtype-kind short cut: nullable Int64 / boolean columns report kind 'i' / 'b' and do hold <NA>)", f.loc(c))
                ctx.ob("R3", f, f"`{txt(c)[:50]}` only when ignore_na", ok,
                       "guarded by ignore_na" if ok else f"nulls are dropped under {show_condition(pc)}: nulls hidden from "
                       "the check function although ignore_na is False", f.loc(c))
        for n in walk_no_nested(f.node):
            if isinstance(n, ast.BinOp) and isinstance(n.op, ast.BitOr) and any(
                    isinstance(x, ast.Call) and callee_last(x) in ("isna", "is_null", "isnull") for x in ast.walk(n.right)):
                cfg = cfg or cfg_of(f.node)
                st = enclosing_stmt(n)
                pc = path_condition(cfg, cfg.node_of(st).id, keep=keep, extra=ifexp_guards(n, st))
                ok = len(pc[0]) == 1 and "ignore_na" in pc[0][0] and pc[1] == frozenset({(True,)})
                ctx.ob("R3", f, f"`{txt(n)[:60]}` only when ignore_na", ok,
                       "null rows pass only under ignore_na" if ok else f"nulls are or-ed into the output under {show_condition(pc)}", f.loc(n))
    for q in ("pandera/backends/pandas/base.py::PandasSchemaBackend.run_check",):
        f = ix.func(q)
        calls = [c for c in calls_in(f.node) if callee_last(c) == "reshape_failure_cases"]
        ok = bool(calls) and all((len(c.args) > 1 and txt(c.args[1]).endswith(".ignore_na")) or
                                 (kw(c, "ignore_na") is not None and txt(kw(c, "ignore_na")).endswith(".ignore_na")) for c in calls)
        ctx.ob("R3", f, "run_check passes check.ignore_na to reshape_failure_cases", ok,
               "flag forwarded" if ok else "failure cases reshaped with a constant ignore_na")


def r3_polars_null_outputs_decided(ctx):
    """polars aggregates skip nulls: `pl.col(K).all()` is true over [True, null] and `.filter(pl.col(K).not_())` drops the
    null row.  So a null check output has to be *decided* before the verdict on every path: to True under ignore_na
    (`K | K.is_null()`), to False otherwise (`fill_null(False)`).  A path that leaves it null makes ignore_na=False a no-op:
    the function's answer for nulls is never counted, unlike on pandas."""
    ix = ctx.ix
    lcb = ix.cls(LCB)
    f = lcb.lookup("postprocess_lazyframe_output")
    if f is None:
        raise AnalysisError("PolarsCheckBackend.postprocess_lazyframe_output missing")
    ctx.touched(f)
    cfg = cfg_of(f.node)
    deciding, verdict = set(), set()
    for st in function_stmts(f):
        node = cfg.node_of(st)
        if node is None or isinstance(st, (ast.If, ast.For, ast.While, ast.Try, ast.With)):
            continue
        calls = list(calls_in(st))
        if any(callee_last(c) == "is_null" for c in calls) and any(isinstance(x, ast.BinOp) and isinstance(x.op, ast.BitOr) for x in ast.walk(st)):
            deciding.add(node.id)
        if any(callee_last(c) == "fill_null" and c.args and isinstance(c.args[0], ast.Constant) and c.args[0].value in (False, True) for c in calls):
            deciding.add(node.id)
        if any(callee_last(c) == "is_not_null" for c in calls) and any(isinstance(x, ast.BinOp) and isinstance(x.op, ast.BitAnd) for x in ast.walk(st)):
            deciding.add(node.id)
        if any(callee_last(c) == "all" for c in calls) or any(callee_last(c) == "not_" for c in calls):
            verdict.add(node.id)
    if not verdict:
        raise AnalysisError("postprocess_lazyframe_output: verdict aggregation (.all()) not found")
    # the failing cells are read off the same decided output as the verdict: concatenating the *raw* check output next to the
    # data lists (or hides) cells that the verdict has already decided the other way
    agg = [c for c in calls_in(f.node) if callee_last(c) == "all"]
    verdict_src = set()
    for c in agg:
        x = c
        while isinstance(x, (ast.Call, ast.Attribute)):
            x = x.func if isinstance(x, ast.Call) else x.value
        p_ = getattr(c, "_parent", None)
        while p_ is not None and not isinstance(p_, ast.stmt):
            if isinstance(p_, ast.Call) and isinstance(p_.func, ast.Attribute) and isinstance(p_.func.value, ast.Name):
                verdict_src.add(p_.func.value.id)
            p_ = getattr(p_, "_parent", None)
    for c in calls_in(f.node):
        if callee_last(c) == "concat" and c.args and isinstance(c.args[0], (ast.List, ast.Tuple)) and len(c.args[0].elts) == 2:
            second = c.args[0].elts[1]
            same = isinstance(second, ast.Name) and second.id in verdict_src
            ctx.ob("R3", f, "polars: failure cases are selected with the same decided output that gives the verdict", same or not verdict_src,
                   f"`{txt(second)}` is what the verdict aggregates" if same else
                   f"the failure cases are filtered on `{txt(second)}` while the verdict aggregates {sorted(verdict_src)}: with nulls in the output the reported "
                   "cells and the verdict disagree (a row counted as failing is not listed, or the reverse)", f.loc(c))
    path = cfg.must_pass(cfg.entry.id, verdict, deciding)
    ok = path is None
    where = ""
    if path:
        tests = [cfg.nodes[i] for i in path if cfg.nodes[i].kind == "test"]
        where = "; ".join(f"`{txt(t.ast)[:40]}`" for t in tests)
    ctx.ob("R3", f, "polars: a null check output is decided (True under ignore_na, False otherwise) before the verdict on every path", ok,
           "every path to the verdict passes a null-deciding step" if ok else
           f"a path (through {where or 'no test'}) reaches the verdict with null outputs undecided: `all()` skips them and the failure-case filter drops them, so "
           "Check.gt(0, ignore_na=False) accepts [1.0, None, 3.0] on polars while pandas rejects row 1", f.loc(f.node))


def r3_pandas_null_outputs_decided(ctx):
    """pandas counterpart of the polars rule: with ignore_na=False the nulls reach the check function, and on nullable
    extension dtypes (Int64, boolean, string) a comparison answers <NA>.  `Series.all()` skips <NA>, so the field
    postprocessing has to decide null outputs (fillna(False)) before aggregating - otherwise Check.gt(0, ignore_na=False)
    accepts Int64 [1, <NA>, 3] while the same values as float64 (NaN > 0 is False) are rejected."""
    ix = ctx.ix
    pcb = ix.cls(PCB)
    f = pcb.lookup("postprocess_field")
    if f is None:
        raise AnalysisError("PandasCheckBackend.postprocess_field missing")
    ctx.touched(f)
    cfg = cfg_of(f.node)
    deciding, verdict = set(), set()
    for st in function_stmts(f):
        node = cfg.node_of(st)
        if node is None:
            continue
        if isinstance(st, (ast.If, ast.While)):
            continue
        calls = list(calls_in(st))
        if isinstance(st, ast.Assign) and any(callee_last(c) == "fillna" and c.args and isinstance(c.args[0], ast.Constant) and c.args[0].value is False for c in calls):
            deciding.add(node.id)
        if any(callee_last(c) == "all" for c in calls):
            verdict.add(node.id)
    # a fill guarded by `if <output>.hasnans:` decides exactly the outputs that need it
    for n_ in cfg.nodes:
        if n_.kind == "test" and isinstance(n_.ast, ast.expr) and any(isinstance(x, ast.Attribute) and x.attr in ("hasnans",) for x in ast.walk(n_.ast)):
            body_fills = any(cfg.nodes[s_].id in deciding for s_, lab in cfg.succ[n_.id] if lab == "True")
            if body_fills:
                deciding.add(n_.id)
    if not verdict:
        raise AnalysisError("postprocess_field: verdict aggregation (.all()) not found")
    path = cfg.must_pass(cfg.entry.id, verdict, deciding)
    ok = path is None
    ctx.ob("R3", f, "pandas: a null check output is decided (False) before the field verdict is aggregated", ok,
           "every path to `.all()` passes fillna(False)" if ok else
           "check_output.all() is reached with <NA> outputs undecided: Series.all() skips them, so Check.gt(0, ignore_na=False) accepts Int64 [1, <NA>, 3] "
           "(the float64 twin [1.0, NaN, 3.0] is rejected, and so is the polars backend)", f.loc(f.node))


def _mentions_ignore_na(node) -> bool:
    return any(isinstance(x, ast.Attribute) and x.attr == "ignore_na" for x in ast.walk(node))


def r3_every_field_path_null_aware(ctx):
    """ignore_na=True promises that null elements are never shown to the check function.  `preprocess` dispatches the
    field-level inputs (a Series, or a table together with the `key` of the checked column) to per-shape functions; every
    value such a function returns has to be produced with `ignore_na` consulted - on the grouped branch too, where the
    function receives a dict of groups.  Decided per return statement: it is guarded by a test that reads `ignore_na`, or
    its value (through reaching definitions) was produced under such a test, or by a private helper next to it that
    reads `ignore_na`."""
    ix = ctx.ix
    pcb = ix.cls(PCB)
    pre = pcb.lookup("preprocess")
    if pre is None:
        raise AnalysisError("PandasCheckBackend.preprocess missing")
    ctx.touched(pre)
    cfg0 = cfg_of(pre.node)
    targets = []
    for c in calls_in(pre.node):
        if not (isinstance(c.func, ast.Attribute) and isinstance(c.func.value, ast.Name) and c.func.value.id == "self"):
            continue
        st = enclosing_stmt(c)
        node = cfg0.node_of(st)
        if node is None:
            continue
        # field-level: dispatched for a Series (`is_field(check_obj)` holds), or handed the `key` of the checked column
        pos = [txt(t) for t, pol in cfg0.guards(node.id) if pol]
        field_level = any(t.startswith("is_field(") for t in pos) or any(isinstance(a, ast.Name) and a.id == "key" for a in list(c.args) + [k.value for k in c.keywords])
        if field_level:
            h = pcb.lookup(c.func.attr)
            if h is not None and h not in targets:
                targets.append(h)
    if len(targets) < 2:
        raise AnalysisError(f"preprocess: field-level dispatch targets not found ({[t.name for t in targets]})")
    for f in targets:
        ctx.touched(f)
        helpers = {h.name: h for h in same_module_helpers(ix, f, depth=3)[1:]}
        aware_helpers = {n for n, h in helpers.items() if any(_mentions_ignore_na(g.node) for g in same_module_helpers(ix, h, depth=2))}
        cfg = cfg_of(f.node)
        rd = cfg.reaching_defs()

        def aware(nid, seen):
            if nid in seen:
                return False
            seen.add(nid)
            n_ = cfg.nodes[nid]
            if any(_mentions_ignore_na(t) for t, _ in cfg.guards(nid)):
                return True
            a = n_.ast
            if a is None:
                return False
            val = a.value if isinstance(a, (ast.Return, ast.Assign, ast.AnnAssign, ast.AugAssign)) else a
            if val is None:
                return False
            if _mentions_ignore_na(val):
                return True
            for c in ast.walk(val):
                if isinstance(c, ast.Call) and callee_last(c) in aware_helpers:
                    return True
            for nm in {x.id for x in ast.walk(val) if isinstance(x, ast.Name) and isinstance(x.ctx, ast.Load)} - set(f.params):
                for d in rd.get(nid, {}).get(nm, ()):
                    if aware(d, seen):
                        return True
            return False

        n_ret = 0
        for st in function_stmts(f):
            if not isinstance(st, ast.Return) or st.value is None:
                continue
            node = cfg.node_of(st)
            if node is None:
                continue
            n_ret += 1
            ok = aware(node.id, set())
            ctx.ob("R3", f, f"`{txt(st)[:60]}`: the field handed to the check function was produced with ignore_na consulted", ok,
                   "ignore_na decides this path" if ok else
                   f"`{txt(st)[:90]}` returns the checked field on a path that never reads ignore_na: with groupby set the groups keep their null elements, "
                   "the function sees them (NaN > 0 is False) and Column(float, Check(lambda g: g['A'] > 0, groupby='g'), nullable=True) fails on "
                   "[1.0, NaN] although ignore_na defaults to True", f.loc(st))
        if not n_ret:
            raise AnalysisError(f"{f.qual}: no return statement")


def _parents(n):
    from ..index import parent
    p = parent(n)
    while p is not None:
        yield p
        p = parent(p)


def r4_n_failure_cases(ctx):
    ix = ctx.ix
    count = 0
    for cq in (PCB, LCB, "pandera/backends/pandas/base.py::PandasSchemaBackend", "pandera/backends/polars/base.py::PolarsSchemaBackend"):
        cls = ix.cls(cq)
        for f in [x for lst in cls.methods.values() for x in lst]:
            uses = [n for n in walk_no_nested(f.node) if isinstance(n, ast.Attribute) and n.attr == "n_failure_cases"]
            if not uses:
                continue
            count += 1
            probs = []
            fc_helper = "failure_case" in f.name or _is_failure_case_helper(cls, f)
            for u in uses:
                st = enclosing_stmt(u)
                if isinstance(st, ast.If) and in_subtree(u, st.test):
                    for b in st.body + st.orelse:
                        for w in ast.walk(b):
                            if isinstance(w, (ast.Assign, ast.AugAssign)):
                                tg = w.targets if isinstance(w, ast.Assign) else [w.target]
                                if not all("failure_case" in txt(t) for t in tg):
                                    probs.append(f"branch on n_failure_cases assigns {txt(tg[0])}")
                            elif isinstance(w, ast.Return) and w.value is not None and fc_helper:
                                pass   # a failure-case helper returning (truncated or full) failure cases
                            elif isinstance(w, (ast.Return, ast.Raise)):
                                probs.append("branch on n_failure_cases returns/raises")
                elif isinstance(st, ast.Assign):
                    if not all("failure_case" in txt(t) for t in st.targets):
                        probs.append(f"n_failure_cases flows into {txt(st.targets[0])}")
                elif isinstance(st, ast.Expr):
                    pass
                elif isinstance(st, ast.Return) and fc_helper:
                    pass   # the helper's result *is* the failure cases
                else:
                    probs.append(f"n_failure_cases used in `{txt(st)[:50]}`")
            ctx.ob("R4", f, "n_failure_cases reaches only failure-case truncation", not probs,
                   "; ".join(probs) if probs else f"{len(uses)} uses, all assign failure_cases")
    # verdict expressions never mention it: CheckResult(check_output, check_passed, ...)
    for cq in (PCB, LCB):
        cls = ix.cls(cq)
        for f in [x for lst in cls.methods.values() for x in lst]:
            for c in calls_in(f.node):
                if callee_last(c) == "CheckResult":
                    parts = list(c.args[:2]) + [k.value for k in c.keywords if k.arg in ("check_output", "check_passed")]
                    bad = [txt(p) for p in parts if "n_failure_cases" in txt(p) or "failure_case" in txt(p)]
                    ctx.ob("R4", f, f"CheckResult verdict fields in {f.name}", not bad,
                           "verdict independent of failure-case reporting" if not bad else f"verdict built from {bad}", f.loc(c))


def r4_runner_verdict(ctx):
    """ignore_na / n_failure_cases shape the *report*; the runner's verdict (CoreCheckResult.passed in run_check) is the
    check's own check_passed and is never decided from, or under a condition on, the failure cases built for the report."""
    from .c01 import r12_verdict_not_from_report
    r12_verdict_not_from_report(ctx, rule="R4", only=("run_check",), which=("pandas", "polars"))


def r5_raise_warning(ctx):
    ix = ctx.ix
    for q in ("pandera/backends/pandas/base.py::PandasSchemaBackend.run_check",
              "pandera/backends/polars/base.py::PolarsSchemaBackend.run_check"):
        f = ix.func(q)
        cfg = cfg_of(f.node)
        warns = [c for c in calls_in(f.node) if txt(c.func) in ("warnings.warn", "warn")]
        if not warns:
            ctx.ob("R5", f, "raise_warning downgrade", False, "no warnings.warn: raise_warning has no effect")
            continue
        for c in warns:
            st = enclosing_stmt(c)
            chk = f.positional[3] if len(f.positional) > 3 else "check"
            pc = path_condition(cfg, cfg.node_of(st).id, expand=Expander(f.node))
            names = pc[0]
            verdict = [n for n in names if n.endswith(".check_passed") or ".check_passed." in n]
            ok = len(names) == 2 and f"{chk}.raise_warning" in names and len(verdict) == 1 and \
                pc[1] == frozenset({tuple(True if n == f"{chk}.raise_warning" else False for n in names)})
            ctx.ob("R5", f, "warnings.warn reached exactly when (not passed) and check.raise_warning", ok,
                   f"reached under {show_condition(pc)}" + ("" if ok else ": the downgrade to a warning depends on more than "
                                                             "`not passed and check.raise_warning`, so some failing checks still raise"), f.loc(c))
            # the rest of the block: return CoreCheckResult(passed=True), no raise
            from ..index import parent
            blk = parent(st)
            body = blk.body if hasattr(blk, "body") and st in blk.body else []
            after = body[body.index(st) + 1:] if body else []
            ret_ok = any(isinstance(s, ast.Return) and isinstance(s.value, ast.Call) and callee_last(s.value) == "CoreCheckResult"
                         and isinstance(kw(s.value, "passed"), ast.Constant) and kw(s.value, "passed").value is True for s in after)
            raises = any(isinstance(w, ast.Raise) for s in body for w in ast.walk(s))
            ctx.ob("R5", f, "warning branch returns CoreCheckResult(passed=True) and never raises", ret_ok and not raises,
                   "downgraded to a pass" if ret_ok and not raises else f"returns passed=True: {ret_ok}; raises in branch: {raises}", f.loc(c))
            sw = len(c.args) > 1 and "SchemaWarning" in txt(c.args[1]) or (kw(c, "category") is not None and "SchemaWarning" in txt(kw(c, "category")))
            ctx.ob("R5", f, "warning category is SchemaWarning", bool(sw), "SchemaWarning" if sw else f"category {txt(c.args[1]) if len(c.args) > 1 else None}", f.loc(c))


def r6_groups(ctx):
    ix = ctx.ix
    cls = ix.cls(PCB)
    f = cls.method("_format_groupby_input")
    if f is None:
        raise AnalysisError("_format_groupby_input missing")
    cfg = cfg_of(f.node)
    # the mapping that is returned, and the stores into it
    returned = {s.value.id for s in function_stmts(f) if isinstance(s, ast.Return) and isinstance(s.value, ast.Name)}
    stores = [s for s in function_stmts(f) if isinstance(s, ast.Assign) and isinstance(s.targets[0], ast.Subscript)
              and txt(s.targets[0].value) in returned]
    gparam = f.positional[2] if len(f.positional) > 2 else "groups"
    keep = lambda t, n: t.endswith(f" in {gparam}") or t == f"{gparam} is None"
    ok = bool(stores)
    det = []
    for s in stores:
        pc = path_condition(cfg, cfg.node_of(s).id, keep=keep)
        d = dict(zip(pc[0], next(iter(pc[1])))) if len(pc[1]) == 1 else {}
        key = txt(s.targets[0].slice)
        good = d.get(f"{key} in {gparam}") is True and d.get(f"{gparam} is None") is False
        ok = ok and good
        det.append(show_condition(pc))
    if not stores:
        # comprehension form: `return {key: group for key, group in ... if key in groups}` (reached when groups is given)
        for r in function_stmts(f):
            if not isinstance(r, ast.Return) or r.value is None:
                continue
            dc = r.value
            if isinstance(dc, ast.Name):
                defs_ = [a.value for a in function_stmts(f) if isinstance(a, ast.Assign) and any(isinstance(t, ast.Name) and t.id == dc.id for t in a.targets)]
                dc = defs_[-1] if defs_ else dc
            if not isinstance(dc, ast.DictComp):
                continue
            pc = path_condition(cfg, cfg.node_of(r).id, keep=keep)
            d = dict(zip(pc[0], next(iter(pc[1])))) if len(pc[1]) == 1 else {}
            if d.get(f"{gparam} is None") is not False:
                continue   # the groups-is-None branch returns every group
            key = txt(dc.key)
            filtered = any(txt(cond).replace(" ", "") == f"{key}in{gparam}".replace(" ", "") for g_ in dc.generators for cond in g_.ifs)
            ok = filtered
            det.append(f"comprehension filtered by `{key} in {gparam}`" if filtered else f"comprehension over every group (no `{key} in {gparam}` filter)")
    ctx.ob("R6", f, "only requested groups are handed to the check function", ok, "; ".join(det) or "no store into output")
    # the grouping itself keeps every group of the grouping columns (unobserved categories, null keys as pandas defines)
    gb = cls.method("groupby")
    if gb is None:
        raise AnalysisError("PandasCheckBackend.groupby missing")
    for c in calls_in(gb.node):
        if callee_last(c) != "groupby" or not isinstance(c.func, ast.Attribute):
            continue
        dropping = []
        for k in c.keywords:
            if k.arg == "observed" and not (isinstance(k.value, ast.Constant) and k.value.value is False):
                dropping.append("observed=" + txt(k.value))
            if k.arg == "dropna" and not (isinstance(k.value, ast.Constant) and k.value.value is True):
                dropping.append("dropna=" + txt(k.value))
            if k.arg in ("level", "axis"):
                dropping.append(f"{k.arg}={txt(k.value)}")
        ctx.ob("R6", gb, f"`{txt(c)[:60]}` forms the groups with pandas' defaults", not dropping,
               "no option that removes or adds groups" if not dropping else
               f"{dropping} changes which groups exist (observed=True drops the empty groups of unobserved categories): the check function no "
               "longer receives exactly the groups of the grouping columns, and `groups=[...]` naming such a group raises", gb.loc(c))
    raises = [s for s in function_stmts(f) if isinstance(s, ast.Raise)]
    ok = any("KeyError" in txt(s) for s in raises)
    ctx.ob("R6", f, "unknown group names raise KeyError", ok, "raise KeyError(invalid groups)" if ok else "invalid groups are silently ignored")
    for name in ("preprocess_field", "preprocess_table_with_key", "preprocess_table"):
        g = cls.method(name)
        calls = [c for c in calls_in(g.node) if callee_last(c) == "_format_groupby_input"]
        ok = bool(calls) and all((len(c.args) > 1 and txt(c.args[1]) == "self.check.groups") or
                                 (kw(c, "groups") is not None and txt(kw(c, "groups")) == "self.check.groups") for c in calls)
        ctx.ob("R6", g, f"{name} passes self.check.groups", ok, "groups forwarded" if ok else "groups option not forwarded")


def r6_group_keys_unwrapped_only_when_tuples(ctx):
    """pandas yields 1-tuples as group keys when grouping by a *list* and scalars when grouping by a scalar (a callable
    groupby may do either).  `_format_groupby_input` unwraps 1-tuples so that the function sees `{"A": ...}`; `len(key)` /
    `key[0]` is only meaningful for a tuple, so every such use is guarded by `isinstance(key, tuple)` - as the loop that
    applies `groups` already does.  Unguarded, integer / Timestamp keys raise TypeError (no len()) and the check function
    is never called; str keys only work by accident ("A"[0] == "A")."""
    cls = ctx.ix.cls(PCB)
    f = cls.method("_format_groupby_input")
    if f is None:
        raise AnalysisError("_format_groupby_input missing")
    gobj = f.positional[0] if f.positional and f.positional[0] not in ("self", "cls") else (f.positional[1] if len(f.positional) > 1 else "groupby_obj")
    keys = set()
    for n_ in ast.walk(f.node):
        it, tgt = None, None
        if isinstance(n_, ast.For):
            it, tgt = n_.iter, n_.target
        elif isinstance(n_, ast.comprehension):
            it, tgt = n_.iter, n_.target
        if it is not None and isinstance(it, ast.Name) and it.id == gobj and isinstance(tgt, ast.Tuple) and tgt.elts and isinstance(tgt.elts[0], ast.Name):
            keys.add(tgt.elts[0].id)
    if not keys:
        raise AnalysisError("_format_groupby_input: iteration over the groupby object not found")
    # the unwrapping may live in a helper that is handed the key (`_unwrap_group_key(key)`): its parameter is a key too
    work, seen_fn = [(f, keys)], {f.qual}
    for c in ast.walk(f.node):
        if isinstance(c, ast.Call) and isinstance(c.func, (ast.Name, ast.Attribute)):
            h = None
            if isinstance(c.func, ast.Name):
                h = f.nested.get(c.func.id) or f.module.functions.get(c.func.id)
            elif isinstance(c.func.value, ast.Name) and c.func.value.id in ("self", "cls") and f.cls is not None:
                h = f.cls.lookup(c.func.attr)
            if h is None or h.module is not f.module or h.qual in seen_fn:
                continue
            hp = [p for p in h.positional if p not in ("self", "cls")]
            passed = {hp[i] for i, a in enumerate(c.args) if i < len(hp) and isinstance(a, ast.Name) and a.id in keys}
            if passed:
                seen_fn.add(h.qual)
                work.append((h, passed))
    n = 0
    for f, keys in work:
      cfg = cfg_of(f.node)
      ctx.touched(f)
      for x in ast.walk(f.node):
          use = None
          if isinstance(x, ast.Call) and isinstance(x.func, ast.Name) and x.func.id == "len" and x.args and isinstance(x.args[0], ast.Name) and x.args[0].id in keys:
              use = x.args[0].id
          elif isinstance(x, ast.Subscript) and isinstance(x.value, ast.Name) and x.value.id in keys and isinstance(x.ctx, ast.Load):
              use = x.value.id
          if use is None:
              continue
          n += 1
          guards = []
          child, p_ = x, getattr(x, "_parent", None)
          while p_ is not None and not isinstance(p_, (ast.FunctionDef, ast.AsyncFunctionDef)):
              if isinstance(p_, ast.IfExp) and child is not p_.test:
                  guards.append((p_.test, child is p_.body))
              if isinstance(p_, ast.BoolOp) and isinstance(p_.op, ast.And):
                  i = p_.values.index(child) if child in p_.values else 0
                  guards += [(v, True) for v in p_.values[:i]]
              if isinstance(p_, ast.stmt):
                  node = cfg.node_of(p_)
                  if node is not None:
                      guards += list(cfg.guards(node.id))
                      if isinstance(p_, (ast.If, ast.While)) and child is p_.test:
                          pass
              child, p_ = p_, getattr(p_, "_parent", None)
          def is_tuple_test(t, pol):
              conj = t.values if isinstance(t, ast.BoolOp) and isinstance(t.op, ast.And) else [t]
              return pol and any(isinstance(v, ast.Call) and isinstance(v.func, ast.Name) and v.func.id == "isinstance" and len(v.args) == 2
                                 and txt(v.args[0]) == use and "tuple" in txt(v.args[1]) for v in conj)
          ok = any(is_tuple_test(t, pol) for t, pol in guards)
          comp = x
          while comp is not None and not isinstance(comp, (ast.DictComp, ast.SetComp, ast.ListComp, ast.GeneratorExp, ast.For, ast.FunctionDef)):
              comp = getattr(comp, "_parent", None)
          where = {"DictComp": "the returned mapping", "SetComp": "the set of valid keys", "For": "the groups loop"}.get(type(comp).__name__, type(comp).__name__)
          ctx.ob("R6", f, f"`{txt(x)}` on a group key ({where}) only when the key is a tuple", ok,
                 "guarded by isinstance(key, tuple)" if ok else
                 f"`{txt(x)}` is applied to every group key: a callable groupby that groups by a scalar (`lambda d: d.groupby('g')` with integer or Timestamp keys) raises "
                 "TypeError: object of type 'int' has no len(), reported as a CHECK_ERROR, and the check function is never called", f.loc(x))
    if n < 2:
        raise AnalysisError(f"_format_groupby_input: uses of the group key as a tuple found: {n}")


def run(ctx):
    from ..defassign import check_modules
    check_modules(ctx, "R7", ('pandera/api/checks.py', 'pandera/api/base/checks.py', 'pandera/api/extensions.py', 'pandera/backends/pandas/checks.py', 'pandera/backends/polars/checks.py', 'pandera/backends/base/__init__.py'), "escapes the check instead of a verdict")
    r1_aliases(ctx)
    r2_element_wise(ctx)
    r3_ignore_na(ctx)
    r3_polars_null_outputs_decided(ctx)
    r3_pandas_null_outputs_decided(ctx)
    r3_every_field_path_null_aware(ctx)
    r4_n_failure_cases(ctx)
    r4_runner_verdict(ctx)
    r5_raise_warning(ctx)
    r6_groups(ctx)
    r6_group_keys_unwrapped_only_when_tuples(ctx)
    ctx.assume("Series.map / DataFrame.apply(axis=1) / Expr.map_elements apply the function element-wise as documented by pandas/polars")
