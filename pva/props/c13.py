"""C13 - every synthesised example satisfies the schema that produced it:
per-check strategy wiring."""

from __future__ import annotations

import ast
import itertools

from ..builtin import SPEC_ATOMS, check_functions, spec
from ..index import AnalysisError, dotted, function_stmts, walk_no_nested
from ..preds import FLIP, OPFN, mk_cmp, show
from ..util import callee_last, calls_in, kw, txt

EXPLANATION = (
    "Static analysis of pandera/strategies/pandas_strategies.py against the built-in checks (ast, symbolic paths; "
    "hypothesis is never run). For every built-in check registered with strategy=...: (R1) the keyword-only "
    "parameters of the strategy are the parameters of the check (it is called with **check.statistics); (R2) on "
    "every path (strategy given / not given x option flags x float / non-float dtype) the constraints the strategy "
    "guarantees - its filters and the bounds of its base strategy - imply every conjunct of the check's documented "
    "predicate; (R3) when a parent strategy is given the result is derived from it (.filter/.map), not replaced; "
    "(R4) a check parameter that may be None is guarded or defaulted in the strategy; (R5) checks without a "
    "strategy fall back to filtering by the check itself in the element, series and dataframe strategies; (R6) a "
    "parameter the check treats as a literal is re.escape-d before being embedded in a regex, a pattern parameter is "
    "embedded grouped; (R7) in the series / dataframe strategies nothing transforms the strategy (null masks, index "
    "attachment, mapping) after a check-based fallback filter, so the object the filter accepted is the object drawn; (R8) "
    "every column listed in DataFrameSchema.unique is generated unique (membership test, not a single designated column); (R9) a row strategy passed to data_frames(rows=...) also carries each column's own checks. (R10) definite assignment: no function of pandera/strategies/ reads a local that a branch-only path from its entry leaves unassigned (CFG may-analysis, optimistic about try bodies and loop bodies, correlated guards pruned) - an UnboundLocalError there would escape example(). " 
    " (R11) each pandera.dtypes.is_<kind> classifier used by the strategy dispatch tests subtyping of the class of that kind; (R12) Schema.strategy()/strategy_component() forward every schema attribute to the strategy builders exactly as declared (unique=self.unique, checks=self.checks, ...). " 
    " (R13) the strategy of a SeriesSchema hands self.index to the generated Series (the schema validates the index component). " 
    " (R14) every field-level builder that receives the checks of a component (series_strategy, index_strategy, multiindex_strategy) applies the fallback filter for vectorized checks without a registered strategy. " 
    " (R15) for constructors that store both, statistics[k] is the check argument k and never a lossy projection (.pattern of a compiled regex); (R16) the dataframe strategy lets the dataframe-level dtype override the column dtype, as validation does; (R17) a null mask is applied to a field only with its uniqueness taken into account (repeated nulls are duplicates). " 
    "NOT decided: that draws validate (hypothesis search + numpy/pandas dtype conversion)."
    ' (R18) in the strategies package a lambda / nested def created in a for body reads a variable bound by that loop only through a parameter default (lazy strategies run it after the loop ended); (R19) the wrapper that maps positional arguments of a registered check onto statistic names and the decorator that records check.statistics use the same name sequence.'
)
LEVEL_RULE = "one obligation per (check strategy, path) / parameter / fallback site"
FLOORS = {"R1": 14, "R2": 30, "R3": 14, "R4": 1, "R5": 3, "R6": 2, "R7": 3, "R8": 1, "R9": 1, "R10": 1, "R11": 10, "R12": 15, "R13": 1, "R14": 3, "R15": 4, "R16": 1, "R17": 4}

PD = "pandera/backends/pandas/builtin_checks.py"
ST = "pandera/strategies/pandas_strategies.py"


class Bail(AnalysisError):
    pass


class NeedAtom(Exception):
    def __init__(self, name):
        self.name = name


class Ret(Exception):
    def __init__(self, v):
        self.v = v


def P(n):
    return ("param", n)


class StratEval:
    """Symbolic evaluation of one strategy function on one path."""

    def __init__(self, fn, params):
        self.fn = fn
        self.params = params

    def cond(self, e, env, a):
        pol = True
        while isinstance(e, ast.UnaryOp) and isinstance(e.op, ast.Not):
            e, pol = e.operand, not pol
        if isinstance(e, ast.BoolOp):
            # short-circuit evaluation, left to right (an atom that is never reached is never asked for)
            if isinstance(e.op, ast.And):
                r = True
                for v in e.values:
                    if not self.cond(v, env, a):
                        r = False
                        break
            else:
                r = False
                for v in e.values:
                    if self.cond(v, env, a):
                        r = True
                        break
            return r if pol else not r
        name = None
        if isinstance(e, ast.Compare) and len(e.ops) == 1 and isinstance(e.left, ast.Name) \
                and isinstance(e.comparators[0], ast.Constant) and e.comparators[0].value is None:
            name = f"{e.left.id} is None"
            if isinstance(e.ops[0], ast.IsNot):
                pol = not pol
            # a rebinding of `strategy` on this path makes the test concrete
            v = env.get(e.left.id)
            if e.left.id == "strategy" and v is not None and v != ("strat_param",):
                r = False
                return r if pol else not r
        elif isinstance(e, ast.Name):
            name = e.id
        elif isinstance(e, ast.Call) and isinstance(e.func, ast.Name) and e.func.id.startswith("is_"):
            name = f"{e.func.id}(dtype)"
        if name is None:
            raise Bail(f"{self.fn.name}: unsupported condition `{txt(e)}`")
        if name not in a:
            raise NeedAtom(name)
        return a[name] if pol else not a[name]

    def run(self, a):
        env = {p: P(p) for p in self.params}
        env["strategy"] = ("strat_param",)
        env["pandera_dtype"] = ("dtype",)
        try:
            self.block(self.fn.body, env, a)
        except Ret as r:
            return r.v
        raise Bail(f"{self.fn.name}: falls off the end")

    def block(self, stmts, env, a):
        for s in stmts:
            if isinstance(s, ast.Expr) and isinstance(s.value, ast.Constant):
                continue
            if isinstance(s, ast.Return):
                raise Ret(self.ev(s.value, env, a))
            if isinstance(s, ast.If):
                self.block(s.body if self.cond(s.test, env, a) else s.orelse, env, a)
                continue
            if isinstance(s, ast.Assign) and len(s.targets) == 1 and isinstance(s.targets[0], ast.Name):
                env[s.targets[0].id] = self.ev(s.value, env, a)
                continue
            if isinstance(s, ast.Raise):
                raise Ret(("RAISE", txt(s.exc)[:40] if s.exc else ""))
            if isinstance(s, ast.FunctionDef) and len(s.args.args) == 1 and not s.decorator_list:
                env[s.name] = ("localfn", s, dict(env))
                continue
            raise Bail(f"{self.fn.name}: unsupported statement `{txt(s)[:50]}`")

    # -- element predicates written as a lambda or a local def -------------------------------
    def pexpr(self, e, x, env, a):
        """Predicate over the element `x` denoted by expression e."""
        from ..preds import CMPOP, mk_and
        if isinstance(e, ast.Call) and isinstance(e.func, ast.Name) and e.func.id == "bool" and len(e.args) == 1:
            return self.pexpr(e.args[0], x, env, a)
        if isinstance(e, ast.BoolOp) and isinstance(e.op, ast.And):
            out = self.pexpr(e.values[0], x, env, a)
            for v in e.values[1:]:
                out = mk_and(out, self.pexpr(v, x, env, a))
            return out
        if isinstance(e, ast.BinOp) and isinstance(e.op, ast.BitAnd):
            return mk_and(self.pexpr(e.left, x, env, a), self.pexpr(e.right, x, env, a))
        if isinstance(e, ast.UnaryOp) and isinstance(e.op, ast.Not):
            return ("not", self.pexpr(e.operand, x, env, a))
        if isinstance(e, ast.IfExp):
            return self.pexpr(e.body if self.cond(e.test, env, a) else e.orelse, x, env, a)
        if isinstance(e, ast.Name) and isinstance(env.get(e.id), tuple) and env[e.id] and env[e.id][0] == "elpred":
            return env[e.id][1]
        if isinstance(e, ast.Compare):
            operands = [e.left] + list(e.comparators)
            out = None
            for l, op, r in zip(operands, e.ops, operands[1:]):
                lx = isinstance(l, ast.Name) and l.id == x
                rx = isinstance(r, ast.Name) and r.id == x
                if lx == rx:
                    raise Bail(f"{self.fn.name}: comparison without exactly one element operand `{txt(e)}`")
                other = self.ev(r if lx else l, env, a)
                if isinstance(op, ast.In) and lx:
                    p = ("isin", "D", other)
                elif isinstance(op, ast.NotIn) and lx:
                    p = ("not", ("isin", "D", other))
                elif type(op) in CMPOP:
                    p = mk_cmp(CMPOP[type(op)], "D" if lx else other, other if lx else "D")
                else:
                    raise Bail(f"{self.fn.name}: unsupported comparison `{txt(e)}`")
                out = p if out is None else mk_and(out, p)
            return out
        raise Bail(f"{self.fn.name}: unsupported element predicate `{txt(e)[:60]}`")

    def localfn(self, node, env, a):
        x = node.args.args[0].arg
        env = dict(env)

        class _R(Exception):
            def __init__(self, v):
                self.v = v

        def block(stmts):
            for s in stmts:
                if isinstance(s, ast.Expr) and isinstance(s.value, ast.Constant):
                    continue
                if isinstance(s, ast.Assign) and len(s.targets) == 1 and isinstance(s.targets[0], ast.Name):
                    try:
                        env[s.targets[0].id] = ("elpred", self.pexpr(s.value, x, env, a))
                    except Bail:
                        env[s.targets[0].id] = self.ev(s.value, env, a)
                    continue
                if isinstance(s, ast.If):
                    block(s.body if self.cond(s.test, env, a) else s.orelse)
                    continue
                if isinstance(s, ast.Return) and s.value is not None:
                    raise _R(("pred", self.pexpr(s.value, x, env, a)))
                raise Bail(f"{self.fn.name}: unsupported statement in local predicate `{txt(s)[:50]}`")

        try:
            block(node.body)
        except _R as r:
            return r.v
        raise Bail(f"{self.fn.name}: local predicate {node.name} returns nothing")

    def ev(self, e, env, a):
        if isinstance(e, ast.Name):
            return env.get(e.id, ("name", e.id))
        if isinstance(e, ast.Constant):
            return ("const", e.value)
        if isinstance(e, ast.IfExp):
            return self.ev(e.body if self.cond(e.test, env, a) else e.orelse, env, a)
        if isinstance(e, ast.UnaryOp) and isinstance(e.op, ast.Not):
            try:
                return ("const", not self.cond(e.operand, env, a))
            except Bail:
                return ("not", self.ev(e.operand, env, a))
        if isinstance(e, ast.JoinedStr):
            parts = []
            for p in e.values:
                parts.append(("const", p.value) if isinstance(p, ast.Constant) else self.ev(p.value, env, a))
            return ("concat", tuple(parts))
        if isinstance(e, ast.BinOp) and isinstance(e.op, ast.Add):
            return ("concat", (self.ev(e.left, env, a), self.ev(e.right, env, a)))
        if isinstance(e, ast.Lambda):
            return self.lam(e, env, a)
        if isinstance(e, ast.Attribute):
            d = dotted(e)
            if d and d.startswith("operator.") and e.attr in OPFN:
                return ("opfn", OPFN[e.attr])
            base = self.ev(e.value, env, a)
            if isinstance(base, tuple) and base[0] == "recompiled" and e.attr in ("fullmatch", "match", "search"):
                return ("pred", ("re", e.attr, base[1]))
            return ("attr", base, e.attr)
        if isinstance(e, ast.Call):
            return self.call(e, env, a)
        raise Bail(f"{self.fn.name}: unsupported expression `{txt(e)[:50]}`")

    def lam(self, e, env, a):
        if len(e.args.args) != 1:
            raise Bail("lambda arity")
        x = e.args.args[0].arg
        b = e.body
        if isinstance(b, (ast.BoolOp, ast.BinOp, ast.IfExp)) or (isinstance(b, ast.Compare) and not (len(b.ops) == 1 and isinstance(b.left, ast.Name) and b.left.id == x)):
            return ("pred", self.pexpr(b, x, env, a))
        if isinstance(b, ast.Compare) and len(b.ops) == 1 and isinstance(b.left, ast.Name) and b.left.id == x:
            rhs = self.ev(b.comparators[0], env, a)
            if isinstance(b.ops[0], ast.In):
                return ("pred", ("isin", "D", rhs))
            if isinstance(b.ops[0], ast.NotIn):
                return ("pred", ("not", ("isin", "D", rhs)))
            from ..preds import CMPOP
            if type(b.ops[0]) in CMPOP:
                return ("pred", ("cmp", CMPOP[type(b.ops[0])], "D", rhs))
        raise Bail(f"{self.fn.name}: unsupported lambda `{txt(e)}`")

    def call(self, e, env, a):
        f = e.func
        args = [self.ev(x, env, a) for x in e.args]
        kwargs = {k.arg: self.ev(k.value, env, a) for k in e.keywords if k.arg}
        d = dotted(f) or ""
        last = d.split(".")[-1] if d else (f.attr if isinstance(f, ast.Attribute) else "")
        if last == "partial" and args:
            fn = args[0]
            if isinstance(fn, tuple) and fn[0] == "opfn" and len(args) == 2:
                return ("pred", mk_cmp(fn[1], args[1], "D"))
            if fn == ("name", "min_len") and len(args) == 2:
                return ("pred", ("cmp", ">=", ("len", "D"), args[1]))
            if fn == ("name", "max_len") and len(args) == 2:
                return ("pred", ("cmp", "<=", ("len", "D"), args[1]))
            raise Bail(f"{self.fn.name}: unsupported partial `{txt(e)}`")
        if d == "re.compile" and args:
            return ("recompiled", args[0])
        if d == "re.escape" and args:
            return ("escaped", args[0])
        if isinstance(f, ast.Attribute) and f.attr in ("filter", "map"):
            recv = self.ev(f.value, env, a)
            if f.attr == "filter":
                p = args[0]
                if isinstance(p, tuple) and p[0] == "localfn":
                    p = self.localfn(p[1], p[2], a)
                if not (isinstance(p, tuple) and p[0] == "pred"):
                    raise Bail(f"{self.fn.name}: unsupported filter `{txt(e.args[0])}`")
                return ("filtered", recv, p[1])
            return ("mapped", recv, args[0] if args else None)
        if last == "pandas_dtype_strategy":
            slots = ["pandera_dtype", "strategy"]
            for i, nm in enumerate(slots):
                if nm in kwargs and len(args) == i:
                    args.append(kwargs.pop(nm))
        if last in ("pandas_dtype_strategy", "from_regex", "text", "sampled_from", "just", "from_dtype", "integers", "floats"):
            return ("base", last, tuple(args), tuple(sorted(kwargs.items())))
        if last == "to_numpy_dtype":
            return ("npdtype",)
        raise Bail(f"{self.fn.name}: unsupported call `{txt(e)[:60]}`")


def paths(fn, params):
    ev = StratEval(fn, params)
    out = {}
    todo = [{}]
    while todo:
        a = todo.pop()
        try:
            out[tuple(sorted(a.items()))] = ev.run(a)
        except NeedAtom as n:
            for v in (True, False):
                b = dict(a)
                b[n.name] = v
                todo.append(b)
        if len(out) > 64:
            raise Bail("too many paths")
    return out


def unwrap(v):
    """(root, [filters], derived_from_parent)"""
    filters = []
    while isinstance(v, tuple) and v and v[0] in ("filtered", "mapped"):
        if v[0] == "filtered":
            filters.append(v[2])
        v = v[1]
    return v, filters


def root_is_parent(root):
    if root == ("strat_param",):
        return True
    if isinstance(root, tuple) and root and root[0] == "base":
        # pandas_dtype_strategy(dtype, <strategy>) maps the parent strategy
        return any(x == ("strat_param",) for x in root[2])
    return False


def _pattern_form(v):
    """('raw', p) | ('embedded', prefix, p, suffix, grouped, escaped)"""
    if isinstance(v, tuple) and v[0] == "param":
        return ("raw", v[1])
    if isinstance(v, tuple) and v[0] == "concat":
        flat = []

        def fl(x):
            if isinstance(x, tuple) and x[0] == "concat":
                for y in x[1]:
                    fl(y)
            else:
                flat.append(x)
        fl(v)
        ps = [x for x in flat if x[0] in ("param", "escaped")]
        if len(ps) != 1 or any(x[0] not in ("const", "param", "escaped") for x in flat):
            return ("unknown", v)
        i = flat.index(ps[0])
        prefix = "".join(str(x[1]) for x in flat[:i])
        suffix = "".join(str(x[1]) for x in flat[i + 1:])
        escaped = ps[0][0] == "escaped"
        pname = ps[0][1][1] if escaped else ps[0][1]
        grouped = False
        for g in ("(?:", "("):
            if prefix.endswith(g) and suffix.startswith(")"):
                grouped, prefix, suffix = True, prefix[: -len(g)], suffix[1:]
                break
        return ("embedded", prefix, pname, suffix, grouped, escaped)
    return ("unknown", v)


def implied(conj, root, filters, is_float):
    """Is the spec conjunct guaranteed by the filters or by the base strategy? -> (ok, why)"""
    for f in filters:
        if f == conj:
            return True, "filter " + show(f)
    kind = conj[0]
    base = root if isinstance(root, tuple) and root and root[0] == "base" else None
    bk = dict(base[3]) if base else {}
    bargs = base[2] if base else ()
    inner = None
    if base and base[1] == "pandas_dtype_strategy" and len(bargs) > 1 and isinstance(bargs[1], tuple) and bargs[1][0] == "base":
        inner = bargs[1]
    if kind == "cmp" and conj[2] == "D":
        op, p = conj[1], conj[3]
        if op in (">", ">="):
            if bk.get("min_value") == p:
                ex = bk.get("exclude_min", ("const", None))
                exv = ex[1] if ex[0] == "const" else "?"
                if op == ">=":
                    return exv in (False, None), f"base min_value={show(p)}, exclude_min={exv}"
                if exv is True and is_float is True:
                    return True, f"base min_value={show(p)}, exclude_min=True (float dtype)"
                if exv is True:
                    return False, (f"base min_value={show(p)} with exclude_min=True, but exclude_min is honoured for float dtypes only (integers / "
                                   "datetimes ignore it) and this path neither tests is_float nor filters: the bound itself can be drawn")
                return False, f"base bound min_value={show(p)} is inclusive (exclude_min={exv}) and no filter enforces strictness"
        if op in ("<", "<="):
            if bk.get("max_value") == p:
                ex = bk.get("exclude_max", ("const", None))
                exv = ex[1] if ex[0] == "const" else "?"
                if op == "<=":
                    return exv in (False, None), f"base max_value={show(p)}, exclude_max={exv}"
                if exv is True and is_float is True:
                    return True, f"base max_value={show(p)}, exclude_max=True (float dtype)"
                if exv is True:
                    return False, (f"base max_value={show(p)} with exclude_max=True, but exclude_max is honoured for float dtypes only (integers / "
                                   "datetimes ignore it) and this path neither tests is_float nor filters: the bound itself can be drawn")
                return False, f"base bound max_value={show(p)} is inclusive (exclude_max={exv}) and no filter enforces strictness"
        if op == "==" and inner and inner[1] == "just" and inner[2] and inner[2][0] == p:
            return True, "base st.just(value)"
    if kind == "cmp" and conj[2] == ("len", "D") and base and base[1] == "text":
        op, p = conj[1], conj[3]
        if op == ">=" and bk.get("min_size") == p:
            return True, "st.text(min_size=...)"
        if op == "<=" and bk.get("max_size") == p:
            return True, "st.text(max_size=...)"
    if kind == "isin" and inner and inner[1] == "sampled_from" and inner[2] and inner[2][0] == conj[2]:
        return True, "base st.sampled_from(allowed_values)"
    if kind == "strsem":
        _, sk, pname = conj
        cands = []
        for f in filters:
            if isinstance(f, tuple) and f[0] == "re":
                cands.append((f[1], _pattern_form(f[2])))
        if base and base[1] == "from_regex" and base[2]:
            fm = bk.get("fullmatch", ("const", False))
            cands.append(("fullmatch" if fm == ("const", True) else "search", _pattern_form(base[2][0])))
        for how, pf in cands:
            if sk == "match" and pf == ("raw", pname) and how in ("fullmatch", "match"):
                return True, f"regex {how} on the raw pattern implies a match at the start"
            if sk == "contains" and pf == ("raw", pname) and how in ("search", "fullmatch", "match"):
                return True, f"regex {how} on the raw pattern implies containment"
            if sk in ("prefix", "suffix") and pf[0] == "embedded" and pf[2] == pname:
                _, prefix, _, suffix, grouped, escaped = pf
                anchored = (sk == "prefix" and prefix in ("\\A", "^") and suffix == "") or \
                           (sk == "suffix" and suffix in ("\\Z", "$") and prefix == "")
                if anchored and escaped:
                    return True, "anchored regex over re.escape(literal)"
                if anchored and not escaped:
                    return False, (f"the check treats `{pname}` as a literal but the strategy embeds it unescaped in a "
                                   f"regex: metacharacters (`.`, `+`, `(`) generate strings the check rejects")
        return False, "no regex constraint equivalent to the check"
    return False, "neither a filter nor a base bound guarantees it"


def conjuncts_of(p):
    if isinstance(p, tuple) and p and p[0] == "and":
        return list(p[1:])
    return [p]


def _is_fallback_def(g):
    rets = [s for s in function_stmts(g) if isinstance(s, ast.Return) and s.value is not None]
    return bool(rets) and all(isinstance(r.value, ast.Call) and isinstance(r.value.func, ast.Attribute) and r.value.func.attr == "filter" for r in rets)


def r7_filter_last(ctx, stm):
    """The object that the fallback filter accepted is the object that is drawn: nothing transforms the strategy after it."""
    from ..cfg import cfg_of
    n = 0
    for fname in ("field_element_strategy", "series_strategy", "dataframe_strategy", "multiindex_strategy", "index_strategy", "column_strategy"):
        f = stm.functions.get(fname)
        if f is None:
            continue
        scopes = [f] + list(f.nested.values())
        fallbacks = {name for g in scopes for name, h in g.nested.items() if _is_fallback_def(h)}
        if not fallbacks:
            continue
        for g in scopes:
            cfg = cfg_of(g.node)
            filt, trans = [], []
            for s in function_stmts(g):
                if not (isinstance(s, ast.Assign) and len(s.targets) == 1 and isinstance(s.targets[0], ast.Name)):
                    continue
                t = s.targets[0].id
                v = s.value
                if not (isinstance(v, ast.Call) and t in {x.id for x in ast.walk(v) if isinstance(x, ast.Name)}):
                    continue
                if isinstance(v.func, ast.Name) and v.func.id in fallbacks:
                    filt.append((t, s))
                elif isinstance(v.func, ast.Attribute) and v.func.attr == "filter":
                    continue
                elif any(k.arg is None and txt(k.value).endswith(".statistics") for k in v.keywords):
                    continue  # chaining of the next check's strategy: restricts its parent (decided by R3), never transforms drawn values
                else:
                    trans.append((t, s))
            for t, s in filt:
                n += 1
                reach = cfg.reachable(cfg.node_of(s).id, skip_labels=("exc", "fin-exc"))
                late = [x for tt, x in trans if tt == t and cfg.node_of(x).id in reach and x is not s]
                ctx.ob("R7", g, f"{fname}: `{txt(s)[:70]}` is the last transformation of `{t}`", not late,
                       "every later rebinding is another filter" if not late else
                       f"`{txt(late[0])[:80]}` (line {late[0].lineno}) transforms the strategy after the check-based filter: the filter "
                       "accepted an object (before null masks / index / mapping) that is not the one finally drawn, so draws can violate the check",
                       g.loc(s))
    if n == 0:
        raise AnalysisError("no check-based fallback filter found in the strategies module")


def r8_joint_unique(ctx, stm):
    """Joint uniqueness (DataFrameSchema.unique=[...]) is generated by making *every* listed column unique; null masks are
    applied afterwards, so relying on a single column lets duplicate rows through once that column is nulled."""
    from ..cfg import cfg_of
    from ..util import path_condition, show_condition
    f = stm.functions.get("dataframe_strategy")
    if f is None:
        raise AnalysisError("dataframe_strategy missing")
    uparam = "unique"
    n = 0
    for g in [f] + list(f.nested.values()):
        cfg = cfg_of(g.node)
        for s in function_stmts(g):
            if isinstance(s, ast.Assign) and isinstance(s.targets[0], ast.Attribute) and s.targets[0].attr == "unique" \
                    and isinstance(s.value, ast.Constant) and s.value.value is True:
                n += 1
                pc = path_condition(cfg, cfg.node_of(s).id, keep=lambda t, nn: uparam in t)
                names = pc[0]
                member = [a for a in names if a.endswith(f" in {uparam}")]
                indexed = [a for a in names if f"{uparam}[" in a]
                ok = bool(member) and not indexed and len(pc[1]) >= 1 and all(r[names.index(member[0])] for r in pc[1])
                ctx.ob("R8", g, "every column listed in the schema's `unique` is generated unique", ok,
                       f"reached under {show_condition(pc)}" if ok else
                       f"the column is made unique only under {show_condition(pc)}: not for every member of `{uparam}`; after null masking of that "
                       "one column the remaining columns can repeat and the drawn frame violates the joint uniqueness it was generated for",
                       g.loc(s))
    if n == 0:
        ctx.ob("R8", f, "every column listed in the schema's `unique` is generated unique", False, "no column is made unique for joint uniqueness")


def r9_row_strategy_keeps_column_checks(ctx, stm):
    """hypothesis' data_frames(rows=...) takes every value from the row strategy and ignores the per-column element
    strategies, so a row strategy built for dataframe-level checks has to carry each column's own checks as well."""
    from ..util import Expander
    f = stm.functions.get("dataframe_strategy")
    n = 0
    for g in [f] + list(f.nested.values()):
        ex = Expander(g.node)
        for c in calls_in(g.node):
            if callee_last(c) != "data_frames" or kw(c, "rows") is None:
                continue
            rows = kw(c, "rows")
            if isinstance(rows, ast.Constant) and rows.value is None:
                continue
            n += 1
            uses_col_checks = False
            for e in ex.closure(rows):
                for x in ast.walk(e):
                    if isinstance(x, ast.Call) and callee_last(x) == "make_row_strategy":
                        for a in list(x.args[1:]) + [k.value for k in x.keywords if k.arg != "col"]:
                            for d in ex.closure(a):
                                if any(isinstance(y, ast.Attribute) and y.attr == "checks" and not txt(y.value).startswith("self") for y in ast.walk(d)):
                                    uses_col_checks = True
            ctx.ob("R9", g, "row strategy for dataframe-level checks also enforces each column's own checks", uses_col_checks,
                   "make_row_strategy(col, [*col.checks, ...])" if uses_col_checks else
                   "`rows=` replaces the column element strategies, and the row strategy is built from the dataframe-level checks only: with "
                   "any dataframe-level built-in / element-wise check the column checks are ignored by the generator", g.loc(c))
    if n == 0:
        ctx.ob("R9", f, "no row strategy is passed to data_frames", True, "column strategies are always used")


CLASSIFIER_EXCEPTIONS = {"numeric": "_Number"}   # is_numeric tests the abstract number base (confirmed by reading)


def r11_classifiers(ctx):
    """The strategy dispatch (and the engines) classify a dtype with pandera.dtypes.is_<kind>.  Each classifier tests
    subtyping of the abstract class of that kind (is_datetime -> DateTime ...): a classifier that tests a wider class
    (Date for DateTime) routes dtypes of another kind to a strategy that produces values the dtype's own check rejects."""
    m = ctx.ix.module("pandera/dtypes.py")
    n = 0
    for name, f in sorted(m.functions.items()):
        if not name.startswith("is_") or name == "is_subdtype":
            continue
        kind = name[3:]
        rets = [r.value for r in walk_no_nested(f.node) if isinstance(r, ast.Return) and r.value is not None]
        calls = [c for r in rets for c in ast.walk(r) if isinstance(c, ast.Call) and callee_last(c) == "is_subdtype"]
        if not calls:
            continue
        n += 1
        sub = m.functions.get("is_subdtype")
        second = sub.positional[1] if sub is not None and len(sub.positional) > 1 else "parent"
        tested = []
        for c in calls:
            a = c.args[1] if len(c.args) > 1 else kw(c, second)
            tested.append(txt(a) if a is not None else "?")
        want = CLASSIFIER_EXCEPTIONS.get(kind)
        ok = all((t == want) if want else (t.lower() == kind) for t in tested) and len(rets) == 1
        ctx.ob("R11", f, f"dtypes.{name} tests subtyping of the `{kind}` class", ok,
               f"is_subdtype(..., {', '.join(tested)})" if ok else
               f"tests {tested}: dtypes of another kind are classified as {kind} and sent to its strategy / engine branch "
               "(e.g. date-only columns generated as Timestamps, which their own dtype check rejects)", f.loc(f.node))
    if n < 10:
        raise AnalysisError(f"pandera/dtypes.py: only {n} is_<kind> classifiers found")


STRATEGY_FORWARDS = {"columns", "checks", "unique", "index", "indexes", "nullable", "name", "dtype"}


def r12_strategy_forwarding(ctx):
    """Schema.strategy()/example() hand the declared constraints to the strategy builders unchanged: every keyword of a
    `st.<kind>_strategy(...)` call that names a schema attribute receives exactly `self.<attribute>` (a truncated
    `unique`, a filtered `checks` list ... yields examples the schema rejects)."""
    from ..util import Expander
    ix = ctx.ix
    n = 0
    for mp in ("pandera/api/pandas/container.py", "pandera/api/pandas/array.py", "pandera/api/pandas/components.py"):
        m = ix.module(mp)
        for f in m.all_functions:
            if f.cls is None or f.name not in ("strategy", "strategy_component"):
                continue
            ex = Expander(f.node)
            for c in calls_in(f.node):
                if not (callee_last(c).endswith("_strategy") and isinstance(c.func, ast.Attribute)):
                    continue
                for k in c.keywords:
                    if k.arg not in STRATEGY_FORWARDS:
                        continue
                    n += 1
                    v = ex.expand(k.value)
                    ok = isinstance(v, ast.Attribute) and isinstance(v.value, ast.Name) and v.value.id == "self" and v.attr == k.arg
                    ctx.ob("R12", f, f"{f.cls.name}.{f.name}: `{k.arg}` is forwarded to {callee_last(c)} as declared", ok,
                           f"{k.arg}=self.{k.arg}" if ok else
                           f"`{k.arg}={txt(v)[:50]}` is not the declared `self.{k.arg}`: the generated data is built from a modified constraint "
                           "while validation uses the declared one", f.loc(c))
    if n < 15:
        raise AnalysisError(f"strategy forwarding: only {n} forwarded schema attributes found")


def r13_series_index_generated(ctx):
    """SeriesSchema.validate checks the values *and* `schema.index`.  The strategy that generates a Series for it therefore
    has to generate the index from `self.index` as well (as the dataframe strategy does through set_pandas_index):
    otherwise every draw carries a RangeIndex and a schema with an index component rejects all of its own examples."""
    ix = ctx.ix
    ss = ix.cls("pandera/api/pandas/array.py::SeriesSchema")
    validates_index = any(isinstance(x, ast.Attribute) and x.attr == "index" and txt(x.value) == "self"
                          for g in ss.methods.get("validate", []) for x in ast.walk(g.node))
    if not validates_index:
        raise AnalysisError("SeriesSchema.validate does not mention self.index")
    f = ss.lookup("strategy")
    if f is None:
        raise AnalysisError("SeriesSchema.strategy missing")
    ctx.touched(f)
    from ..util import Expander
    ex = Expander(f.node)
    is_index = lambda x: (isinstance(x, ast.Attribute) and x.attr == "index" and txt(x.value) == "self") or (
        isinstance(x, ast.Call) and isinstance(x.func, ast.Name) and x.func.id == "getattr" and len(x.args) >= 2
        and isinstance(x.args[1], ast.Constant) and x.args[1].value == "index")
    # the index component has to flow into the strategy that is returned
    uses = any(is_index(x) for r in walk_no_nested(f.node) if isinstance(r, ast.Return) and r.value is not None
               for d in ex.closure(r.value) for x in ast.walk(d))
    ctx.ob("R13", f, "the strategy of a SeriesSchema generates the index component it validates", uses,
           "self.index is handed to the strategy" if uses else
           f"{f.short} never looks at `index`: SeriesSchema(int, index=Index(int, Check.ge(100), name='key')).example() carries a RangeIndex and is rejected by the schema "
           "(25 of 25 draws)", f.loc(f.node))


def r14_fallback_filter_everywhere(ctx):
    """A vectorized check without a registered strategy cannot steer generation, so the field-level builders fall back to
    *filtering* the drawn object with the check itself.  series_strategy does; every sibling builder that receives the
    `checks` of a component (index_strategy for Index / MultiIndex levels) has to do the same, otherwise such a check is
    silently ignored there and the schema rejects most of its own examples."""
    stm = ctx.ix.module(ST)
    n = 0
    for name in ("series_strategy", "index_strategy", "multiindex_strategy"):
        f = stm.functions.get(name)
        if f is None:
            raise AnalysisError(f"{name} missing")
        if "checks" not in f.params and "indexes" not in f.params:
            continue
        n += 1
        ctx.touched(f)
        ok = False
        for lp in walk_no_nested(f.node):
            if isinstance(lp, ast.For) and any((isinstance(x, ast.Name) and x.id == "checks") or (isinstance(x, ast.Attribute) and x.attr == "checks")
                                               for x in ast.walk(lp.iter)):
                for c in calls_in(lp):
                    if callee_last(c) == "filter":
                        ok = True
                    h = f.nested.get(callee_last(c)) or stm.functions.get(callee_last(c))
                    if h is not None and any(callee_last(x) == "filter" for x in calls_in(h.node, nested=True)):
                        ok = True
        ctx.ob("R14", f, f"{name}: vectorized checks without a strategy are enforced by filtering", ok,
               "fallback filter loop over the checks" if ok else
               f"{name} hands `checks` to the element strategy only: a check such as Check(lambda s: s % 2 == 0) on an Index / MultiIndex level is ignored by "
               "the generator (26 of 30 Index draws rejected) while the same check on a Column is enforced", f.loc(f.node))
    if n < 2:
        raise AnalysisError("expected series_strategy and index_strategy to take `checks`")


def r15_statistics_are_the_check_arguments(ctx):
    """A strategy is generated from `check.statistics`, validation runs the check function on the keyword arguments.  For
    the built-in constructors that store both explicitly, the statistic of a name and the argument of the same name are
    the same value (or one is a container-normalised form of the other) and neither is a lossy projection: storing
    `re.compile(p).pattern` drops the flags of a pre-compiled pattern, so the strategy generates strings for the flag-less
    source which the flag-honouring check then rejects."""
    from ..util import Expander
    m = ctx.ix.module("pandera/api/checks.py")
    n = 0
    for f in m.all_functions:
        ex = None
        for c in calls_in(f.node):
            st = kw(c, "statistics")
            if not isinstance(st, ast.Dict):
                continue
            ex = ex or Expander(f.node)
            for k, sv in zip(st.keys, st.values):
                if not (isinstance(k, ast.Constant) and isinstance(k.value, str)):
                    continue
                av = kw(c, k.value)
                if av is None:
                    continue
                n += 1
                lossy = [x for e in (sv, av) for d in ex.closure(e) for x in ast.walk(d) if isinstance(x, ast.Attribute) and x.attr in ("pattern", "flags")]
                names_s = {x.id for d in ex.closure(sv) for x in ast.walk(d) if isinstance(x, ast.Name)}
                names_a = {x.id for d in ex.closure(av) for x in ast.walk(d) if isinstance(x, ast.Name)}
                related = txt(sv) == txt(av) or bool(names_s & names_a)
                ok = related and not lossy
                ctx.ob("R15", f, f"{f.short}: statistic `{k.value}` is the argument `{k.value}` of the check function", ok,
                       f"statistics[{k.value!r}] = {txt(sv)[:30]}, {k.value} = {txt(av)[:30]}" if ok else
                       (f"`{txt(lossy[0])}` is a lossy projection of a compiled pattern (its flags are dropped): the strategy generates for the flag-less source while "
                        "the check honours the flags" if lossy else f"statistics[{k.value!r}] = `{txt(sv)[:40]}` and {k.value} = `{txt(av)[:40]}` are unrelated values"),
                       f.loc(c))
    if n < 4:
        raise AnalysisError(f"api/checks.py: explicit statistics entries found: {n}")


def r16_dataframe_dtype_wins(ctx):
    """Validation overrides every column's dtype with the dataframe-level dtype when one is declared
    (run_schema_component_checks: `schema_component.dtype = schema.dtype`).  The dataframe strategy has to resolve the
    dtype of each generated column the same way: wherever it chooses between the column's dtype and the dataframe-level
    `pandera_dtype`, the choice is made on `pandera_dtype is None` and the dataframe-level dtype is taken when it is set."""
    stm = ctx.ix.module(ST)
    f = stm.functions.get("dataframe_strategy")
    if f is None:
        raise AnalysisError("dataframe_strategy missing")
    n = 0
    for x in ast.walk(f.node):
        if not isinstance(x, ast.IfExp):
            continue
        t_body, t_else, t_test = txt(x.body), txt(x.orelse), txt(x.test)
        if not (("pandera_dtype" in t_body + t_else) and (".dtype" in t_body + t_else)):
            continue
        n += 1
        on_df = "pandera_dtype" in t_test and ".dtype" not in t_test.replace("pandera_dtype", "")
        neg = isinstance(x.test, ast.Compare) and isinstance(x.test.ops[0], ast.IsNot)
        when_set = x.body if neg else x.orelse       # branch taken when pandera_dtype is not None
        ok = on_df and "pandera_dtype" in txt(when_set)
        ctx.ob("R16", f, "dataframe_strategy: the dataframe-level dtype overrides the column dtype", ok,
               f"`{txt(x)[:70]}`" if ok else
               f"`{txt(x)[:80]}` lets the column's own dtype win: DataFrameSchema({{'a': Column(int)}}, dtype=float) generates int columns, which validation (dataframe "
               "dtype wins) rejects", f.loc(x))
    if n < 1:
        raise AnalysisError("dataframe_strategy: no choice between column dtype and dataframe dtype found")


def r17_null_masks_respect_unique(ctx):
    """The generators build unique values first and then overwrite a random subset of positions with nulls
    (null_field_masks / null_dataframe_masks).  Validation counts repeated nulls as duplicates, so wherever a null mask is
    applied the uniqueness of the field has to be taken into account (no mask, or a mask that knows about `unique`):
    otherwise SeriesSchema(float, unique=True, nullable=True) draws [x, NaN, NaN] and rejects it (28 of 40 draws)."""
    from ..util import Expander
    stm = ctx.ix.module(ST)
    n = 0
    for f in stm.all_functions:
        ex = None
        for c in calls_in(f.node):
            if callee_last(c) not in ("null_field_masks", "null_dataframe_masks"):
                continue
            n += 1
            ex = ex or Expander(f.node)
            from ..cfg import cfg_of
            from ..util import enclosing_stmt
            cfg = cfg_of(f.node)
            node = cfg.node_of(enclosing_stmt(c))
            guards = " ".join(txt(t) for t, _ in (cfg.guards(node.id) if node is not None else []))
            argtxt = " ".join(txt(d) for a in list(c.args)[1:] + [k.value for k in c.keywords] for d in ex.closure(a))
            ok = "unique" in guards or "unique" in argtxt
            ctx.ob("R17", f, f"{f.short}: `{txt(c)[:50]}` takes the uniqueness of the field into account", ok,
                   "conditional on / informed of `unique`" if ok else
                   "nulls are written over values that were generated unique: with unique=True and nullable=True two or more nulls are common, and validation "
                   "rejects them as duplicates", f.loc(c))
    if n < 4:
        raise AnalysisError(f"null mask applications found: {n}")


def r18_loop_closures_bind_their_variables(ctx):
    """Hypothesis strategies are lazy: a `lambda` handed to `.filter()` / `.map()` inside a loop over checks or index levels
    runs long after the loop has finished.  A lambda that reads a loop variable as a free variable sees its *last* value -
    every fallback filter then tests the last check on the last level, and examples violate the earlier ones.  Decided
    (the classic cell-var-from-loop rule, for the strategies package): a lambda / nested def created in a `for` body
    reads a variable bound by that loop only through a parameter default (`lambda df, level=level, check=check: ...`)."""
    n = 0
    for m in ctx.ix.modules.values():
        if not m.path.startswith("pandera/strategies/"):
            continue
        for f in m.all_functions:
            for lp in [x for x in walk_no_nested(f.node) if isinstance(x, ast.For)]:
                bound = {x.id for x in ast.walk(lp.target) if isinstance(x, ast.Name)}
                for st in lp.body:
                    for a in ast.walk(st):
                        if isinstance(a, ast.Assign):
                            bound |= {t.id for t in a.targets if isinstance(t, ast.Name)}
                for st in lp.body:
                    for lam in ast.walk(st):
                        if not isinstance(lam, (ast.Lambda, ast.FunctionDef)):
                            continue
                        args = lam.args
                        params = {a.arg for a in args.posonlyargs + args.args + args.kwonlyargs} | ({args.vararg.arg} if args.vararg else set()) | \
                            ({args.kwarg.arg} if args.kwarg else set())
                        body = [lam.body] if isinstance(lam, ast.Lambda) else lam.body
                        local = {t.id for b in body for x in ast.walk(b) if isinstance(x, ast.Assign) for t in x.targets if isinstance(t, ast.Name)}
                        free = {x.id for b in body for x in ast.walk(b) if isinstance(x, ast.Name) and isinstance(x.ctx, ast.Load)} - params - local
                        n += 1
                        late = sorted(free & bound)
                        ctx.touched(f)
                        ctx.ob("R18", f, f"{f.short}: closure created in the loop over `{txt(lp.iter)[:30]}` binds the loop variables it reads", not late,
                               "loop variables passed as defaults" if not late else
                               f"`{txt(lam)[:70]}` reads {late} as free variables: the strategy evaluates it after the loop has ended, with the values of the last iteration - "
                               "the fallback filter of every earlier check / level tests the last one, and drawn examples violate the earlier checks", f.loc(lam))
    ctx.stats["loop_closures_in_strategies"] = n
    if n < 2:
        raise AnalysisError(f"strategies: closures created in loops found: {n}")


def r19_positional_statistics_use_one_order(ctx):
    """A registered check called positionally - `Check.in_span(100, 3)` - names its statistics twice: the wrapper that builds
    the Check maps the positional values onto statistic names (`dict(zip(<names>, args))`), and the decorator that records
    `check.statistics` (what the strategy draws from) is given a list of names.  Both have to use the *same* sequence -
    the `statistics=[...]` list of the registration; if one of them re-orders the names (signature order) the check
    function and the strategy receive swapped values and examples are drawn from the wrong span."""
    from ..util import Expander
    m = ctx.ix.module("pandera/api/extensions.py")
    n = 0
    for f in m.all_functions:
        zips = [c for c in calls_in(f.node) if isinstance(c.func, ast.Name) and c.func.id == "zip" and len(c.args) == 2
                and isinstance(c.args[1], ast.Name) and c.args[1].id == "args"]
        if not zips:
            continue
        # the list given to the statistics-recording decorator of this method
        g, recorded = f, None
        while g is not None and recorded is None:
            for d in getattr(g.node, "decorator_list", []):
                if isinstance(d, ast.Call) and callee_last(d) == "register_check_statistics" and d.args:
                    recorded = d.args[0]
            g = getattr(g, "parent", None)
        if recorded is None:
            continue
        ex = Expander(f.node)
        for z in zips:
            n += 1
            ctx.touched(f)
            a = z.args[0]
            chain = [a] + list(ex.closure(a))
            same = isinstance(a, ast.Name) and txt(a) == txt(recorded)
            ctx.ob("R19", f, f"{f.short}: positional statistics are named in the order recorded for the strategy", same,
                   f"both use `{txt(recorded)}`" if same else
                   f"`{txt(z)[:50]}` names the positional values by `{txt(a)}` ({[txt(x)[:40] for x in chain[1:2]]}) while check.statistics is recorded from `{txt(recorded)}`: with "
                   "statistics=['width', 'low'] and def f(obj, *, low, width) Check.f(100, 3) validates with one assignment and draws examples with the other", f.loc(z))
    if n < 1:
        raise AnalysisError("extensions.py: mapping of positional check arguments onto statistics not found")


def run(ctx):
    r17_null_masks_respect_unique(ctx)
    r18_loop_closures_bind_their_variables(ctx)
    r19_positional_statistics_use_one_order(ctx)
    r15_statistics_are_the_check_arguments(ctx)
    r16_dataframe_dtype_wins(ctx)
    r13_series_index_generated(ctx)
    r14_fallback_filter_everywhere(ctx)
    r11_classifiers(ctx)
    r12_strategy_forwarding(ctx)
    from ..defassign import check_modules
    check_modules(ctx, "R10", ('pandera/strategies/',), "escapes example() / strategy()")
    ix = ctx.ix
    stm = ix.module(ST)
    checks = check_functions(ix, PD)
    n = 0
    for cname, cf in checks.items():
        strat = None
        for d in cf.decorators:
            if isinstance(d, ast.Call) and callee_last(d) == "register_builtin_check":
                s = kw(d, "strategy")
                if s is not None:
                    strat = dotted(s).split(".")[-1] if dotted(s) else None
        if strat is None:
            continue
        sf = stm.functions.get(strat)
        if sf is None:
            ctx.ob("R1", cf, f"strategy {strat} of {cname} exists", False, f"{strat} not defined in {ST}")
            continue
        ctx.touched(sf, cf)
        n += 1
        cparams = cf.positional[1:]
        sparams = sf.kwonly
        ctx.ob("R1", sf, f"{strat}: keyword-only parameters == parameters of {cname}", sorted(sparams) == sorted(cparams),
               f"strategy takes {sparams}, check takes {cparams}" + ("" if sorted(sparams) == sorted(cparams) else
                                                                     ": strategy(**check.statistics) raises TypeError or ignores a constraint"))
        positional_ok = sf.positional[:2] == ["pandera_dtype", "strategy"]
        ctx.ob("R1", sf, f"{strat}: positional parameters are (pandera_dtype, strategy)", positional_ok, str(sf.positional))
        # R4 optional parameters
        cdefaults = cf.defaults()
        for p in cparams:
            d = cdefaults.get(p)
            if isinstance(d, ast.Constant) and d.value is None:
                guarded = any(isinstance(x, ast.Compare) and isinstance(x.left, ast.Name) and x.left.id == p
                              and isinstance(x.comparators[0], ast.Constant) and x.comparators[0].value is None
                              for x in walk_no_nested(sf.node))
                has_default = p in sf.defaults()
                ctx.ob("R4", sf, f"{strat}: optional check parameter {p}", guarded or has_default,
                       "guarded by an `is None` test / defaulted" if guarded or has_default else
                       f"{cname}({p}=None) is legal for the check but the strategy uses {p} unconditionally "
                       "(e.g. st.text(min_size=None) / len(x) <= None)")
        try:
            table = paths(sf.node, sparams)
        except Bail as e:
            raise AnalysisError(str(e))
        for key, res in sorted(table.items()):
            a = dict(key)
            given = not a.get("strategy is None", False)
            label = ", ".join(f"{k}={v}" for k, v in sorted(a.items())) or "single path"
            if isinstance(res, tuple) and res and res[0] == "RAISE":
                continue
            root, filters = unwrap(res)
            if given:
                ok = root_is_parent(root)
                # a parent wrapped only as an argument of a base that ignores it is not derived
                derived_how = "derived from the parent strategy" if ok else \
                    "the parent strategy (constraints of earlier checks) is discarded: the result satisfies this check only"
                if ok and isinstance(root, tuple) and root[0] == "base":
                    derived_how = "parent strategy mapped through pandas_dtype_strategy"
                ctx.ob("R3", sf, f"{strat} [{label}]: chains onto the given strategy", ok, derived_how)
            consulted = {k: v for k, v in a.items() if k in SPEC_ATOMS.get(cname, [])}
            free = [k for k in SPEC_ATOMS.get(cname, []) if k not in consulted]
            combos = [dict(consulted)]
            for k in free:     # options this path never looks at: it must be right for both values
                combos = [dict(c, **{k: v}) for c in combos for v in (True, False)]
            todo_conj = []
            for sa in combos:
                want = spec(cname, sa)
                if want is None or want[0] == "RAISE":
                    continue
                extra = ", ".join(f"{k}={sa[k]}" for k in free)
                for cj in conjuncts_of(want):
                    todo_conj.append((cj, extra))
            seen_cj = set()
            for cj, extra in todo_conj:
                if (cj, extra) in seen_cj:
                    continue
                seen_cj.add((cj, extra))
                if extra:
                    label2 = f"{label}; not consulted: {extra}"
                else:
                    label2 = label
                if cj[0] == "strsem" and cj[1] in ("prefix", "suffix"):
                    rule = "R6"
                else:
                    rule = "R2"
                if given and root == ("strat_param",) or given and root_is_parent(root):
                    ok, why = implied(cj, root if root != ("strat_param",) else None, filters, a.get("is_float(dtype)"))
                else:
                    ok, why = implied(cj, root, filters, a.get("is_float(dtype)"))
                if not ok and cj[0] == "cmp" and cj[1] in (">", "<") and a.get("is_float(dtype)") is False:
                    # integers: an inclusive bound plus nothing else is not strict; report as is
                    pass
                ctx.ob(rule, sf, f"{strat} [{label2}] guarantees `{show(cj)}`", ok, why)
    ctx.stats["strategies_analysed"] = n
    # ---- R5 fallback -------------------------------------------------------------------
    for fname in ("field_element_strategy", "series_strategy", "dataframe_strategy"):
        f = stm.functions.get(fname)
        if f is None:
            raise AnalysisError(f"{fname} missing")
        # the fallback helper, found by role: a nested or module-level function called from here that takes the check and
        # returns `<strategy>.filter(...)`
        called_names = {c.func.id for g_ in [f] + list(f.nested.values()) for c in calls_in(g_.node) if isinstance(c.func, ast.Name)}
        cands = [h for h in list(f.nested.values()) + [stm.functions[n_] for n_ in sorted(called_names) if n_ in stm.functions]
                 if "check" in h.params and any(isinstance(r_, ast.Return) and isinstance(r_.value, ast.Call) and isinstance(r_.value.func, ast.Attribute)
                                                and r_.value.func.attr == "filter" for r_ in function_stmts(h))]
        u = cands[0] if cands else None
        uname = u.name if u is not None else "undefined_check_strategy"
        ok, detail = False, "no fallback that filters the drawn object by the check"
        if u is not None:
            rets = [s for s in function_stmts(u) if isinstance(s, ast.Return) and s.value is not None]
            filt = [r for r in rets if isinstance(r.value, ast.Call) and isinstance(r.value.func, ast.Attribute) and r.value.func.attr == "filter"]
            def closure_names(expr):
                seen, todo = set(), [n.id for n in ast.walk(expr) if isinstance(n, ast.Name)]
                while todo:
                    nm = todo.pop()
                    if nm in seen:
                        continue
                    seen.add(nm)
                    if nm in u.nested:
                        todo += [n.id for n in ast.walk(u.nested[nm].node) if isinstance(n, ast.Name)]
                    for st_ in function_stmts(u):
                        if isinstance(st_, ast.Assign) and any(isinstance(t, ast.Name) and t.id == nm for t in st_.targets):
                            todo += [n.id for n in ast.walk(st_.value) if isinstance(n, ast.Name)]
                return seen
            uses_check = bool(filt) and all(any("check" in closure_names(a_) for a_ in r.value.args) for r in filt)
            called = [c for c in calls_in(f.node) if isinstance(c.func, ast.Name) and c.func.id == uname]
            for g in f.nested.values():
                called += [c for c in calls_in(g.node) if isinstance(c.func, ast.Name) and c.func.id == uname]
            ok = bool(filt) and len(filt) == len(rets) and uses_check and bool(called)
            detail = (f"fallback filters by the check itself; {len(called)} call site(s)" if ok else
                      f"returns={len(rets)}, filtering returns={len(filt)}, uses check={uses_check}, call sites={len(called)}")
        ctx.ob("R5", f, f"{fname}: checks without a strategy are enforced by filtering", ok, detail)
    r7_filter_last(ctx, stm)
    r8_joint_unique(ctx, stm)
    r9_row_strategy_keeps_column_checks(ctx, stm)
    ctx.assume("hypothesis strategies honour min_value/max_value/exclude_min/exclude_max, st.text sizes, from_regex and filter")
    ctx.assume("hypothesis.internal.filtering.min_len/max_len(size, x) mean len(x) >= size / len(x) <= size")
