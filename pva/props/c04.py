"""C04 - validation never modifies the caller's data unless inplace=True;
the returned container kind equals the input kind."""

from __future__ import annotations

import ast

from ..cfg import cfg_of
from ..effects import show_effect
from ..effprops import api_entries, chain, consistent_flavour, dedupe, engine, inplace_only, site_loc
from ..index import AnalysisError, function_stmts
from ..util import callee_last, calls_in, enclosing_stmt, txt

EXPLANATION = (
    "Static ownership analysis (E5 effect engine: flow-sensitive local points-to with copy-unless-inplace tags, "
    "summaries to a fixpoint over the resolved call graph; nothing executed). (R1) for every public validate / "
    "__call__ entry of the pandas and polars schema classes, every write (attribute/subscript assignment, del, "
    "mutator call, inplace=True call, setattr) that can reach the object passed by the caller - directly or "
    "through any resolved callee - is conditional on inplace=True, i.e. dominated by a copy-unless-inplace; writes "
    "through subscript loads (df[col] temporaries) are out of scope by the stated view assumption and the "
    "`<obj>.pandera` accessor annotation is exempt. (R2) in the polars API validate methods the DataFrame->LazyFrame "
    "conversion under `is_dataframe` is matched by .collect() under the same flag on every path to the return, and "
    "the pandas entry points return an object derived from the working object. NOT decided: bit-for-bit equality "
    "under pandas view/copy semantics; writes performed inside pandas/polars themselves."
    ' (R3) ColumnBackend.validate re-binds the frame it returns to the result of the array-level validation (the parsed column whenever run_parsers replaced the working object) only under a kind test or the absence of parsers; a new value has the kind of the object its expression is rooted at (frame[mask] stays a frame).'
)
LEVEL_RULE = "one obligation per (entry point, write site reaching the caller's object) and per conversion site"
FLOORS = {"R1": 12, "R2": 4}


def r1_ownership(ctx):
    ix = ctx.ix
    eng = engine(ix)
    ctx.stats["effect_engine"] = {"functions": len(eng.funcs), "rounds": eng.rounds,
                                  "summary_effects": eng.trace[-1][2] if eng.trace else 0,
                                  "calls_resolved": dict(eng.res.stats["by_kind"]),
                                  "calls_total": eng.res.stats["calls"], "calls_resolved_total": eng.res.stats["resolved"]}
    seen_entries = set()
    n_data = 0
    for cq, f, fl in api_entries(ix):
        if f.qual in seen_entries and fl == "pandas":
            pass
        key = (f.qual, fl)
        if key in seen_entries:
            continue
        seen_entries.add(key)
        ctx.touched(f)
        if len(f.positional) < 2:
            raise AnalysisError(f"{f.qual}: no data parameter")
        data = f.positional[1]
        s = eng.summary(f)
        effs = [e for e in s.effects if e.root == ("P", data) and consistent_flavour(e, fl)]
        for e in dedupe(effs):
            if any(p.startswith("[") for p in e.path[:-1]) or "..." in e.path:
                continue  # write into a temporary obtained by a subscript load (view assumption)
            if "pandera" in e.path or e.site[0].endswith("Accessor.add_schema"):
                continue  # accessor annotation, not part of the data snapshot
            if e.kind in ("init", "memo"):
                continue
            n_data += 1
            ok = inplace_only(e)
            path = "".join(f".{p}" for p in e.path)
            ctx.ob("R1", e.site[0], f"{f.short}({data}): write `{e.site[2]}`", ok,
                   ("reaches the caller's object only when inplace=True (dominated by copy-unless-inplace)" if ok else
                    f"writes {data}{path} of the object passed by the caller with inplace=False; call path: {chain(e) or 'direct'}"),
                   site_loc(e))
    ctx.stats["data_write_sites"] = n_data
    # the copy itself must exist in every backend validate that writes: covered above; additionally every
    # registered backend `validate` that receives the caller's object returns it or a copy of it
    ctx.assume("subscript loads on the data object (df[col], .iloc[...], .loc[...]) yield objects that do not alias the "
               "caller's data for writing")
    ctx.assume("results of unresolved external calls (pandas/polars/numpy) are fresh objects")


def r2_kind(ctx):
    ix = ctx.ix
    for cq, f, fl in api_entries(ix, names=("validate",)):
        if fl != "polars":
            continue
        ctx.touched(f)
        cfg = cfg_of(f.node)
        data = f.positional[1]
        fdef = [s for s in function_stmts(f) if isinstance(s, ast.Assign) and len(s.targets) == 1 and isinstance(s.targets[0], ast.Name)
                and isinstance(s.value, ast.Call) and callee_last(s.value) == "isinstance" and s.value.args and txt(s.value.args[0]) == data
                and "DataFrame" in txt(s.value.args[1])]
        if len(fdef) != 1:
            ctx.ob("R2", f, f"{f.short}: container kind of the argument is recorded", False,
                   f"no single `flag = isinstance({data}, pl.DataFrame)` of the object as passed: the kind of the result cannot follow the kind of the input")
            continue
        fname = fdef[0].targets[0].id
        start_id = cfg.node_of(fdef[0]).id

        def has_call(node, name):
            return node.ast is not None and node.kind in ("stmt", "test", "with") and any(callee_last(c) == name for c in calls_in(node.ast))

        def walk(v):
            """returns reached when the flag has value v: [(return node, converted, collected)]"""
            out, seen, todo = [], set(), [(start_id, False, False)]
            while todo:
                nid, conv, coll = todo.pop()
                if (nid, conv, coll) in seen:
                    continue
                seen.add((nid, conv, coll))
                n = cfg.nodes[nid]
                conv = conv or has_call(n, "lazy")
                coll = coll or has_call(n, "collect")
                if n.kind == "stmt" and isinstance(n.ast, ast.Return):
                    out.append((n, conv, coll))
                    continue
                for b, lab in cfg.succ[nid]:
                    if lab in ("exc", "fin-exc"):
                        continue
                    if n.kind == "test" and lab in ("True", "False"):
                        t, pol = n.ast, True
                        while isinstance(t, ast.UnaryOp) and isinstance(t.op, ast.Not):
                            t, pol = t.operand, not pol
                        if isinstance(t, ast.Name) and t.id == fname:
                            val = v if pol else not v
                            if (lab == "True") != val:
                                continue
                    todo.append((b, conv, coll))
            return out

        df_rets, lf_rets = walk(True), walk(False)
        bad_df = [n for n, conv, coll in df_rets if not (conv and coll)]
        bad_lf = [n for n, conv, coll in lf_rets if coll]
        ctx.ob("R2", f, f"{f.short}: a DataFrame is converted with .lazy() and every return hands back .collect()", bool(df_rets) and not bad_df,
               f"{len(df_rets)} return(s) under `{fname}`: all converted and collected" if df_rets and not bad_df else
               (f"with a pl.DataFrame argument the return at line {bad_df[0].lineno} is reached without "
                f"{'.lazy() conversion' if not [c for n_, c, _ in df_rets if n_ is bad_df[0]][0] else '.collect()'}: the caller gets a LazyFrame for a DataFrame"
                if bad_df else "no return reached"), f.loc(fdef[0]))
        ctx.ob("R2", f, f"{f.short}: a LazyFrame stays lazy", bool(lf_rets) and not bad_lf,
               f"{len(lf_rets)} return(s) under `not {fname}`: none collects" if lf_rets and not bad_lf else
               (f"with a pl.LazyFrame argument the return at line {bad_lf[0].lineno} collects: the caller gets a DataFrame for a LazyFrame" if bad_lf else "no return reached"),
               f.loc(fdef[0]))
    eng = engine(ix)
    for cq, f, fl in api_entries(ix, names=("validate",)):
        if fl != "pandas":
            continue
        s = eng.summary(f)
        data = f.positional[1]
        rooted = [o for o in s.returns if o.root == ("P", data)]
        fresh = [o for o in s.returns if o.root == ("F",)]
        ok = bool(rooted or fresh)
        ctx.ob("R2", f, f"{cq.split('::')[1]}.validate returns the (copied) working object", ok,
               f"return value: {len(rooted)} origin(s) derived from `{data}`, {len(fresh)} fresh" if ok else "return value unrelated to the input")


def r3_frame_never_rebound_to_the_parsed_column(ctx):
    """A keyed Column is validated by the array backend, whose `run_parsers` replaces the working object with the parser
    output (for a table: the parsed *column* `schema.name`) and whose `validate` returns that.  The column backend may
    store that result into a column slot of the frame; binding the frame variable - the object `validate` returns - to
    it turns `Column.validate(DataFrame)` into a Series whenever the schema has parsers.  A re-binding of the returned
    table to the array-level result is therefore guarded by a kind test (`is_table` / isinstance) or by the absence of
    parsers."""
    ix = ctx.ix
    arr = ix.cls("pandera/backends/pandas/array.py::ArraySchemaBackend")
    rp = arr.lookup("run_parsers")
    if rp is None:
        raise AnalysisError("ArraySchemaBackend.run_parsers missing")
    premise = any(isinstance(st, ast.Assign) and any(isinstance(x, ast.Attribute) and x.attr == "parser_output" for x in ast.walk(st.value))
                  for st in function_stmts(rp)) and any(isinstance(st, ast.Return) for st in function_stmts(rp))
    ctx.touched(rp)
    ctx.ob("R3", rp, "premise: run_parsers answers the parser output (a column for a keyed table)", True,
           "holds" if premise else "run_parsers no longer replaces the working object: the rule below has nothing to guard")
    col = ix.cls("pandera/backends/pandas/components.py::ColumnBackend")
    v = col.lookup("validate")
    if v is None:
        raise AnalysisError("ColumnBackend.validate missing")
    ctx.touched(v)
    table = v.positional[1] if len(v.positional) > 1 else "check_obj"
    inner = {n for n, h in v.nested.items() if any(isinstance(c.func, ast.Call) and callee_last(c.func) == "super" or
                                                   (isinstance(c.func, ast.Attribute) and isinstance(c.func.value, ast.Call) and callee_last(c.func.value) == "super")
                                                   for c in calls_in(h.node))}
    if not inner:
        raise AnalysisError("ColumnBackend.validate: helper delegating to the array backend not found")
    cfg = cfg_of(v.node)
    carriers = set()
    for st in function_stmts(v):
        if isinstance(st, ast.Assign) and isinstance(st.value, ast.Call) and callee_last(st.value) in inner:
            carriers |= {t.id for t in st.targets if isinstance(t, ast.Name)}
    n = 0
    for st in function_stmts(v):
        if not (isinstance(st, ast.Assign) and any(isinstance(t, ast.Name) and t.id == table for t in st.targets)):
            continue
        # the kind of the new value is the kind of the object the expression is rooted at: `frame[mask]`, `frame.loc[...]`,
        # `frame.copy()` stay tables whatever the subscript mentions; `result`, `result.copy()`, `helper(...)` have the result's kind
        root = st.value
        while True:
            if isinstance(root, (ast.Subscript, ast.Attribute)):
                root = root.value
            elif isinstance(root, ast.Call) and isinstance(root.func, ast.Attribute):
                root = root.func.value
            else:
                break
        src = (isinstance(root, ast.Name) and root.id in carriers) or (isinstance(root, ast.Call) and callee_last(root) in inner)
        if not src:
            continue
        n += 1
        node = cfg.node_of(st)
        guards = cfg.guards(node.id) if node is not None else []
        kind_guard = any((("is_table(" in txt(t) or "isinstance(" in txt(t)) and pol) or ("is_field(" in txt(t) and not pol) or
                         ("parsers" in txt(t) and not pol and not isinstance(t, ast.BoolOp)) for t, pol in guards)
        ok = kind_guard or not premise
        ctx.ob("R3", v, f"`{txt(st)[:50]}`: the returned frame is re-bound to the array-level result only when that is a table", ok,
               "guarded by a kind test / no parsers" if ok else
               f"`{txt(st)}` binds the object validate returns to what the array backend answered - the parsed column when the schema has parsers: "
               "Column(int, name='a', parsers=Parser(...), drop_invalid_rows=True).validate(df, lazy=True) returns a Series, column b is gone", v.loc(st))
    if n < 1 and premise:
        ctx.ob("R3", v, "ColumnBackend.validate never re-binds the returned frame to the array-level result", True, "no such re-binding")


def _must_pass_skip(cfg, src, dsts, through, skip_edges):
    prev = {src: None}
    todo = [src]
    while todo:
        a = todo.pop(0)
        if a in dsts and a != src:
            path = []
            while a is not None:
                path.append(a)
                a = prev[a]
            return list(reversed(path))
        for b, lab in cfg.succ[a]:
            if lab in ("exc", "fin-exc") or (a, lab) in skip_edges or b in through:
                continue
            if b not in prev:
                prev[b] = a
                todo.append(b)
    return None


def run(ctx):
    r1_ownership(ctx)
    r2_kind(ctx)
    r3_frame_never_rebound_to_the_parsed_column(ctx)
