"""C18 - configuration scoped and honoured; validation depth only removes checks.

Decided clauses (see DESIGN.md §5 C18): R1 env table (finite evaluation),
R2 config_context restores on both exits for every initial state / override
subset (finite evaluation), R3 scope decorators on every core check and their
agreement with the reason-code map, R4 validation_enabled gate on every public
validate entry, R5 polars default-depth table and its use."""

from __future__ import annotations

import ast
import itertools

from ..absval import Enum, Evaluator, Obj, Raised, Sym, Unknown, enum_members
from ..cfg import cfg_of
from ..index import AnalysisError, dotted, function_stmts, walk_no_nested
from ..roles import (api_classes, callable_list_loops, reason_codes_in,
                     schema_backend_classes, self_method)
from ..util import Expander, path_condition, callee_last, calls_in, guard_atoms, kw, txt, enclosing

EXPLANATION = (
    "Static analysis of pandera's source (ast, no execution of pandera). Decides structural clauses that are "
    "necessary for C18: (R1) the environment-variable parsing function evaluated over the finite input table "
    "{unset,'True','False'} x 3 boolean variables and {unset, each ValidationDepth name}; (R2) config_context "
    "evaluated abstractly for 3 initial states x 16 override subsets x {normal exit, exception at yield}: state "
    "after == state before, overrides visible inside, context object never aliases CONFIG; (R3) every core check "
    "referenced by a core_checks list (and every override in a subclass) carries @validate_scope with the scope "
    "the reason-code map assigns to the reason codes it emits; (R4) every path from a public validate entry to a "
    "backend validate call is gated by validation_enabled and the disabled branch returns the argument itself; "
    "(R5) get_validation_depth decision table and its use around every polars backend validate call; (R6) no backend function reads validation_depth by itself outside the @validate_scope machinery and the enumerated coercion-mode readers, so the verdict inside one scope does not depend on the depth. (R7) the polars coercion stages choose the same coercion mode (try_coerce vs lazy coerce) under DATA_ONLY and SCHEMA_AND_DATA - decision table evaluated over the ValidationDepth members. " 
    "It does NOT "
    "decide the verdict equalities over data (accept_SAD <=> accept_SO and accept_DO)."
    " (R8) in the pandas / polars schema backends a `raise SchemaError(reason_code=R)` whose R is mapped to the SCHEMA scope and that sits in a function without @validate_scope (a parser-pipeline step such as strict_filter_columns) is conditional on the validation depth; INVALID_COLUMN_NAME (a definition error) is the listed exception. (R9) every `add_schema` call site (the 'already validated' marker trusted by check_types and DataFrame[Model]) is behind the enabled gate: inside a schema backend or guarded by validation_enabled."
    ' (R10) a pandas backend `validate` attaches the validated marker (add_schema) only on paths whose condition depends on the validation depth - a reduced-depth run must not make later full-depth check_types calls skip validation; today the marker is attached at every depth (known finding).'
)
LEVEL_RULE = ("obligations are (rule, function, construct) triples enumerated from the current tree; distinct = "
              "distinct triples; every one is non-trivial in that it names a concrete construct of /repo")
FLOORS = {"R1": 13, "R2": 6, "R3": 12, "R4": 7, "R5": 8, "R6": 1}

CONFIG = "pandera/config.py"

SCOPE_EXCEPTIONS = {
    # (function short name suffix, reason code): why the scope may differ from the reason-code map
    ("pandera/backends/polars/components.py::ColumnBackend.check_nullable", "SERIES_CONTAINS_NULLS"):
        "polars: null detection needs collect(), docs/source/polars.md defines schema-level as what needs no collect",
}


def _evaluator(ix, env_vars):
    m = ix.module(CONFIG)
    enums = {n: enum_members(c.node) for n, c in m.classes.items()
             if any(dotted(b) in ("Enum", "enum.Enum") for b in c.node.bases)}
    fns = {n: f.node for n, f in m.functions.items()}

    def env_get(args, kwargs):
        if not args or not isinstance(args[0], str):
            return Unknown("env key")
        default = args[1] if len(args) > 1 else kwargs.get("default")
        return env_vars.get(args[0], default)

    ev = Evaluator({"os.environ.get": env_get, "os.getenv": env_get, "environ.get": env_get, "getenv": env_get},
                   enums, fns, {"os.environ": env_vars, "environ": env_vars})
    return ev, m, enums


def _dataclass_fields(cls_node):
    out = []
    for s in cls_node.body:
        if isinstance(s, ast.AnnAssign) and isinstance(s.target, ast.Name):
            out.append((s.target.id, s.value))
    return out


def _config_obj(ev, m, value_node):
    """Evaluate the expression initialising CONFIG into {field: value}."""
    pc = m.classes.get("PanderaConfig")
    if pc is None:
        raise AnalysisError("PanderaConfig class not found in pandera/config.py")
    fields = _dataclass_fields(pc.node)
    try:
        v = ev.eval(value_node, {})
    except Raised as r:
        return ("raised", r.what)
    if not isinstance(v, Obj) or v.cls != "PanderaConfig":
        raise AnalysisError(f"cannot evaluate CONFIG initialiser: {v!r}")
    out = {}
    for i, (name, default) in enumerate(fields):
        if name in v.fields:
            out[name] = v.fields[name]
        elif f"_{i}" in v.fields:
            out[name] = v.fields[f"_{i}"]
        else:
            out[name] = ev.eval(default, {}) if default is not None else Unknown("no default")
    return ("ok", out)


def r1_env_table(ctx):
    ix = ctx.ix
    m = ix.module(CONFIG)
    if "CONFIG" not in m.assigns:
        raise AnalysisError("pandera/config.py: global CONFIG not found")
    init = m.assigns["CONFIG"]
    fn_name = dotted(init.func) if isinstance(init, ast.Call) else None
    where = m.functions.get(fn_name) if fn_name else None
    func_label = where.qual if where else f"{CONFIG}::<module>"
    loc = where.loc() if where else f"{CONFIG}:{init.lineno}"
    bool_vars = {
        "validation_enabled": ("PANDERA_VALIDATION_ENABLED", True),
        "cache_dataframe": ("PANDERA_CACHE_DATAFRAME", False),
        "keep_cached_dataframe": ("PANDERA_KEEP_CACHED_DATAFRAME", False),
    }
    for field, (var, default) in bool_vars.items():
        for raw, want in ((None, default), ("True", True), ("False", False)):
            envv = {} if raw is None else {var: raw}
            ev, _, _ = _evaluator(ix, envv)
            st, res = _config_obj(ev, m, init)
            construct = f"{var}={'<unset>' if raw is None else raw} -> {field}"
            if st == "raised":
                ctx.ob("R1", func_label, construct, False, f"raises {res}; documented value {want}", loc)
                continue
            got = res.get(field)
            if isinstance(got, (Unknown, Sym)):
                raise AnalysisError(f"cannot evaluate {field} for {var}={raw}: {got!r}")
            ctx.ob("R1", func_label, construct, got is want or got == want and isinstance(got, bool),
                   f"evaluates to {got!r}, documented value is {want!r}", loc)
    ev, _, enums = _evaluator(ix, {})
    depth_members = enums.get("ValidationDepth")
    if not depth_members:
        raise AnalysisError("ValidationDepth enum not found")
    for raw in [None] + list(depth_members):
        envv = {} if raw is None else {"PANDERA_VALIDATION_DEPTH": depth_members[raw]}
        ev, _, _ = _evaluator(ix, envv)
        st, res = _config_obj(ev, m, init)
        want = None if raw is None else Enum("ValidationDepth", raw)
        construct = f"PANDERA_VALIDATION_DEPTH={'<unset>' if raw is None else depth_members[raw]} -> validation_depth"
        if st == "raised":
            ctx.ob("R1", func_label, construct, False, f"raises {res}", loc)
            continue
        got = res.get("validation_depth")
        if isinstance(got, (Unknown, Sym)):
            raise AnalysisError(f"cannot evaluate validation_depth for {raw}: {got!r}")
        ctx.ob("R1", func_label, construct, got == want, f"evaluates to {got!r}, documented value is {want!r}", loc)


def r2_config_context(ctx):
    ix = ctx.ix
    m = ix.module(CONFIG)
    f = m.functions.get("config_context")
    if f is None:
        raise AnalysisError("config_context not found")
    ctx.touched(f, *(m.functions[n] for n in ("reset_config_context", "get_config_context") if n in m.functions))
    params = [p for p in f.params]
    yields = [n for n in walk_no_nested(f.node) if isinstance(n, ast.Yield)]
    if len(yields) != 1:
        raise AnalysisError(f"config_context has {len(yields)} yield expressions")
    field_names = [n for n, _ in _dataclass_fields(m.classes["PanderaConfig"].node)]
    D = lambda n: Enum("ValidationDepth", n)
    initial_states = {
        "defaults": {"validation_enabled": True, "validation_depth": None, "cache_dataframe": False,
                     "keep_cached_dataframe": False},
        "all-non-default": {"validation_enabled": False, "validation_depth": D("DATA_ONLY"), "cache_dataframe": True,
                            "keep_cached_dataframe": True},
        "schema-only": {"validation_enabled": True, "validation_depth": D("SCHEMA_ONLY"), "cache_dataframe": False,
                        "keep_cached_dataframe": True},
    }
    other = {"validation_enabled": lambda v: not v,
             "validation_depth": lambda v: D("SCHEMA_AND_DATA") if v != D("SCHEMA_AND_DATA") else D("DATA_ONLY"),
             "cache_dataframe": lambda v: not v, "keep_cached_dataframe": lambda v: not v}
    n_eval = 0
    for sname, s0 in initial_states.items():
        for exit_kind in ("normal", "exception"):
            bad = []
            for r in range(len(params) + 1):
                for subset in itertools.combinations(params, r):
                    ev, _, _ = _evaluator(ix, {})
                    glob_cfg = Obj("PanderaConfig", dict(initial_states["defaults"]))
                    ctx_cfg = Obj("PanderaConfig", dict(s0))
                    ev.globals["CONFIG"] = glob_cfg
                    ev.globals["_CONTEXT_CONFIG"] = ctx_cfg
                    kwargs = {p: (other[p](s0[p]) if p in other else Unknown("param")) for p in subset}
                    for p in params:
                        kwargs.setdefault(p, None)
                    seen_inside = {}

                    def hook(env, seen_inside=seen_inside, ev=ev):
                        cur = ev.globals["_CONTEXT_CONFIG"]
                        seen_inside.update(cur.fields if isinstance(cur, Obj) else {})
                        return "raise" if exit_kind == "exception" else None

                    ev.yield_hook = hook
                    try:
                        res = ev.call_function(f.node, [], kwargs)
                    except Raised:
                        res = None
                    n_eval += 1
                    if isinstance(res, Unknown):
                        raise AnalysisError(f"config_context not evaluable: {res!r}")
                    after = ev.globals["_CONTEXT_CONFIG"]
                    if not isinstance(after, Obj):
                        raise AnalysisError(f"context config became {after!r}")
                    if any(isinstance(v, (Unknown, Sym)) for v in after.fields.values()):
                        raise AnalysisError(f"context config field not evaluable: {after!r}")
                    if {k: after.fields.get(k) for k in field_names} != s0:
                        bad.append(f"overrides={list(subset)}: after={after.fields} != before={s0}")
                    elif after is ev.globals["CONFIG"]:
                        bad.append(f"overrides={list(subset)}: context config aliases the global CONFIG after exit")
                    elif ev.globals["CONFIG"].fields != initial_states["defaults"]:
                        bad.append(f"overrides={list(subset)}: global CONFIG modified: {ev.globals['CONFIG'].fields}")
                    else:
                        for p in subset:
                            if p in other and seen_inside.get(p) != kwargs[p]:
                                bad.append(f"override {p}={kwargs[p]!r} not visible inside the context "
                                           f"(saw {seen_inside.get(p)!r})")
                        for p in field_names:
                            if p not in subset and seen_inside.get(p) != s0[p]:
                                bad.append(f"field {p} changed inside context without override: {seen_inside.get(p)!r}")
            ctx.ob("R2", f, f"initial={sname} exit={exit_kind}: all 2^{len(params)} override subsets restore",
                   not bad, "; ".join(bad[:3]) if bad else "state after == state before; overrides honoured inside")
    ctx.stats["R2_evaluations"] = n_eval
    # reset_config_context() (no argument) followed by a context: the global CONFIG must stay untouched
    rf = m.functions.get("reset_config_context")
    if rf is None:
        raise AnalysisError("reset_config_context missing")
    ev, _, _ = _evaluator(ix, {})
    glob_cfg = Obj("PanderaConfig", dict(initial_states["defaults"]))
    ev.globals["CONFIG"] = glob_cfg
    ev.globals["_CONTEXT_CONFIG"] = Obj("PanderaConfig", dict(initial_states["all-non-default"]))
    try:
        ev.call_function(rf.node, [], {})
        ev.yield_hook = lambda env: None
        ev.call_function(f.node, [], {p: (other[p](initial_states["defaults"][p]) if p in other else None) for p in params})
        cur = ev.globals["_CONTEXT_CONFIG"]
        ok = isinstance(cur, Obj) and cur is not ev.globals["CONFIG"] and ev.globals["CONFIG"].fields == initial_states["defaults"] \
            and cur.fields == initial_states["defaults"]
        detail = "context reset to a copy of CONFIG; a following config_context leaves CONFIG untouched" if ok else \
            f"after reset_config_context() the context object {'aliases' if cur is ev.globals['CONFIG'] else 'differs from'} CONFIG " \
            f"(CONFIG={ev.globals['CONFIG'].fields}, context={getattr(cur, 'fields', cur)})"
    except Raised as r:
        ok, detail = False, f"raises {r.what}"
    ctx.ob("R2", rf, "reset_config_context() rebinds a copy of the global configuration", ok, detail)


def _scope_of(func):
    for d in func.decorators:
        if isinstance(d, ast.Call) and callee_last(d) == "validate_scope":
            v = kw(d, "scope") or (d.args[0] if d.args else None)
            ch = dotted(v) if v is not None else None
            if ch:
                return ch.split(".")[-1]
            return "?"
    return None


def _scope_map(ix):
    m = ix.module("pandera/validation_depth.py")
    node = m.assigns.get("VALIDATION_DEPTH_ERROR_CODE_MAP")
    if not isinstance(node, ast.Dict):
        raise AnalysisError("VALIDATION_DEPTH_ERROR_CODE_MAP literal not found")
    out = {}
    for k, v in zip(node.keys, node.values):
        kd, vd = dotted(k), dotted(v)
        if kd and vd:
            out[kd.split(".")[-1]] = vd.split(".")[-1]
    if len(out) < 15:
        raise AnalysisError("reason-code map too small")
    return out


def _own_verdict_reasons(ix, cls, func):
    """Reason codes of CoreCheckResult objects this core check builds itself
    (results that merely wrap a caught component error via schema_error= are
    the component's verdict, not this function's)."""
    reasons = set()
    own = False
    for c in calls_in(func.node):
        if callee_last(c) == "CoreCheckResult":
            if kw(c, "schema_error") is not None:
                continue
            own = True
            rc = kw(c, "reason_code")
            if rc is not None:
                reasons.update(reason_codes_in(rc))
        elif callee_last(c) == "run_check" and isinstance(c.func, ast.Attribute):
            own = True
            callee = cls.lookup("run_check")
            if callee is not None:
                for cc in calls_in(callee.node):
                    if callee_last(cc) == "CoreCheckResult":
                        rc = kw(cc, "reason_code")
                        if rc is not None:
                            reasons.update(reason_codes_in(rc))
    return own, reasons


def r3_scopes(ctx):
    ix = ctx.ix
    smap = _scope_map(ix)
    which = ("pandas", "polars") if ctx.tier == "quick" else ("pandas", "polars")
    seen = set()
    for bc in schema_backend_classes(ix, which):
        for f in [x for lst in bc.methods.values() for x in lst]:
            for loop, fns, lname in callable_list_loops(f):
                # only check pipelines (results inspected for .passed), not parser pipelines
                if not any(isinstance(n, ast.Attribute) and n.attr == "passed" for b in loop.body for n in ast.walk(b)):
                    continue
                ctx.touched(f)
                for cls in [bc] + bc.all_subclasses():
                    for e in fns:
                        target = self_method(ix, cls, e)
                        if target is None:
                            raise AnalysisError(f"{f.qual}: cannot resolve core check {txt(e)}")
                        base_target = self_method(ix, bc, e)
                        key = (target.qual, base_target.qual)
                        if key in seen:
                            continue
                        seen.add(key)
                        own, reasons = _own_verdict_reasons(ix, cls, target)
                        scope = _scope_of(target)
                        construct = f"core check {txt(e)} of {lname} in {f.short} resolved for {cls.name}"
                        if not own:
                            ctx.ob("R3", target, construct, True,
                                   "delegating core check: only wraps component errors (schema_error=), scoped by the component")
                            continue
                        if scope is None:
                            ctx.ob("R3", target, construct, False,
                                   "core check builds its own verdict but carries no @validate_scope: it runs at "
                                   "every validation depth" + (f" (overrides {base_target.short} scope "
                                                               f"{_scope_of(base_target)})" if base_target is not target else ""))
                            continue
                        if base_target is not target and _scope_of(base_target) not in (None, scope):
                            ctx.ob("R3", target, construct, False,
                                   f"override has scope {scope}, overridden {base_target.short} has {_scope_of(base_target)}")
                            continue
                        bad = []
                        for r in sorted(reasons):
                            want = smap.get(r)
                            if want is None or want == scope:
                                continue
                            if (target.qual, r) in SCOPE_EXCEPTIONS:
                                ctx.notes.append(f"R3 documented exception {target.short}/{r}: {SCOPE_EXCEPTIONS[(target.qual, r)]}")
                                continue
                            bad.append(f"{r}: decorator {scope}, map {want}")
                        ctx.ob("R3", target, construct, not bad,
                               "; ".join(bad) if bad else f"@validate_scope({scope}) agrees with map for {sorted(reasons)}")


def _is_backend_validate_call(c: ast.Call) -> bool:
    return (isinstance(c.func, ast.Attribute) and c.func.attr == "validate"
            and isinstance(c.func.value, ast.Call) and callee_last(c.func.value) == "get_backend")


def _enabled_gate(f):
    """(gated backend-call nodes info) for one function: for each call site,
    whether guards contain validation_enabled positively."""
    cfg = cfg_of(f.node)
    res = {}
    for s in function_stmts(f):
        n = cfg.node_of(s)
        if n is None:
            continue
        node_expr = s if n.kind == "stmt" else None
        if node_expr is None:
            continue
        for c in calls_in(s):
            atoms = guard_atoms(cfg, n.id)
            gated = any(pol and any(isinstance(x, ast.Attribute) and x.attr == "validation_enabled" for x in ast.walk(e))
                        for e, pol in atoms)
            res[id(c)] = (c, gated, n)
    return cfg, res


def _disabled_returns_arg(f):
    """The branch taken when validation is disabled returns the data parameter unchanged."""
    cfg = cfg_of(f.node)
    rd = None
    for s in function_stmts(f):
        if not isinstance(s, ast.Return) or s.value is None:
            continue
        n = cfg.node_of(s)
        atoms = guard_atoms(cfg, n.id)
        if any((not pol) and any(isinstance(x, ast.Attribute) and x.attr == "validation_enabled" for x in ast.walk(e))
               for e, pol in atoms):
            if not isinstance(s.value, ast.Name):
                return False, txt(s)
            if rd is None:
                rd = cfg.reaching_defs()
            defs = rd[n.id].get(s.value.id, set())
            data_param = f.positional[1] if len(f.positional) > 1 else None
            if s.value.id == data_param and defs == {cfg.entry.id}:
                return True, txt(s)
            return False, txt(s)
    return None, ""


def r4_enabled_gate(ctx):
    ix = ctx.ix
    done = set()
    for cls in api_classes(ix):
        for entry_name in ("validate", "__call__"):
            entry = cls.lookup(entry_name)
            if entry is None:
                raise AnalysisError(f"{cls.qual} has no {entry_name}")
            # DFS over API-internal delegation
            stack = [(entry, False, [entry.short])]
            visited = set()
            while stack:
                f, gated_in, path = stack.pop()
                if (f.qual, gated_in) in visited:
                    continue
                visited.add((f.qual, gated_in))
                ctx.touched(f)
                cfg, sites = _enabled_gate(f)
                r, rt = _disabled_returns_arg(f)
                if r is not None and (f.qual, "ret") not in done:
                    done.add((f.qual, "ret"))
                    ctx.ob("R4", f, f"{f.short}: disabled validation returns the argument itself", r,
                           f"`{rt}` returns the object as passed" if r else f"`{rt}` does not return the caller's object untouched", f.loc())
                for c, gated_here, n in sites.values():
                    g = gated_in or gated_here
                    if _is_backend_validate_call(c):
                        key = (cls.qual, entry_name, f.qual, c.lineno)
                        if key in done:
                            continue
                        done.add(key)
                        ok = g
                        detail = "gated by validation_enabled on the path " + " -> ".join(path)
                        if ok and gated_here:
                            r, rt = _disabled_returns_arg(f)
                            if r is False:
                                ok, detail = False, f"disabled branch does not return the argument untouched: {rt}"
                        if not g:
                            detail = ("backend validate reached without testing validation_enabled on the path "
                                      + " -> ".join(path))
                        ctx.ob("R4", f, f"{cls.name}.{entry_name}: backend validate call", ok, detail, f.loc(c))
                        continue
                    # delegation to another method of the same schema object
                    tgt = None
                    fn = c.func
                    if isinstance(fn, ast.Attribute) and isinstance(fn.value, ast.Name) and fn.value.id == "self":
                        tgt = cls.lookup(fn.attr)
                    elif (isinstance(fn, ast.Attribute) and isinstance(fn.value, ast.Call)
                          and isinstance(fn.value.func, ast.Name) and fn.value.func.id == "super" and f.cls is not None):
                        mro = cls.mro()
                        if f.cls in mro:
                            for k in mro[mro.index(f.cls) + 1:]:
                                if k.method(fn.attr):
                                    tgt = k.method(fn.attr)
                                    break
                    if tgt is not None and tgt.name in ("validate", "_validate", "__call__"):
                        stack.append((tgt, g, path + [tgt.short]))
                    # method passed as a callable (dask map_partitions(self._validate / super().validate))
                    for a in list(c.args) + [k.value for k in c.keywords]:
                        if isinstance(a, ast.Attribute) and a.attr in ("validate", "_validate"):
                            t2 = None
                            if isinstance(a.value, ast.Name) and a.value.id == "self":
                                t2 = cls.lookup(a.attr)
                            elif isinstance(a.value, ast.Call) and isinstance(a.value.func, ast.Name) and a.value.func.id == "super":
                                mro = cls.mro()
                                if f.cls in mro:
                                    for k in mro[mro.index(f.cls) + 1:]:
                                        if k.method(a.attr):
                                            t2 = k.method(a.attr)
                                            break
                            if t2 is not None:
                                stack.append((t2, g, path + [t2.short]))


def r5_polars_depth(ctx):
    ix = ctx.ix
    m = ix.module("pandera/api/polars/utils.py")
    f = m.functions.get("get_validation_depth")
    if f is None:
        raise AnalysisError("get_validation_depth not found")
    ctx.touched(f)
    cm = ix.module(CONFIG)
    enums = {n: enum_members(c.node) for n, c in cm.classes.items()
             if any(dotted(b) in ("Enum", "enum.Enum") for b in c.node.bases)}
    D = lambda n: None if n is None else Enum("ValidationDepth", n)
    depths = [None, "SCHEMA_ONLY", "DATA_ONLY", "SCHEMA_AND_DATA"]
    for kind in ("DataFrame", "LazyFrame"):
        for cd in depths:
            for gd in depths:
                want = D(cd) if cd else (D(gd) if gd else D("SCHEMA_AND_DATA" if kind == "DataFrame" else "SCHEMA_ONLY"))
                ev = Evaluator({
                    "get_config_global": lambda a, k, gd=gd: Obj("PanderaConfig", {"validation_depth": D(gd)}),
                    "get_config_context": lambda a, k, cd=cd: Obj("PanderaConfig", {
                        "validation_depth": D(cd) if (cd or k.get("validation_depth_default", "x") is None) else D("SCHEMA_AND_DATA")}),
                }, enums, {})
                try:
                    got = ev.call_function(f.node, [Obj(f"pl.{kind}", {})], {})
                except Raised as r:
                    got = f"raises {r.what}"
                if isinstance(got, (Unknown, Sym)):
                    raise AnalysisError(f"get_validation_depth not evaluable: {got!r}")
                ctx.ob("R5", f, f"kind={kind} context_depth={cd} global_depth={gd}", got == want,
                       f"evaluates to {got!r}, documented {want!r}")
    # use: every polars API validate wraps its backend call in config_context(validation_depth=get_validation_depth(<arg as passed>))
    for cls in api_classes(ix, ("polars",)):
        f = cls.lookup("validate")
        ctx.touched(f)
        cfg = cfg_of(f.node)
        rd = cfg.reaching_defs()
        data_param = f.positional[1]
        sites = [c for c in calls_in(f.node) if _is_backend_validate_call(c)]
        if not sites:
            raise AnalysisError(f"{f.qual}: no backend validate call")
        for c in sites:
            w = enclosing(c, (ast.With,))
            ok, detail = False, "backend validate call is not inside `with config_context(validation_depth=...)`"
            while w is not None and not ok:
                for it in w.items:
                    ce = it.context_expr
                    if isinstance(ce, ast.Call) and callee_last(ce) == "config_context":
                        dv = kw(ce, "validation_depth")
                        if dv is None:
                            detail = "config_context without validation_depth"
                            continue
                        src = dv
                        wn = cfg.node_of(w)
                        if isinstance(dv, ast.Name):  # follow one local assignment
                            defs = rd[wn.id].get(dv.id, set())
                            vals = [cfg.nodes[d].ast.value for d in defs
                                    if cfg.nodes[d].kind == "stmt" and isinstance(cfg.nodes[d].ast, ast.Assign)]
                            if len(vals) == 1:
                                src = vals[0]
                                wn = cfg.nodes[next(iter(defs))]
                        if isinstance(src, ast.Call) and callee_last(src) == "get_validation_depth" and src.args \
                                and isinstance(src.args[0], ast.Name):
                            a = src.args[0].id
                            defs = rd[wn.id].get(a, set())
                            if a == data_param and defs == {cfg.entry.id}:
                                ok, detail = True, "depth = get_validation_depth(<object as passed by the caller>)"
                            else:
                                detail = (f"get_validation_depth({a}) sees a converted object (definitions at lines "
                                          f"{sorted(cfg.nodes[d].lineno for d in defs)}), not the caller's container kind")
                        else:
                            detail = (f"validation depth is `{txt(src)}`, not get_validation_depth(<argument>): the "
                                      "LazyFrame/DataFrame default is not applied")
                w = enclosing(w, (ast.With,))
            ctx.ob("R5", f, f"{cls.name}.validate: depth around backend validate", ok, detail, f.loc(c))


DEPTH_READERS_OK = ("pandera/config.py", "pandera/validation_depth.py", "pandera/api/base/error_handler.py", "pandera/api/polars/utils.py")


def r6_depth_readers(ctx):
    """The validation depth partitions the checks into schema-level and data-level ones through @validate_scope and
    nothing else: a backend function that reads `validation_depth` by itself makes its verdict depend on the depth
    *inside* one scope, so SCHEMA_AND_DATA no longer accepts exactly when SCHEMA_ONLY and DATA_ONLY both accept."""
    ix = ctx.ix
    allowed = 0
    for m in ix.modules.values():
        if "pyspark" in m.path or not m.path.startswith("pandera/"):
            continue
        for n in ast.walk(m.tree):
            if isinstance(n, ast.Attribute) and n.attr == "validation_depth" and isinstance(n.ctx, ast.Load):
                if m.path in DEPTH_READERS_OK:
                    allowed += 1
                    continue
                f = None
                for g in m.all_functions:
                    if g.node.lineno <= n.lineno <= getattr(g.node, "end_lineno", g.node.lineno):
                        f = g if f is None or g.node.lineno >= f.node.lineno else f
                is_check = f is not None and (f.name.startswith(("check_", "run_check")) or f.name in ("validate", "run_schema_component_checks")
                                              or any("validate_scope" in d for d in f.decorator_names()))
                if not is_check:
                    ctx.ob("R6", f if f is not None else m.path, f"`{txt(n)[:70]}` read in a parser stage", True,
                           "not a check: the polars coercion stage selects try_coerce (collects data) vs coerce (lazy) by depth, as documented",
                           f"{m.path}:{n.lineno}")
                    continue
                ctx.ob("R6", f if f is not None else m.path, f"`{txt(n)}` read outside the depth machinery", False,
                       f"{m.path}:{n.lineno} reads the validation depth directly: only validate_scope (which skips whole checks), the error "
                       "handler (which classifies errors) and the polars default-depth helper may consult it; a check that changes what it "
                       "inspects with the depth breaks accept_SAD <=> accept_SO and accept_DO", f"{m.path}:{n.lineno}")
    ctx.ob("R6", "pandera", "validation depth is read only by the depth machinery", True,
           f"{allowed} reads, all in {DEPTH_READERS_OK}")
    if allowed < 5:
        raise AnalysisError(f"only {allowed} reads of validation_depth found in the depth machinery: the rule no longer sees its subject")


def _depth_cond(e, member):
    """value of a condition over `<x>.validation_depth` when the depth is ValidationDepth.<member>; None = not decidable"""
    if isinstance(e, ast.BoolOp):
        vals = [_depth_cond(v, member) for v in e.values]
        if isinstance(e.op, ast.And):
            return False if any(v is False for v in vals) else (None if any(v is None for v in vals) else True)
        return True if any(v is True for v in vals) else (None if any(v is None for v in vals) else False)
    if isinstance(e, ast.UnaryOp) and isinstance(e.op, ast.Not):
        v = _depth_cond(e.operand, member)
        return None if v is None else (not v)
    if isinstance(e, ast.Compare) and len(e.ops) == 1:
        l, r, op = e.left, e.comparators[0], e.ops[0]

        def is_depth(x):
            return isinstance(x, ast.Attribute) and x.attr == "validation_depth"

        def members(x):
            if isinstance(x, ast.Attribute) and txt(x.value).endswith("ValidationDepth"):
                return [x.attr]
            if isinstance(x, (ast.Tuple, ast.List, ast.Set)):
                out = []
                for el in x.elts:
                    mm = members(el)
                    if mm is None:
                        return None
                    out += mm
                return out
            if isinstance(x, ast.Constant) and x.value is None:
                return ["<None>"]
            return None
        if is_depth(r) and not is_depth(l):
            l, r = r, l
        if is_depth(l):
            ms = members(r)
            if ms is None:
                return None
            if isinstance(op, (ast.Eq, ast.Is)):
                return member in ms
            if isinstance(op, (ast.NotEq, ast.IsNot)):
                return member not in ms
            if isinstance(op, ast.In):
                return member in ms
            if isinstance(op, ast.NotIn):
                return member not in ms
    return None


def r7_coercion_mode(ctx):
    """The polars coercion stages pick `try_coerce` (evaluates the data, reports uncoercible values) or `coerce` (a lazy
    cast) by the validation depth.  Both depths that validate data - DATA_ONLY and SCHEMA_AND_DATA - must pick the same
    one: otherwise an uncoercible value is a failure under SCHEMA_AND_DATA and invisible under DATA_ONLY, and
    SCHEMA_AND_DATA no longer accepts exactly when SCHEMA_ONLY and DATA_ONLY both accept."""
    from ..util import assignment_leaves
    ix = ctx.ix
    n = 0
    for m in ix.modules.values():
        if not m.path.startswith("pandera/backends/polars/"):
            continue
        for f in m.all_functions:
            if not any(isinstance(x, ast.Attribute) and x.attr == "validation_depth" for x in ast.walk(f.node)):
                continue
            names = {t.id for st in walk_no_nested(f.node) if isinstance(st, (ast.Assign, ast.AnnAssign)) and st.value is not None
                     for t in (st.targets if isinstance(st, ast.Assign) else [st.target]) if isinstance(t, ast.Name)
                     and any((isinstance(x, ast.Constant) and x.value in ("try_coerce", "coerce")) or (isinstance(x, ast.Attribute) and x.attr in ("try_coerce", "coerce"))
                             for x in ast.walk(st.value))}
            for name in sorted(names):
                leaves = assignment_leaves(f.node, name)
                if len(leaves) < 2:
                    continue
                n += 1
                picks = {}
                for member in ("SCHEMA_ONLY", "DATA_ONLY", "SCHEMA_AND_DATA"):
                    sel = []
                    for conds, val in leaves:
                        ok = True
                        for ctext, pol in conds:
                            v = _depth_cond(ast.parse(ctext, mode="eval").body, member)
                            if v is None or v != pol:
                                ok = v is None and ok and None
                                if v is not None:
                                    ok = False
                                    break
                        if ok is not False:
                            sel.append("try_coerce" if "try_coerce" in val else "coerce")
                    picks[member] = sorted(set(sel))
                same = picks["DATA_ONLY"] == picks["SCHEMA_AND_DATA"] and len(picks["DATA_ONLY"]) == 1
                ctx.ob("R7", f, f"{f.short}: `{name}` is the same coercion mode under DATA_ONLY and SCHEMA_AND_DATA", same,
                       f"{picks}" if same else
                       f"{picks}: the two depths that validate data coerce differently - an uncoercible value is reported under one and never "
                       "evaluated under the other, so accept_SAD <=> accept_SO and accept_DO fails", f.loc(f.node))
    ctx.stats["coercion_mode_decisions"] = n
    if n < 2:
        raise AnalysisError(f"polars coercion-mode decisions: expected 2 (container helper, column backend), found {n}")


RAISE_SCOPE_EXCEPTIONS = {
    "INVALID_COLUMN_NAME": "a definition error of the schema (Column without a name, regex that matches nothing), raised whatever the data and the depth",
}


def r8_schema_level_raises_are_depth_scoped(ctx):
    """DATA_ONLY "does not validate the schema" (docs/source/error_report.md): the verdict is that of the data-level part.
    Core *checks* get their scope from `@validate_scope` (R3); the steps of the parser pipeline (`strict_filter_columns`,
    ...) are plain methods and run at every depth - a `raise SchemaError(reason_code=R)` in them, with R mapped to the
    SCHEMA scope by VALIDATION_DEPTH_ERROR_CODE_MAP, has to be conditional on the validation depth.  Otherwise DATA_ONLY
    rejects a frame whose only fault is an extra / out-of-order column, and in lazy mode the error handler, which drops
    out-of-scope reason codes, raises SchemaErrors with an empty report."""
    ix = ctx.ix
    smap = _scope_map(ix)
    n = 0
    for bc in schema_backend_classes(ix, ("pandas", "polars")):
        for f in [x for lst in bc.methods.values() for x in lst]:
            if any("validate_scope" in txt(d) for d in f.node.decorator_list):
                continue
            raises = []
            for st in function_stmts(f):
                if isinstance(st, ast.Raise) and isinstance(st.exc, ast.Call) and callee_last(st.exc) == "SchemaError":
                    r = kw(st.exc, "reason_code")
                    code = txt(r).split(".")[-1] if r is not None else None
                    if code and smap.get(code) == "SCHEMA" and code not in RAISE_SCOPE_EXCEPTIONS:
                        raises.append((st, code))
            if not raises:
                continue
            ctx.touched(f)
            cfg = cfg_of(f.node)
            ex = Expander(f.node)
            for st, code in raises:
                n += 1
                node = cfg.node_of(st)
                # the condition under which the raise is reached must *depend* on the depth (atoms read through local
                # definitions; an earlier depth-guarded early exit does not make this raise depth-conditional)
                try:
                    pc = path_condition(cfg, node.id, keep=lambda t, nn: "validation_depth" in t or "ValidationDepth" in t, expand=ex) \
                        if node is not None else ((), frozenset())
                except ValueError:
                    pc = ((), frozenset())
                depth_guard = bool(pc[0])
                ctx.ob("R8", f, f"{f.short}: `raise SchemaError(reason_code={code})` (schema scope) is conditional on the validation depth", depth_guard,
                       "guarded by the depth" if depth_guard else
                       f"{code} is raised at every depth by a step of the parser pipeline: under DATA_ONLY DataFrameSchema({{'a': Column(int)}}, strict=True) rejects "
                       "a frame with an extra column although every data-level constraint holds, and with lazy=True the SchemaErrors report is empty", f.loc(st))
    if n < 2:
        raise AnalysisError(f"schema-scope raises outside validate_scope found: {n}")


def r9_nothing_marked_validated_while_disabled(ctx):
    """With validation disabled `validate` returns its argument untouched - also unmarked: `<obj>.pandera.add_schema(S)`
    is the "already validated against S" marker that `check_types` and `DataFrame[Model]` trust to skip validation later,
    after the configuration was restored.  Every call site of `add_schema` is therefore behind the enabled gate: inside a
    schema backend (reached only through the gated API entry points, R4) or in a function where a `validation_enabled`
    test guards it.  Otherwise an object built while validation is off stays exempt from validation for good."""
    ix = ctx.ix
    n = 0
    for m in ix.modules.values():
        if not m.path.startswith("pandera/") or "/pyspark" in m.path or m.path.startswith("pandera/accessors/"):
            continue
        for f in m.all_functions:
            sites = [c for c in calls_in(f.node) if callee_last(c) == "add_schema" and isinstance(c.func, ast.Attribute)]
            if not sites:
                continue
            cfg = cfg_of(f.node)
            for c in sites:
                n += 1
                ctx.touched(f)
                in_backend = "/backends/" in m.path
                st = c
                while not isinstance(st, ast.stmt):
                    st = st._parent
                node = cfg.node_of(st)
                gated = any("validation_enabled" in txt(t) for t, _ in (cfg.guards(node.id) if node is not None else []))
                ok = in_backend or gated
                ctx.ob("R9", f, f"{f.short}: `{txt(c)[:50]}` is behind the enabled gate", ok,
                       ("schema backend: reached through the gated entry points (R4)" if in_backend else "guarded by validation_enabled") if ok else
                       f"`{txt(c)}` marks the object as validated although `validate` is a no-op while validation is disabled: DataFrame[Model]({{'a': [-1]}}) built under "
                       "config_context(validation_enabled=False) passes every later @check_types call unvalidated", f.loc(c))
    if n < 5:
        raise AnalysisError(f"add_schema call sites found: {n}")


def r10_validated_marker_means_full_depth(ctx):
    """`<obj>.pandera.add_schema(S)` marks an object as "validated against S"; `check_types` and `DataFrame[Model]` skip
    validation for a marked object whatever configuration is in force *then*.  A validation run at a reduced depth checks
    only part of S, so the marker may be attached by a backend `validate` only when the depth in force is the full one -
    otherwise the effect of `config_context(validation_depth=SCHEMA_ONLY)` outlives the context: a frame validated inside
    it passes a later full-depth `@check_types` call although it violates a data-level check."""
    ix = ctx.ix
    n = 0
    for bc in schema_backend_classes(ix, ("pandas",)):
        for f in bc.methods.get("validate", []):
            sites = [c for c in calls_in(f.node) if callee_last(c) == "add_schema" and isinstance(c.func, ast.Attribute)]
            if not sites:
                continue
            cfg = cfg_of(f.node)
            ex = Expander(f.node)
            for c in sites:
                n += 1
                ctx.touched(f)
                st = c
                while not isinstance(st, ast.stmt):
                    st = st._parent
                node = cfg.node_of(st)
                try:
                    pc = path_condition(cfg, node.id, keep=lambda t, nn: "validation_depth" in t or "ValidationDepth" in t, expand=ex) if node is not None else ((), frozenset())
                except ValueError:
                    pc = ((), frozenset())
                ok = bool(pc[0])
                ctx.ob("R10", f, f"{f.short}: the validated marker is attached only at full validation depth", ok,
                       "conditional on the depth" if ok else
                       f"`{txt(c)[:50]}` marks the object at every depth: with config_context(validation_depth=SCHEMA_ONLY): marked = Model.validate(raw); a later "
                       "@check_types call at SCHEMA_AND_DATA skips validation of `marked` although Field(gt=0) is violated", f.loc(c))
    if n < 1:
        raise AnalysisError("pandas backends: no validate attaches the validated marker")


def run(ctx):
    r1_env_table(ctx)
    r2_config_context(ctx)
    r3_scopes(ctx)
    r4_enabled_gate(ctx)
    r5_polars_depth(ctx)
    r6_depth_readers(ctx)
    r7_coercion_mode(ctx)
    r8_schema_level_raises_are_depth_scoped(ctx)
    r9_nothing_marked_validated_while_disabled(ctx)
    r10_validated_marker_means_full_depth(ctx)
    ctx.assume("os.environ is read only through os.environ.get/os.getenv/os.environ[...] inside pandera/config.py")
    ctx.assume("validate_scope implements skip-by-depth as written (its body is covered by R3's decorator lookup, not re-proved)")
