"""C15 - schema transformations mirror dataframe transformations."""

from __future__ import annotations

import ast

from ..effprops import consistent_flavour, dedupe, engine, site_loc
from ..index import AnalysisError, function_stmts, walk_no_nested
from ..util import callee_last, calls_in, kw, txt
from .c05 import SCHEMA_CLASSES, TRANSFORMS
from .c12 import _dict_keys, _returned_dicts

EXPLANATION = (
    "Static analysis of the schema transformation methods (E5 effects + table extraction; nothing executed). (R1) "
    "add_columns, remove_columns, update_column(s), rename_columns, select_columns, set_index, reset_index, "
    "update_checks and set_checks have no write effect on their receiver (they work on a deepcopy / a non-aliasing "
    "copy); (R2) `Column.properties` (pandas and polars), from which update_column(s) rebuild columns, has a key for "
    "every Column constructor parameter, each read from the attribute of the same name; (R3) the component "
    "constructors called by set_index / reset_index / MultiIndex.__init__ forward every attribute that the source "
    "component has and the target constructor accepts; (R4) every explicit raise in the transformation methods is "
    "SchemaInitError or ValueError; (R3 also reads **splat forwarding: a comprehension over Column.properties may "
    "exclude keys by name only, never by the truthiness of the value); (R5) no transformation re-keys a column by "
    "pop-and-insert (which moves it to the end of the mapping and breaks column order / the rename-back law); (R6) update_column(s) apply the caller's overrides unfiltered (None removes a property); (R7) add_columns admits the new columns through the schema constructor so that invalid requests raise. (R8) definite assignment: no function of the schema container / component API modules reads a local that a branch-only path from its entry leaves unassigned (CFG may-analysis, optimistic about try bodies and loop bodies, correlated guards pruned) - an UnboundLocalError there would escape the transformation. " 
    " (R9) set_name stores the name only (the polars column may switch the regex flag on for an anchored pattern, never clear it); (R10) the schema API modules decide `unnamed` by `name is None` only - no truthiness test or `name or i` fallback (names '' / 0 are legal). " 
    " (R11) rename_columns passes the names listed in `unique` through the rename map as well. " 
    " (R12) no transforming method returns the receiver itself on any path. " 
    "NOT decided: that the transformed schema accepts exactly the transformed "
    "frames; inverse laws on values."
    ' (R13) a transformation that re-keys the columns mapping with keys computed from a caller-supplied mapping (rename_columns) raises, before the comprehension, under a test for repeated values of that mapping - otherwise two columns given one new name collapse silently.'
    ' (R14) no transformation method turns a caller-supplied parameter into a sequence through set(...) (the order of the labels would be their hash order, which changes between interpreter runs).'
    ' (R15) no transformation method applies an inherited column transformation (remove_columns, ...) to the index object: a MultiIndex keeps its levels in `.indexes` as well, which such a call leaves stale; reset_index re-builds the index from the levels that stay and hands a single remaining level on as it is (R3 accepts that form).'
)
LEVEL_RULE = "one obligation per (method) / (constructor parameter) / (constructor call, attribute) / raise"
FLOORS = {"R1": 10, "R2": 28, "R3": 20, "R4": 6, "R5": 10, "R6": 2, "R7": 1, "R8": 1, "R9": 2, "R10": 1, "R11": 1, "R12": 8}

COLUMN_CLASSES = ["pandera/api/pandas/components.py::Column", "pandera/api/polars/components.py::Column"]
# attributes that a conversion between Column and Index legitimately sets itself / cannot carry over
NOT_CARRIED = {"name": "set explicitly by the conversion", "required": "columns only", "regex": "columns only"}


def _ctor_params(cls):
    params = {}
    for k in cls.mro():
        g = k.method("__init__")
        if g is None:
            continue
        for p in g.params[1:]:
            if p not in params and p not in ("column_kwargs", "kwargs"):
                params[p] = g
        if g.node.args.kwarg is None:
            break
    return params


def r1_purity(ctx):
    ix = ctx.ix
    eng = engine(ix)
    seen = set()
    for q in SCHEMA_CLASSES:
        c = ix.cls(q)
        fl = "polars" if "/polars/" in q else "pandas"
        for m in TRANSFORMS:
            f = c.lookup(m)
            if f is None or f.qual in seen:
                continue
            seen.add(f.qual)
            ctx.touched(f)
            effs = dedupe([e for e in eng.summary(f).effects if e.root == ("P", "self")
                           and e.kind not in ("init", "memo", "idempotent") and consistent_flavour(e, fl)])
            ctx.ob("R1", f, f"{f.short} leaves its receiver unchanged", not effs,
                   "no write reaches self" if not effs else
                   "; ".join(f"`{e.site[2]}` ({site_loc(e)}) writes self{''.join('.' + p for p in e.path[:3])}" for e in effs[:3]))


def r2_properties(ctx):
    ix = ctx.ix
    for q in COLUMN_CLASSES:
        c = ix.cls(q)
        prop = c.method("properties")
        if prop is None:
            raise AnalysisError(f"{q}.properties missing")
        ctx.touched(prop)
        ds = _returned_dicts(prop)
        if not ds:
            raise AnalysisError(f"{q}.properties returns no dict literal")
        keys = _dict_keys(ds[0])
        for p in sorted(_ctor_params(c)):
            v = keys.get(p)
            ok = isinstance(v, ast.Attribute) and v.attr == p and txt(v.value) == "self"
            ctx.ob("R2", prop, f"{c.module.path.split('/')[2]} Column.properties carries constructor parameter `{p}`", ok,
                   "read from self." + p if ok else
                   (f"`{p}` is not in Column.properties: update_column()/update_columns() rebuild the column from properties, "
                    f"so {p} silently reverts to its default" if v is None else f"key {p!r} reads `{txt(v)}`"))
        for k in sorted(keys):
            ok = k in _ctor_params(c)
            ctx.ob("R2", prop, f"property key `{k}` is a constructor parameter", ok,
                   "accepted by Column(**properties)" if ok else "Column(**properties) raises TypeError")


def _source_of(call: ast.Call):
    """The single object whose attributes feed the keyword arguments, e.g. `new_schema.columns[col]` or `v`."""
    srcs = {}
    for k in call.keywords:
        if isinstance(k.value, ast.Attribute):
            srcs.setdefault(txt(k.value.value), []).append(k)
    if not srcs:
        return None, []
    best = max(srcs.items(), key=lambda kv: len(kv[1]))
    return best


def _properties_keys(ix):
    c = ix.cls(COLUMN_CLASSES[0])
    prop = c.method("properties")
    ds = _returned_dicts(prop)
    return set(_dict_keys(ds[0])) if ds else set()


def _literal_strings(node, ex):
    node = ex.expand(node)
    if isinstance(node, (ast.Tuple, ast.List, ast.Set)) and all(isinstance(e, ast.Constant) and isinstance(e.value, str) for e in node.elts):
        return {e.value for e in node.elts}
    return None


def _forwarded(ix, f, call, ex):
    """attribute -> value expression (or True when forwarded through a recognised **splat); problems found on the way"""
    given, problems, src = {}, [], None
    for k in call.keywords:
        if k.arg:
            given[k.arg] = k.value
            if isinstance(k.value, ast.Attribute):
                src = src or txt(k.value.value)
            continue
        d = ex.expand(k.value)
        if isinstance(d, ast.Dict):
            for kk, vv in zip(d.keys, d.values):
                if isinstance(kk, ast.Constant):
                    given[kk.value] = vv
            continue
        if isinstance(d, ast.DictComp) and len(d.generators) == 1:
            g = d.generators[0]
            it = g.iter
            base = it.func.value if isinstance(it, ast.Call) and callee_last(it) == "items" else it
            if isinstance(base, ast.Attribute) and base.attr == "properties" and isinstance(g.target, ast.Tuple) and len(g.target.elts) == 2:
                kn, vn = txt(g.target.elts[0]), txt(g.target.elts[1])
                src = src or txt(base.value)
                keys = set(_properties_keys(ix))
                if txt(d.key) != kn or txt(d.value) != vn:
                    problems.append(f"the splat re-maps properties (`{txt(d.key)}: {txt(d.value)}`)")
                for cond in g.ifs:
                    for atom in (cond.values if isinstance(cond, ast.BoolOp) and isinstance(cond.op, ast.And) else [cond]):
                        excl = None
                        if isinstance(atom, ast.Compare) and len(atom.ops) == 1 and isinstance(atom.ops[0], ast.NotIn) and txt(atom.left) == kn:
                            excl = _literal_strings(atom.comparators[0], ex)
                        elif isinstance(atom, ast.Compare) and len(atom.ops) == 1 and isinstance(atom.ops[0], ast.NotEq) and txt(atom.left) == kn \
                                and isinstance(atom.comparators[0], ast.Constant):
                            excl = {atom.comparators[0].value}
                        if excl is not None:
                            keys -= excl
                        else:
                            problems.append(f"properties are forwarded only `if {txt(atom)}`: a filter on the value drops attributes that are set to a "
                                            "falsy value (default=0, default=False, title='', metadata={})")
                for a in keys:
                    given.setdefault(a, True)
                continue
        raise AnalysisError(f"{f.qual}: cannot see what `**{txt(k.value)}` forwards to {txt(call.func)}(...)")
    return given, problems, src


def r3_forwarding(ctx):
    from ..util import Expander
    ix = ctx.ix
    col = ix.cls("pandera/api/pandas/components.py::Column")
    idx = ix.cls("pandera/api/pandas/components.py::Index")
    pcol, pidx = _ctor_params(col), _ctor_params(idx)
    cont = ix.cls("pandera/api/dataframe/container.py::DataFrameSchema")
    sites = [(cont.method("set_index"), "Index", pidx, pcol), (cont.method("reset_index"), "Index", pidx, pcol),
             (cont.method("reset_index"), "Column", pcol, pidx),
             (ix.cls("pandera/api/pandas/components.py::MultiIndex").method("__init__"), "Column", pcol, pidx)]
    done = set()
    for f, target, tparams, sparams in sites:
        if f is None:
            raise AnalysisError("transformation method missing")
        ctx.touched(f)
        n_site = 0
        from ..util import same_module_helpers
        # the conversion may sit in a private helper extracted from the method (MultiIndex.__init__ -> _index_level_columns)
        for g, c in [(g, c) for g in same_module_helpers(ix, f) for c in calls_in(g.node)]:
            if not (isinstance(c.func, ast.Name) and c.func.id == target) or id(c) in done:
                continue
            ex = Expander(g.node)
            given, problems, src = _forwarded(ix, g, c, ex)
            if src is None:
                continue  # built from literals, not a conversion of an existing component
            done.add(id(c))
            n_site += 1
            for pr in problems:
                ctx.ob("R3", f, f"{f.short}: {target}(...) built from an existing component forwards unconditionally", False, f"(source `{src}`) " + pr, f.loc(c))
            for a in sorted(set(tparams) & set(sparams)):
                if a in NOT_CARRIED:
                    continue
                if a == "coerce" and f.name == "__init__":
                    continue  # MultiIndex keeps self.indexes and reads coerce from them (MultiIndexBackend.coerce_dtype)
                v = given.get(a)
                ok = v is True or (v is not None and isinstance(v, ast.Attribute) and v.attr.lstrip("_") == a)
                ctx.ob("R3", f, f"{f.short}: {target}(...) built from an existing component carries `{a}`", ok,
                       "forwarded" if ok else
                       (f"`{a}` of the source component `{src}` is not passed to {target}(...): the attribute is lost by the transformation"
                        if v is None else f"{a}={txt(v)}"), f.loc(c))
        if n_site == 0:
            # reset_index may hand the remaining level on as it is (taken from `<multiindex>.indexes`) instead of re-building an Index
            reuses = target == "Index" and f.name == "reset_index" and any(isinstance(x, ast.Attribute) and x.attr == "indexes" for x in ast.walk(f.node))
            if reuses:
                ctx.ob("R3", f, f"{f.short}: the remaining index level is handed on as it is (no re-built {target})", True,
                       "taken from `.indexes`: every attribute of the level is kept")
                continue
            raise AnalysisError(f"{f.qual}: no {target}(...) conversion found")


def r4_raises(ctx):
    ix = ctx.ix
    seen = set()
    for q in SCHEMA_CLASSES:
        c = ix.cls(q)
        for m in TRANSFORMS:
            f = c.lookup(m)
            if f is None or f.qual in seen:
                continue
            seen.add(f.qual)
            bodies = [f.node]
            for c2 in calls_in(f.node):
                if isinstance(c2.func, ast.Name):
                    h = f.module.functions.get(c2.func.id)
                    if h is not None and h.node not in bodies:
                        bodies.append(h.node)   # a validation helper extracted to module level still belongs to the method
            for s in [x for b in bodies for x in walk_no_nested(b)]:
                if isinstance(s, ast.Raise) and s.exc is not None:
                    e = s.exc.func if isinstance(s.exc, ast.Call) else s.exc
                    name = e.attr if isinstance(e, ast.Attribute) else (e.id if isinstance(e, ast.Name) else "?")
                    ok = name in ("SchemaInitError", "ValueError")
                    ctx.ob("R4", f, f"{f.short}: raise {name}", ok,
                           "documented error class" if ok else "invalid requests must raise SchemaInitError/ValueError", f.loc(s))


def r5_order(ctx):
    """Re-keying a column keeps its position: pop-and-insert moves it to the end (ordered=True schemas, column order of the result)."""
    ix = ctx.ix
    seen = set()
    for q in SCHEMA_CLASSES:
        c = ix.cls(q)
        for m in TRANSFORMS:
            f = c.lookup(m)
            if f is None or f.qual in seen:
                continue
            seen.add(f.qual)
            moved = []
            removed = set()
            for s in walk_no_nested(f.node):
                if isinstance(s, ast.Delete):
                    for t in s.targets:
                        if isinstance(t, ast.Subscript):
                            removed.add(txt(t.value))
                if isinstance(s, ast.Call) and callee_last(s) == "pop" and isinstance(s.func, ast.Attribute):
                    removed.add(txt(s.func.value))
            for s in walk_no_nested(f.node):
                if isinstance(s, ast.Assign) and isinstance(s.targets[0], ast.Subscript):
                    d = txt(s.targets[0].value)
                    if not d.endswith(("columns", "indexes")) and d not in removed:
                        continue
                    reads_same = any((isinstance(n, ast.Call) and callee_last(n) == "pop" and isinstance(n.func, ast.Attribute) and txt(n.func.value) == d)
                                     or (isinstance(n, ast.Subscript) and txt(n.value) == d and d in removed and txt(n.slice) != txt(s.targets[0].slice))
                                     for n in ast.walk(s.value))
                    if reads_same:
                        moved.append(s)
            ctx.ob("R5", f, f"{f.short}: re-keyed entries keep their position", not moved,
                   "no pop-and-insert on the columns mapping" if not moved else
                   f"`{txt(moved[0])[:90]}` removes an entry and re-inserts it under another key: it moves to the end of the mapping, so the "
                   "column order of the transformed schema no longer mirrors the renamed frame (ordered=True rejects it; rename back does not restore the order)",
                   f.loc(moved[0]) if moved else "")


def r6_update_unfiltered(ctx):
    """update_column / update_columns override a property with exactly what the caller passed - including None, which
    is how a dtype / checks / default is removed.  Filtering the overrides by value keeps the old property silently."""
    from ..util import Expander
    ix = ctx.ix
    cont = ix.cls("pandera/api/dataframe/container.py::DataFrameSchema")
    f = cont.method("update_column")
    if f is None or f.node.args.kwarg is None:
        raise AnalysisError("update_column(**kwargs) missing")
    ctx.touched(f)
    kwname = f.node.args.kwarg.arg
    ex = Expander(f.node)
    ctors = [c for c in calls_in(f.node) if any(k.arg is None for k in c.keywords) and
             (txt(c.func).endswith(".__class__") or callee_last(c) in ("Column", "type"))]
    if not ctors:
        raise AnalysisError("update_column: column constructor call not found")
    for c in ctors:
        for k in c.keywords:
            if k.arg is not None:
                continue
            d = ex.expand(k.value)
            srcs = []
            if isinstance(d, ast.Dict):
                for kk, vv in zip(d.keys, d.values):
                    if kk is None:
                        srcs.append(ex.expand(vv))
            else:
                srcs.append(d)
            last = srcs[-1] if srcs else None
            ok = isinstance(last, ast.Name) and last.id == kwname
            ctx.ob("R6", f, "update_column: the caller's overrides are merged last and unfiltered", ok,
                   f"**{{**properties, **{kwname}}}" if ok else
                   f"the overrides merged over the old properties are `{txt(last)[:80] if last is not None else None}`, not `{kwname}` itself: a filter "
                   "on the value (e.g. `if v is not None`) makes update_column(name, dtype=None / checks=None / default=None) keep the old "
                   "property, unlike update_columns and unlike the documented meaning", f.loc(c))
    g = cont.method("update_columns")
    ctx.touched(g)
    up = g.positional[1] if len(g.positional) > 1 else "update_dict"
    gx = Expander(g.node)
    srcs = [c.args[0] for c in calls_in(g.node) if callee_last(c) == "update" and c.args]
    for c in calls_in(g.node):
        for k in c.keywords:
            if k.arg is None:
                d = gx.expand(k.value)
                if isinstance(d, ast.Dict):
                    srcs += [vv for kk, vv in zip(d.keys, d.values) if kk is None]
    mine = []
    for e in srcs:
        cl = gx.closure(e)
        if any(isinstance(x, ast.Name) and x.id == up for d in cl for x in ast.walk(d)):
            mine.append(cl)
    filtered = [d for cl in mine for d in cl for x in ast.walk(d)
                if isinstance(x, (ast.DictComp, ast.ListComp, ast.GeneratorExp)) and any(g_.ifs for g_ in x.generators)
                and any(isinstance(y, ast.Name) and y.id == up for y in ast.walk(x))]
    ok = bool(mine) and not filtered
    ctx.ob("R6", g, "update_columns: the per-column overrides are applied unfiltered", ok,
           f"the properties are updated with {up}[<column>] as given" if ok else
           ("the overrides pass through a filtering comprehension before being applied" if filtered else
            f"no update of the column properties from `{up}` found"))


def r7_add_columns_admission(ctx):
    """Columns handed to add_columns are admitted through the schema constructor (which validates them, e.g. that
    groupby references name declared columns): an invalid request raises SchemaInitError instead of yielding a schema that
    can only fail later."""
    from ..util import Expander
    ix = ctx.ix
    seen = set()
    for q in SCHEMA_CLASSES:
        c = ix.cls(q)
        f = c.lookup("add_columns")
        if f is None or f.qual in seen:
            continue
        seen.add(f.qual)
        ctx.touched(f)
        ex = Expander(f.node)
        stores = [s for s in walk_no_nested(f.node) if isinstance(s, ast.Assign) and isinstance(s.targets[0], ast.Attribute) and s.targets[0].attr == "columns"]
        validated = any(callee_last(c2) in ("_validate_columns", "_validate_schema") for c2 in calls_in(f.node))
        through_ctor = False
        for s_ in stores:
            for e in ex.closure(s_.value):
                for x in ast.walk(e):
                    if isinstance(x, ast.Call) and (txt(x.func) in ("self.__class__", "type(self)", "cls") or callee_last(x) == "DataFrameSchema"):
                        through_ctor = True
        ok = validated or through_ctor
        ctx.ob("R7", f, f"{f.short}: new columns are admitted through the schema constructor", ok,
               "self.__class__(extra_columns).columns" if ok else
               "the new columns are merged without constructing a schema from them: the constructor's validation (groupby columns exist, ...) is "
               "skipped, so an invalid request returns a schema instead of raising SchemaInitError", f.loc(stores[0]) if stores else "")


def _truthy(test):
    if isinstance(test, ast.BoolOp):
        for v in test.values:
            yield from _truthy(v)
    elif isinstance(test, ast.UnaryOp) and isinstance(test.op, ast.Not):
        yield from _truthy(test.operand)
    else:
        yield test


NAME_SELFTEST = """
def key_bad(index, i):
    return index.name or i

def key_ok(index, i):
    return i if index.name is None else index.name
"""


def _name_truthiness_sites(fn_node):
    out = []
    for node in walk_no_nested(fn_node):
        tests = []
        if isinstance(node, (ast.If, ast.While, ast.IfExp, ast.Assert)):
            tests.append(node.test)
        elif isinstance(node, ast.comprehension):
            tests += node.ifs
        for t in tests:
            for a in _truthy(t):
                if isinstance(a, ast.Attribute) and a.attr == "name":
                    out.append((a, f"tested for truthiness in `{txt(t)[:50]}`"))
        if isinstance(node, ast.BoolOp):
            for v in node.values[:-1]:
                if isinstance(v, ast.Attribute) and v.attr == "name" and not any(v is a for a, _ in out):
                    out.append((v, f"the left operand of `{txt(node)[:50]}`"))
    return out


def r9_set_name_scope(ctx):
    """Renaming a component changes its name and nothing else: `set_name` stores only `self.name` (the polars column may
    additionally *switch on* the regex flag for an anchored pattern through set_regex, never clear it).  Any other store
    changes a property the transformation does not name (rename(S) accepts rename(D) breaks for the declared regex)."""
    ix = ctx.ix
    n = 0
    for mp in ("pandera/api/pandas/components.py", "pandera/api/polars/components.py", "pandera/api/dataframe/components.py"):
        m = ix.by_path.get(mp)
        if m is None:
            continue
        for c in m.classes.values():
            for f in c.methods.get("set_name", []):
                n += 1
                ctx.touched(f)
                extra = []
                for st in walk_no_nested(f.node):
                    tg = st.targets if isinstance(st, ast.Assign) else ([st.target] if isinstance(st, (ast.AugAssign, ast.AnnAssign)) else [])
                    for t in tg:
                        if isinstance(t, ast.Attribute) and txt(t.value) == "self" and t.attr != "name":
                            extra.append(st)
                for call in calls_in(f.node):
                    if isinstance(call.func, ast.Attribute) and txt(call.func.value) == "self":
                        h = c.lookup(call.func.attr)
                        if h is None:
                            continue
                        for st in walk_no_nested(h.node):
                            if isinstance(st, ast.Assign):
                                for t in st.targets:
                                    if isinstance(t, ast.Attribute) and txt(t.value) == "self" and t.attr != "name":
                                        if not (t.attr == "regex" and isinstance(st.value, ast.Constant) and st.value.value is True):
                                            extra.append(st)
                ctx.ob("R9", f, f"{c.name}.set_name stores the name only", not extra,
                       "writes self.name (and may switch regex on for an anchored pattern)" if not extra else
                       f"`{txt(extra[0])[:60]}` changes another property: a column declared regex=True loses the flag on rename, so the renamed schema "
                       "looks the (pattern) name up literally", f.loc(extra[0]) if extra else None)
    if n < 2:
        raise AnalysisError(f"set_name methods found: {n}")


def r10_names_by_none_only(ctx):
    """Component names are arbitrary hashable labels ('' and 0 are legal): the schema API decides `unnamed` by `is None`
    only.  `index.name or i` keys a level named '' / 0 by its position, after which set_index / reset_index no longer
    invert each other and the transformed schema rejects the transformed data."""
    import ast as _ast
    t = _ast.parse(NAME_SELFTEST)
    got = {fn.name: len(_name_truthiness_sites(fn)) for fn in t.body}
    if got != {"key_bad": 1, "key_ok": 0}:
        raise AnalysisError(f"C15.R10 self-test failed: {got}")
    ix = ctx.ix
    n = 0
    first = None
    for mp in ("pandera/api/pandas/components.py", "pandera/api/pandas/container.py", "pandera/api/pandas/array.py", "pandera/api/dataframe/container.py",
               "pandera/api/dataframe/components.py", "pandera/api/polars/components.py", "pandera/api/polars/container.py"):
        m = ix.by_path.get(mp)
        if m is None:
            continue
        for f in m.all_functions:
            n += 1
            first = first or f
            for a, how in _name_truthiness_sites(f.node):
                ctx.ob("R10", f, f"{f.short}: `unnamed` is decided by `name is None`", False,
                       f"`{txt(a)}` is {how}: the legal names '' / 0 are treated as missing", f.loc(a))
    ctx.ob("R10", first, "no truthiness test / or-fallback on a component name in the schema API modules", True, f"{n} functions analysed")


def r11_rename_reaches_unique(ctx):
    """`DataFrameSchema.unique` names columns.  rename_columns re-keys the column mapping, so it has to pass the same
    names through the rename map as well - otherwise rename(S) still demands joint uniqueness of a column that no longer
    exists under that name, and rejects rename(D) (or, the column list being intersected with the frame, checks fewer
    columns than declared)."""
    from ..util import Expander, same_module_helpers
    ix = ctx.ix
    cont = ix.cls("pandera/api/dataframe/container.py::DataFrameSchema")
    f = cont.method("rename_columns")
    if f is None:
        raise AnalysisError("DataFrameSchema.rename_columns missing")
    ctx.touched(f)
    mapping = f.positional[1]
    ok = False
    for g in same_module_helpers(ix, f):
        ex = Expander(g.node)
        for st in walk_no_nested(g.node):
            if isinstance(st, ast.Assign) and any(isinstance(t, ast.Attribute) and t.attr in ("unique", "_unique") for t in st.targets):
                names = {x.id for d in ex.closure(st.value) for x in ast.walk(d) if isinstance(x, ast.Name)}
                if mapping in names or g is not f:
                    ok = True
        for c in calls_in(g.node):
            v = kw(c, "unique")
            if v is not None and mapping in {x.id for d in ex.closure(v) for x in ast.walk(d) if isinstance(x, ast.Name)}:
                ok = True
    ctx.ob("R11", f, "rename_columns renames the columns listed in `unique` as well", ok,
           "the unique list is rewritten through the rename map" if ok else
           "rename_columns rebuilds `.columns` only: DataFrameSchema({'a':..,'b':..}, unique=['a','b']).rename_columns({'a':'x'}) keeps unique == ['a','b'], "
           "so joint uniqueness is checked on ('b',) alone and the renamed schema rejects the renamed frame", f.loc(f.node))


def r12_fresh_result(ctx):
    """A transforming method returns a *new* schema on every path.  `return self` (an early exit for a request that
    changes nothing, e.g. a rename map of identity entries) hands the caller an alias of the receiver: editing the
    result then silently edits the original schema and changes its verdicts."""
    from ..util import Expander
    ix = ctx.ix
    seen = set()
    n = 0
    for q in SCHEMA_CLASSES:
        c = ix.cls(q)
        for m in TRANSFORMS:
            f = c.lookup(m)
            if f is None or f.qual in seen:
                continue
            seen.add(f.qual)
            ex = Expander(f.node)
            for r in walk_no_nested(f.node):
                if not isinstance(r, ast.Return) or r.value is None:
                    continue
                n += 1
                v = ex.expand(r.value)
                while isinstance(v, ast.Call) and callee_last(v) == "cast" and len(v.args) == 2:
                    v = v.args[1]
                alias = isinstance(v, ast.Name) and v.id == "self"
                ctx.ob("R12", f, f"{f.short}: `{txt(r)[:40]}` returns a new schema", not alias,
                       "not the receiver" if not alias else
                       "the receiver itself is returned on this path: the caller's edits of the result (strict, name, a column's nullable ...) change the "
                       "original schema", f.loc(r))
    if n < 8:
        raise AnalysisError(f"transformation returns found: {n}")


def r13_computed_keys_are_distinct(ctx):
    """A transformation that re-keys the columns mapping with keys *computed from a caller-supplied mapping* (rename: the
    new name of each column) can map two columns onto one key; the dict comprehension then silently keeps the last one
    and a column disappears from the schema - an invalid request has to raise instead.  Decided: before such a
    comprehension the function raises under a test that looks for repeated values of that mapping (len(set(...)) against
    len(...), .count(...), Counter, duplicated)."""
    from ..cfg import cfg_of
    from ..util import Expander
    n = 0
    m = ctx.ix.module("pandera/api/dataframe/container.py")
    for f in m.all_functions:
        if f.cls is None or f.name.startswith("_"):
            continue
        params = set(f.params) - {"self", "cls"}
        comps = []
        for x in walk_no_nested(f.node):
            if isinstance(x, ast.DictComp) and not isinstance(x.key, ast.Name):
                used = {y.id for y in ast.walk(x.key) if isinstance(y, ast.Name)} & params
                iter_cols = any(isinstance(y, ast.Attribute) and y.attr == "columns" for g in x.generators for y in ast.walk(g.iter))
                if used and iter_cols:
                    comps.append((x, sorted(used)[0]))
        # loop form: `for old, new in <mapping>.items(): <x>.columns[new] = <x>.columns.pop(old)...`
        for x in walk_no_nested(f.node):
            if isinstance(x, ast.For) and isinstance(x.iter, ast.Call) and callee_last(x.iter) == "items" and isinstance(x.iter.func, ast.Attribute) \
                    and isinstance(x.iter.func.value, ast.Name) and x.iter.func.value.id in params:
                stores = [a for b in x.body for a in ast.walk(b) if isinstance(a, ast.Assign) and any(
                    isinstance(t, ast.Subscript) and isinstance(t.value, ast.Attribute) and t.value.attr == "columns" for t in a.targets)]
                if stores:
                    comps.append((x, x.iter.func.value.id))
        if not comps:
            continue
        cfg = cfg_of(f.node)
        ex = Expander(f.node)
        for dc, mapping in comps:
            n += 1
            ctx.touched(f)
            st = dc
            while not isinstance(st, ast.stmt):
                st = st._parent
            what = txt(dc)[:60] if not isinstance(dc, ast.For) else f"for {txt(dc.target)} in {txt(dc.iter)}: ..."
            target = cfg.node_of(st)
            guarded = False
            for r in function_stmts(f):
                if not isinstance(r, ast.Raise):
                    continue
                rn = cfg.node_of(r)
                if rn is None or target is None or target.id not in cfg.reachable(cfg.entry.id):
                    continue
                for t, _ in cfg.guards(rn.id):
                    texts = [txt(t)] + [txt(d) for d in ex.closure(t)]
                    blob = " ".join(texts)
                    if mapping in blob and (("set(" in blob and "len(" in blob) or ".count(" in blob or "Counter(" in blob or "duplicated" in blob or "nunique" in blob):
                        guarded = True
            ctx.ob("R13", f, f"{f.short}: the keys computed from `{mapping}` are checked to be distinct before the columns are re-keyed", guarded,
                   "a repeated target raises" if guarded else
                   f"`{what}` re-keys the columns with names taken from `{mapping}` and nothing rejects a repeated name: rename_columns({{'a': 'x', 'b': 'x'}}) returns a schema "
                   "without column a (last writer wins) instead of raising SchemaInitError", f.loc(dc))
    if n < 1:
        raise AnalysisError("dataframe/container.py: no transformation re-keys the columns from a caller-supplied mapping")


def r14_label_order_not_taken_from_a_set(ctx):
    """A transformation that de-duplicates caller-supplied labels and then *uses their order* (the columns re-created by
    `reset_index(level=[...])`, the index levels built by `set_index`) must keep the caller's order: `list(set(labels))`
    iterates in hash order, which for strings changes from one interpreter run to the next - the same call produces
    schemas with different column order (observable through `ordered=True`, the generated script and the error messages).
    Decided: in the transformation methods no parameter is turned into a sequence via `set(...)`; `dict.fromkeys` keeps
    first-occurrence order."""
    m = ctx.ix.module("pandera/api/dataframe/container.py")
    n = 0
    for f in m.all_functions:
        if f.cls is None or f.name not in TRANSFORMS:
            continue
        params = set(f.params) - {"self", "cls"}
        n += 1
        bad = []
        for c in calls_in(f.node):
            if isinstance(c.func, ast.Name) and c.func.id in ("set", "frozenset") and c.args and isinstance(c.args[0], ast.Name) and c.args[0].id in params:
                par = getattr(c, "_parent", None)
                ordered_use = isinstance(par, ast.Call) and isinstance(par.func, ast.Name) and par.func.id in ("list", "tuple", "sorted") and par.func.id != "sorted" \
                    or isinstance(par, (ast.For, ast.comprehension)) and getattr(par, "iter", None) is c
                if ordered_use:
                    bad.append(c)
        ctx.touched(f)
        ctx.ob("R14", f, f"{f.short}: the order of caller-supplied labels is not taken from a set", not bad,
               "no set(...) of a parameter is iterated" if not bad else
               f"`{txt(getattr(bad[0], '_parent', bad[0]))[:50]}` orders the labels by their hash: the columns re-created by reset_index(level=['b', 'a', 'c']) come out in an "
               "order that changes between interpreter runs (PYTHONHASHSEED)", f.loc(bad[0] if bad else f.node))
    if n < 5:
        raise AnalysisError(f"transformation methods found: {n}")


def r15_multiindex_not_transformed_through_its_columns(ctx):
    """A MultiIndex keeps its levels twice: `.indexes` (what `names`, repr, strategies and reset_index read) and the
    `.columns` it inherits from DataFrameSchema (what validation reads).  The inherited column transformations
    (remove_columns, add_columns, rename_columns, ...) change `.columns` only; applied to a MultiIndex they leave
    `.indexes` / `.names` stale - after reset_index(level=['i1']) of a 3-level index the schema still names i1, differs from
    the hand-built schema and a second reset_index raises.  Decided: no schema transformation calls a column
    transformation on the index object; it re-builds the MultiIndex from the remaining `.indexes`."""
    m = ctx.ix.module("pandera/api/dataframe/container.py")
    n = 0
    for f in m.all_functions:
        if f.cls is None or f.name not in TRANSFORMS:
            continue
        n += 1
        bad = [c for c in calls_in(f.node) if callee_last(c) in TRANSFORMS and isinstance(c.func, ast.Attribute)
               and any(isinstance(x, ast.Attribute) and x.attr == "index" for x in ast.walk(c.func.value))]
        ctx.touched(f)
        ctx.ob("R15", f, f"{f.short}: the index component is not transformed through the inherited column operations", not bad,
               "no column transformation is applied to the index" if not bad else
               f"`{txt(bad[0])[:60]}` changes the columns of the MultiIndex but not its level list: reset_index(level=['i1']) of a 3-level index keeps "
               "index.names == ['i1', 'i2', 'i3'], the result differs from the hand-built schema and reset_index() on it raises", f.loc(bad[0] if bad else f.node))
    if n < 5:
        raise AnalysisError(f"transformation methods found: {n}")


def run(ctx):
    r12_fresh_result(ctx)
    r13_computed_keys_are_distinct(ctx)
    r14_label_order_not_taken_from_a_set(ctx)
    r15_multiindex_not_transformed_through_its_columns(ctx)
    r11_rename_reaches_unique(ctx)
    r9_set_name_scope(ctx)
    r10_names_by_none_only(ctx)
    from ..defassign import check_modules
    check_modules(ctx, "R8", ('pandera/api/dataframe/container.py', 'pandera/api/pandas/container.py', 'pandera/api/polars/container.py', 'pandera/api/base/schema.py', 'pandera/api/dataframe/components.py', 'pandera/api/pandas/components.py'), "escapes the schema transformation")
    r1_purity(ctx)
    r2_properties(ctx)
    r3_forwarding(ctx)
    r4_raises(ctx)
    r5_order(ctx)
    r6_update_unfiltered(ctx)
    r7_add_columns_admission(ctx)
    ctx.assume("copy.deepcopy yields an independent object; copy.copy is independent at the top level unless the class "
               "restores `__dict__ = state` (modelled)")
