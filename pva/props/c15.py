"""C15 - schema transformations mirror dataframe transformations."""

from __future__ import annotations

import ast

from ..effprops import consistent_flavour, dedupe, engine, site_loc
from ..index import AnalysisError, function_stmts, walk_no_nested
from ..util import callee_last, calls_in, kw, txt
from .c05 import SCHEMA_CLASSES, TRANSFORMS
from .c12 import _dict_keys, _returned_dicts

EXPLANATION = (
    "Static analysis of the schema transformation methods (E5 effects + table extraction; nothing executed). (R1) "
    "add_columns, remove_columns, update_column(s), rename_columns, select_columns, set_index, reset_index, "
    "update_checks and set_checks have no write effect on their receiver (they work on a deepcopy / a non-aliasing "
    "copy); (R2) `Column.properties` (pandas and polars), from which update_column(s) rebuild columns, has a key for "
    "every Column constructor parameter, each read from the attribute of the same name; (R3) the component "
    "constructors called by set_index / reset_index / MultiIndex.__init__ forward every attribute that the source "
    "component has and the target constructor accepts; (R4) every explicit raise in the transformation methods is "
    "SchemaInitError or ValueError. NOT decided: that the transformed schema accepts exactly the transformed "
    "frames; inverse laws on values."
)
LEVEL_RULE = "one obligation per (method) / (constructor parameter) / (constructor call, attribute) / raise"
FLOORS = {"R1": 10, "R2": 28, "R3": 20, "R4": 8}

COLUMN_CLASSES = ["pandera/api/pandas/components.py::Column", "pandera/api/polars/components.py::Column"]
# attributes that a conversion between Column and Index legitimately sets itself / cannot carry over
NOT_CARRIED = {"name": "set explicitly by the conversion", "required": "columns only", "regex": "columns only"}


def _ctor_params(cls):
    params = {}
    for k in cls.mro():
        g = k.method("__init__")
        if g is None:
            continue
        for p in g.params[1:]:
            if p not in params and p not in ("column_kwargs", "kwargs"):
                params[p] = g
        if g.node.args.kwarg is None:
            break
    return params


def r1_purity(ctx):
    ix = ctx.ix
    eng = engine(ix)
    seen = set()
    for q in SCHEMA_CLASSES:
        c = ix.cls(q)
        fl = "polars" if "/polars/" in q else "pandas"
        for m in TRANSFORMS:
            f = c.lookup(m)
            if f is None or f.qual in seen:
                continue
            seen.add(f.qual)
            ctx.touched(f)
            effs = dedupe([e for e in eng.summary(f).effects if e.root == ("P", "self")
                           and e.kind not in ("init", "memo", "idempotent") and consistent_flavour(e, fl)])
            ctx.ob("R1", f, f"{f.short} leaves its receiver unchanged", not effs,
                   "no write reaches self" if not effs else
                   "; ".join(f"`{e.site[2]}` ({site_loc(e)}) writes self{''.join('.' + p for p in e.path[:3])}" for e in effs[:3]))


def r2_properties(ctx):
    ix = ctx.ix
    for q in COLUMN_CLASSES:
        c = ix.cls(q)
        prop = c.method("properties")
        if prop is None:
            raise AnalysisError(f"{q}.properties missing")
        ctx.touched(prop)
        ds = _returned_dicts(prop)
        if not ds:
            raise AnalysisError(f"{q}.properties returns no dict literal")
        keys = _dict_keys(ds[0])
        for p in sorted(_ctor_params(c)):
            v = keys.get(p)
            ok = isinstance(v, ast.Attribute) and v.attr == p and txt(v.value) == "self"
            ctx.ob("R2", prop, f"{c.module.path.split('/')[2]} Column.properties carries constructor parameter `{p}`", ok,
                   "read from self." + p if ok else
                   (f"`{p}` is not in Column.properties: update_column()/update_columns() rebuild the column from properties, "
                    f"so {p} silently reverts to its default" if v is None else f"key {p!r} reads `{txt(v)}`"))
        for k in sorted(keys):
            ok = k in _ctor_params(c)
            ctx.ob("R2", prop, f"property key `{k}` is a constructor parameter", ok,
                   "accepted by Column(**properties)" if ok else "Column(**properties) raises TypeError")


def _source_of(call: ast.Call):
    """The single object whose attributes feed the keyword arguments, e.g. `new_schema.columns[col]` or `v`."""
    srcs = {}
    for k in call.keywords:
        if isinstance(k.value, ast.Attribute):
            srcs.setdefault(txt(k.value.value), []).append(k)
    if not srcs:
        return None, []
    best = max(srcs.items(), key=lambda kv: len(kv[1]))
    return best


def r3_forwarding(ctx):
    ix = ctx.ix
    col = ix.cls("pandera/api/pandas/components.py::Column")
    idx = ix.cls("pandera/api/pandas/components.py::Index")
    pcol, pidx = _ctor_params(col), _ctor_params(idx)
    cont = ix.cls("pandera/api/dataframe/container.py::DataFrameSchema")
    sites = [(cont.method("set_index"), "Index", pidx, pcol), (cont.method("reset_index"), "Index", pidx, pcol),
             (cont.method("reset_index"), "Column", pcol, pidx),
             (ix.cls("pandera/api/pandas/components.py::MultiIndex").method("__init__"), "Column", pcol, pidx)]
    done = set()
    for f, target, tparams, sparams in sites:
        if f is None:
            raise AnalysisError("transformation method missing")
        ctx.touched(f)
        for c in calls_in(f.node):
            if not (isinstance(c.func, ast.Name) and c.func.id == target) or id(c) in done:
                continue
            src, kws = _source_of(c)
            if src is None or len(kws) < 3:
                continue
            done.add(id(c))
            given = {}
            for k in c.keywords:
                if k.arg:
                    given[k.arg] = k.value
            for a in sorted(set(tparams) & set(sparams)):
                if a in NOT_CARRIED:
                    continue
                if a == "coerce" and f.name == "__init__":
                    continue  # MultiIndex keeps self.indexes and reads coerce from them (MultiIndexBackend.coerce_dtype)
                v = given.get(a)
                ok = v is not None and isinstance(v, ast.Attribute) and v.attr.lstrip("_") == a
                ctx.ob("R3", f, f"{f.short}: {target}(...) built from `{src}` carries `{a}`", ok,
                       "forwarded" if ok else
                       (f"`{a}` of the source component is not passed to {target}(...): the attribute is lost by the transformation"
                        if v is None else f"{a}={txt(v)}"), f.loc(c))


def r4_raises(ctx):
    ix = ctx.ix
    seen = set()
    for q in SCHEMA_CLASSES:
        c = ix.cls(q)
        for m in TRANSFORMS:
            f = c.lookup(m)
            if f is None or f.qual in seen:
                continue
            seen.add(f.qual)
            for s in walk_no_nested(f.node):
                if isinstance(s, ast.Raise) and s.exc is not None:
                    e = s.exc.func if isinstance(s.exc, ast.Call) else s.exc
                    name = e.attr if isinstance(e, ast.Attribute) else (e.id if isinstance(e, ast.Name) else "?")
                    ok = name in ("SchemaInitError", "ValueError")
                    ctx.ob("R4", f, f"{f.short}: raise {name}", ok,
                           "documented error class" if ok else "invalid requests must raise SchemaInitError/ValueError", f.loc(s))


def run(ctx):
    r1_purity(ctx)
    r2_properties(ctx)
    r3_forwarding(ctx)
    r4_raises(ctx)
    ctx.assume("copy.deepcopy yields an independent object; copy.copy is independent at the top level unless the class "
               "restores `__dict__ = state` (modelled)")
