"""C16 - a DataFrameModel means the same as the DataFrameSchema it describes."""

from __future__ import annotations

import ast
import re

from ..effprops import engine, site_loc
from ..index import AnalysisError, dotted, function_stmts, walk_no_nested
from ..util import callee_last, calls_in, kw, path_condition, show_condition, txt
from .c12 import _dict_keys, _returned_dicts
from .c15 import _ctor_params
from .c19 import ALIASES

EXPLANATION = (
    "Static analysis of the class-based model plumbing (ast skeleton comparison, table extraction, E5 effects; nothing "
    "executed). (R1) the four check/parser twin pairs (_collect_check_infos/_collect_parser_infos, _extract_checks/"
    "_extract_parsers, _extract_df_checks/_extract_df_parsers, dataframe_check/dataframe_parser) have equal decision "
    "skeletons after renaming check<->parser; (R2) every BaseConfig option that is a DataFrameSchema constructor "
    "parameter is forwarded by to_schema from the same config attribute, and every multiindex_* option is a MultiIndex "
    "parameter; (R3) _check_dispatch maps every Field check keyword to the canonical Check constructor of that "
    "name/alias; (R4) FieldInfo.column_properties / index_properties forward every FieldInfo attribute that the "
    "Column / Index constructor accepts; (R5) building a model's schema writes nothing but memo slots on the class "
    "(no hidden state shared along the hierarchy). (R6) _collect_fields fills the field mapping while ranging over the type hints (declaration order), not the merged class attributes; (R7) the `Field omitted` test looks at the class's own namespace (cls.__dict__), so a bare re-annotation in a subclass gets a fresh Field. " 
    " (R8) definite assignment: no function of the DataFrameModel modules reads a local that a branch-only path from its entry leaves unassigned (CFG may-analysis, optimistic about try bodies and loop bodies, correlated guards pruned) - an UnboundLocalError there would escape to_schema(). " 
    " (R9) whether a Field alias was given is decided by `is None` only (alias 0 / '' are legal) - no truthiness test or `alias or name` fallback; (R10) Field forwards every Check option among its parameters (ignore_na, raise_warning, n_failure_cases) to every check constructor call, unfiltered by value. " 
    " (R11) _collect_config_and_extras lets the more derived model override the accumulated options and extras (acc.update(new) / {**acc, **new}, never the transposed spelling); (R12) the column builders look custom checks / parsers up with the key of the fields mapping they iterate (the alias), not field.original_name. " 
    "NOT decided: annotation -> dtype translation; MRO semantics at run "
    "time; verdict equality on data."
    ' (R13) while BaseFieldInfo hashes / compares by name, the @check / @parser factories (pandas/polars and pyspark) hand the designations to the *Info object without set / frozenset / dict-key / set-comprehension: at decoration time every class-scope Field still has name None and a hash container would keep only the first.'
    " (R14) the MRO-walking collectors of @check / @dataframe_check / @parser methods record a name as seen for every attribute (not only behind the isinstance(info, <Kind>Info) filter), so a subclass attribute of another kind hides the parent's method as attribute lookup does."
    ' (R15) in the Config-extras conversion (the function calling getattr(Check, name)(*args, **kwargs)) the value is splatted positionally exactly under isinstance(value, tuple) and as keywords exactly under isinstance(value, dict).'
    ' (R16) in the pandas and polars column builders the raw annotation is handed to Engine.dtype only on paths where annotation.metadata is empty (path condition), so the parameters of Annotated[dtype, *params] are never dropped by resolving the annotation through its origin.'
    ' (R17) the function that turns a Config class into schema options enumerates it through attribute lookup (MRO walk / dir / getmembers), not through vars(config); today it uses vars(config) (known finding).'
)
LEVEL_RULE = "one obligation per twin pair / config option / dispatch key / field attribute / write site"
FLOORS = {"R1": 4, "R2": 12, "R3": 16, "R4": 14, "R5": 1, "R6": 1, "R7": 1, "R8": 1, "R9": 1, "R10": 1, "R11": 2, "R12": 3}

MODEL = "pandera/api/dataframe/model.py::DataFrameModel"
MC = "pandera/api/dataframe/model_components.py"


def _rename(text: str) -> str:
    text = re.sub(r"PARSER", "CHECK", text)
    text = re.sub(r"Parser", "Check", text)
    text = re.sub(r"parser", "check", text)
    text = re.sub(r"parses", "checks", text)
    return text


def skeleton(f):
    """Control skeleton: guards, loops, exits and collection effects, alpha-renamed."""
    out = []

    def walk(stmts, depth):
        for s in stmts:
            if isinstance(s, ast.Expr) and isinstance(s.value, ast.Constant):
                continue
            if isinstance(s, ast.If):
                out.append((depth, "if", _rename(txt(s.test))))
                walk(s.body, depth + 1)
                if s.orelse:
                    out.append((depth, "else", ""))
                    walk(s.orelse, depth + 1)
            elif isinstance(s, (ast.For, ast.While)):
                out.append((depth, "for", _rename(txt(s.iter)) if isinstance(s, ast.For) else _rename(txt(s.test))))
                walk(s.body, depth + 1)
            elif isinstance(s, (ast.Continue, ast.Break)):
                out.append((depth, type(s).__name__.lower(), ""))
            elif isinstance(s, ast.Return):
                v = s.value
                t = _rename(txt(v)) if v is not None else ""
                t = re.sub(r"typing\.cast\([^,]+, (.*)\)$", r"\1", t)
                out.append((depth, "return", _strip_strings(t)))
            elif isinstance(s, ast.Raise):
                out.append((depth, "raise", _rename(txt(s.exc.func)) if isinstance(s.exc, ast.Call) else ""))
            elif isinstance(s, ast.Expr) and isinstance(s.value, ast.Call):
                out.append((depth, "call", _strip_strings(_rename(txt(s.value)))))
            elif isinstance(s, (ast.Assign, ast.AnnAssign)):
                tg = s.targets[0] if isinstance(s, ast.Assign) else s.target
                val = s.value
                out.append((depth, "assign", _strip_strings(_rename(txt(tg))) + " = " + _strip_strings(_rename(txt(val)) if val is not None else "")))
            elif isinstance(s, (ast.FunctionDef, ast.AsyncFunctionDef)):
                out.append((depth, "def", _rename(s.name)))
                walk(s.body, depth + 1)
            elif isinstance(s, ast.Try):
                out.append((depth, "try", ""))
                walk(s.body, depth + 1)
                for h in s.handlers:
                    out.append((depth, "except", _rename(txt(h.type)) if h.type else ""))
                    walk(h.body, depth + 1)
            else:
                out.append((depth, type(s).__name__, ""))
    walk(f.node.body, 0)
    return out


def _strip_strings(t: str) -> str:
    return re.sub(r"f?'[^']*'|f?\"[^\"]*\"", "''", t)


def _sig(f):
    a = f.node.args
    return [_rename(x.arg) for x in a.posonlyargs + a.args] + (["*" + _rename(a.vararg.arg)] if a.vararg else []) + \
        [_rename(x.arg) for x in a.kwonlyargs] + (["**" + _rename(a.kwarg.arg)] if a.kwarg else [])


def r1_twins(ctx):
    ix = ctx.ix
    model = ix.cls(MODEL)
    mc = ix.module(MC)
    pairs = [(model.method("_collect_check_infos"), model.method("_collect_parser_infos")),
             (model.method("_extract_checks"), model.method("_extract_parsers")),
             (model.method("_extract_df_checks"), model.method("_extract_df_parsers")),
             (mc.functions.get("dataframe_check"), mc.functions.get("dataframe_parser"))]
    for a, b in pairs:
        if a is None or b is None:
            raise AnalysisError("twin collector missing")
        ctx.touched(a, b)
        sa, sb = skeleton(a), skeleton(b)
        diffs = []
        if _sig(a) != _sig(b):
            diffs.append(f"signatures differ: {_sig(a)} vs {_sig(b)}")
        if sa != sb:
            only_a = [x for x in sa if x not in sb]
            only_b = [x for x in sb if x not in sa]
            if only_a:
                diffs.append("only in the check version: " + "; ".join(f"{k} {t}".strip() for _, k, t in only_a[:3]))
            if only_b:
                diffs.append("only in the parser version: " + "; ".join(f"{k} {t}".strip() for _, k, t in only_b[:3]))
            if not only_a and not only_b:
                diffs.append("same steps in a different order / nesting")
        ctx.ob("R1", b, f"twin pair {a.name} / {b.name}", not diffs,
               "equal decision skeletons" if not diffs else "; ".join(diffs))


def r2_config(ctx):
    ix = ctx.ix
    model = ix.cls(MODEL)
    cfg = ix.cls("pandera/api/dataframe/model_config.py::BaseConfig")
    sch = _ctor_params(ix.cls("pandera/api/pandas/container.py::DataFrameSchema"))
    mi = _ctor_params(ix.cls("pandera/api/pandas/components.py::MultiIndex"))
    ts = model.method("to_schema")
    ctx.touched(ts)
    # the dict(s) that may flow into `cls.build_schema_(**<kwargs>)`
    from ..util import Expander
    ex = Expander(ts.node)
    dicts = []
    for c in calls_in(ts.node):
        if callee_last(c) == "build_schema_":
            for k in c.keywords:
                if k.arg is None:
                    for e in ex.closure(k.value):
                        if isinstance(e, ast.Dict) and e.keys:
                            dicts.append(e)
    if not dicts:
        raise AnalysisError("to_schema: no option dict flows into build_schema_(**...)")
    keys = {}
    for d in dicts:
        keys.update(_dict_keys(d))
    opts = list(cfg.ann) + [k for k in cfg.assigns if k not in cfg.ann]
    for o in opts:
        if o.startswith("multiindex_"):
            p = o[len("multiindex_"):]
            ctx.ob("R2", cfg.qual, f"Config.{o} is a MultiIndex parameter", p in mi,
                   "forwarded as MultiIndex(" + p + "=...)" if p in mi else f"MultiIndex has no parameter {p!r}")
            continue
        if o not in sch:
            continue
        v = keys.get(o)
        ok = v is not None and any(isinstance(n, ast.Attribute) and n.attr == o and "__config__" in txt(n.value) for n in ast.walk(v))
        ctx.ob("R2", ts, f"Config.{o} -> DataFrameSchema({o}=...)", ok,
               "forwarded from cls.__config__." + o if ok else
               (f"Config.{o} is a DataFrameSchema parameter but to_schema does not forward it: the option is silently ignored"
                if v is None else f"{o}={txt(v)}"))
    # multiindex kwargs are collected by prefix in the pandas model
    bs = ix.cls("pandera/api/pandas/model.py::DataFrameModel").method("build_schema_")
    ok = any(isinstance(n, ast.Constant) and n.value == "multiindex_" for n in ast.walk(bs.node))
    ctx.ob("R2", bs, "multiindex_* options are collected by prefix and passed to MultiIndex", ok,
           "prefix scan over cls.__config__" if ok else "multiindex options are not forwarded")


def r3_dispatch(ctx):
    ix = ctx.ix
    mc = ix.module(MC)
    f = mc.functions.get("_check_dispatch")
    field = mc.functions.get("Field")
    if f is None or field is None:
        raise AnalysisError("_check_dispatch / Field missing")
    ctx.touched(f, field)
    ds = _returned_dicts(f)
    if not ds:
        raise AnalysisError("_check_dispatch returns no dict literal")
    keys = _dict_keys(ds[0])
    check = ix.cls("pandera/api/checks.py::Check")
    for k, v in sorted(keys.items()):
        want = ALIASES.get(k, k) if k != "between" else "between"
        d = dotted(v) or ""
        ok = d in (f"Check.{want}", f"Check.{k}") and check.method(d.split(".")[-1]) is not None
        ctx.ob("R3", f, f"dispatch key {k!r}", ok,
               f"-> {d}" if ok else f"key {k!r} is dispatched to `{txt(v)}`, not to Check.{want}")
    # every check keyword of Field is a dispatch key
    kwonly = field.kwonly
    stop = kwonly.index("nullable") if "nullable" in kwonly else len(kwonly)
    for p in kwonly[:stop]:
        ctx.ob("R3", field, f"Field({p}=...) has a dispatch entry", p in keys,
               "dispatched" if p in keys else f"Field accepts {p}= but _check_dispatch has no such key: the constraint is dropped")
    # the loop applies every dispatch entry and appends the resulting check
    loops = [s for s in function_stmts(field) if isinstance(s, ast.For) and "check_dispatch" in txt(s.iter)]
    ok = any(any(callee_last(c) == "append" for c in calls_in(l)) for l in loops)
    ctx.ob("R3", field, "Field builds and collects one check per given keyword", ok,
           "loop over check_dispatch.items() appends the constructed check" if ok else "constructed checks are not collected")


def r4_field_props(ctx):
    ix = ctx.ix
    fi = ix.cls(f"{MC}::FieldInfo")
    base_init = fi.lookup("__init__")
    attrs = [p for p in base_init.params[1:]]
    rename = {"parses": "parsers"}
    for mname, target in (("column_properties", "pandera/api/pandas/components.py::Column"),
                          ("index_properties", "pandera/api/pandas/components.py::Index")):
        m = fi.method(mname)
        if m is None:
            raise AnalysisError(f"FieldInfo.{mname} missing")
        ctx.touched(m)
        tp = _ctor_params(ix.cls(target))
        calls = [c for c in calls_in(m.node) if callee_last(c) == "_get_schema_properties"]
        if len(calls) != 1:
            raise AnalysisError(f"{mname}: _get_schema_properties call not found")
        c = calls[0]
        given = {k.arg: k.value for k in c.keywords if k.arg}
        for a in attrs:
            t = rename.get(a, a)
            if t not in tp or a in ("checks", "parses", "alias", "check_name", "dtype_kwargs"):
                if a in ("checks", "parses"):
                    # merged inside _get_schema_properties: "checks": self.checks + ..., "parsers": self.parses + ...
                    gsp = fi.method("_get_schema_properties")
                    dk = _dict_keys(_returned_dicts(gsp)[0]) if gsp is not None and _returned_dicts(gsp) else {}
                    key = rename.get(a, a)
                    v = dk.get(key)
                    ok = v is not None and any(isinstance(n, ast.Attribute) and n.attr == a and txt(n.value) == "self" for n in ast.walk(v))
                    ctx.ob("R4", m, f"{mname} carries field-level {a}", ok or key not in tp,
                           f"_get_schema_properties merges self.{a} into {key!r}" if ok else f"field-level {a} are dropped")
                continue
            v = given.get(t)
            ok = isinstance(v, ast.Attribute) and v.attr == a and txt(v.value) == "self"
            ctx.ob("R4", m, f"{mname} forwards FieldInfo.{a}", ok,
                   "forwarded" if ok else (f"Field({a}=...) is accepted but not passed to {target.split('::')[1]}(...): silently ignored"
                                           if v is None else f"{t}={txt(v)}"))
        for k in given:
            ctx.ob("R4", m, f"{mname}: keyword {k} is a {target.split('::')[1]} parameter", k in tp,
                   "accepted" if k in tp else "constructor would raise TypeError")


def r5_hidden_state(ctx):
    ix = ctx.ix
    eng = engine(ix)
    model = ix.cls(MODEL)
    sites = {}
    for k in [model] + model.all_subclasses():
        if "pyspark" in k.module.path:
            continue
        for mname in ("to_schema", "__init_subclass__", "__class_getitem__"):
            for f in k.methods.get(mname, []):
                ctx.touched(f)
                for e in eng.summary(f).effects:
                    if e.root not in (("P", "cls"),) and e.root[0] != "G":
                        continue
                    d = sites.setdefault((e.site[0], e.site[2]), {"kinds": set(), "eff": e})
                    d["kinds"].add(e.kind)
    for (sf, text), d in sorted(sites.items()):
        bad = d["kinds"] - {"memo", "init", "idempotent"}
        ctx.ob("R5", sf, f"model construction write `{text}`", not bad,
               f"classified {sorted(d['kinds'])}" if not bad else
               "writes an object shared along the model class hierarchy (not a memo slot): a subclass building its schema "
               "changes what its parents build", site_loc(d["eff"]))


def r6_declaration_order(ctx):
    """Columns come out in the order the annotations were declared: the loop that fills the mapping returned by
    _collect_fields ranges over the type hints, not over the merged class attributes."""
    from ..flow import FlowExpander
    from ..cfg import cfg_of
    model = ctx.ix.cls(MODEL)
    f = model.method("_collect_fields")
    if f is None:
        raise AnalysisError("_collect_fields missing")
    ctx.touched(f)
    fx = FlowExpander(f.node)
    returned = {s.value.id for s in function_stmts(f) if isinstance(s, ast.Return) and isinstance(s.value, ast.Name)}
    n = 0
    for loop in [s for s in function_stmts(f) if isinstance(s, ast.For)]:
        stores = [s for s in ast.walk(loop) if isinstance(s, ast.Assign) and isinstance(s.targets[0], ast.Subscript)
                  and isinstance(s.targets[0].value, ast.Name) and s.targets[0].value.id in returned]
        if not stores:
            continue
        n += 1
        it = fx.expand_at(fx.by_ast[id(loop)], loop.iter) if id(loop) in fx.by_ast else loop.iter
        ok = any(isinstance(c, ast.Call) and callee_last(c) == "get_type_hints" for c in ast.walk(it))
        ctx.ob("R6", f, "fields are collected in annotation (declaration) order", ok,
               f"the filling loop ranges over `{txt(it)[:70]}`" if ok else
               f"the loop that fills the field mapping ranges over `{txt(loop.iter)}` (expanded: `{txt(it)[:60]}`), not over the type hints: fields assigned "
               "explicitly and fields with a bare annotation come out in attribute order, so the column order of the schema (ordered=True, "
               "column order of outputs) differs from the declaration order", f.loc(loop))
    if n == 0:
        raise AnalysisError("_collect_fields: no loop fills the returned mapping")


def r7_own_namespace(ctx):
    """A subclass that re-declares a field with a bare annotation gets a fresh Field: the `omitted` test looks at the
    class's own namespace (cls.__dict__), not at inherited attributes."""
    from ..cfg import cfg_of
    model = ctx.ix.cls(MODEL)
    f = model.method("__init_subclass__")
    if f is None:
        raise AnalysisError("DataFrameModel.__init_subclass__ missing")
    ctx.touched(f)
    cfg = cfg_of(f.node)
    cls_name = f.positional[0]
    sets = [s for s in function_stmts(f) if isinstance(s, ast.Expr) and isinstance(s.value, ast.Call) and callee_last(s.value) == "setattr"
            and s.value.args and txt(s.value.args[0]) == cls_name]
    if not sets:
        raise AnalysisError("__init_subclass__: no setattr(cls, <field>, Field()) found")
    for s in sets:
        fld = txt(s.value.args[1]) if len(s.value.args) > 1 else "?"
        pc = path_condition(cfg, cfg.node_of(s).id, keep=lambda t, n: fld in t and ("__dict__" in t or "hasattr" in t or "getattr" in t or "dir(" in t))
        own = f"{fld} in {cls_name}.__dict__"
        ok = pc[0] == (own,) and pc[1] == frozenset({(False,)})
        ctx.ob("R7", f, "an omitted Field is detected in the class's own namespace", ok,
               f"fresh Field() installed exactly when `{fld} not in {cls_name}.__dict__`" if ok else
               f"the fresh Field() is installed under {show_condition(pc)}: a test that also sees inherited attributes (hasattr/getattr) makes a "
               "bare re-declaration in a subclass inherit the parent's Field options (checks, nullable, alias) instead of starting from Field()",
               f.loc(s))


def _truthy_atoms(test):
    if isinstance(test, ast.BoolOp):
        for v in test.values:
            yield from _truthy_atoms(v)
    elif isinstance(test, ast.UnaryOp) and isinstance(test.op, ast.Not):
        yield from _truthy_atoms(test.operand)
    else:
        yield test


def r9_alias_by_none_only(ctx):
    """`Field(alias=...)` accepts any hashable label - 0 for frames with default integer column labels, '' - so whether
    an alias was given is decided by `is (not) None` only.  A truthiness test or an `alias or name` fallback compiles the
    column under the attribute name instead, and the model no longer equals DataFrameSchema({0: Column(...)})."""
    from ..util import Expander
    ix = ctx.ix
    n = bad_n = 0
    for mp in ("pandera/api/base/model_components.py", "pandera/api/dataframe/model_components.py", "pandera/api/dataframe/model.py",
               "pandera/api/pandas/model.py", "pandera/api/polars/model.py", "pandera/api/base/model.py"):
        m = ix.by_path.get(mp)
        if m is None:
            continue
        for f in m.all_functions:
            if "alias" not in ast.dump(f.node):
                continue
            ex = Expander(f.node)

            def is_alias(e):
                e = ex.expand(e)
                return (isinstance(e, ast.Attribute) and e.attr == "alias") or (isinstance(e, ast.Name) and e.id == "alias") or (
                    isinstance(e, ast.Call) and isinstance(e.func, ast.Name) and e.func.id == "getattr" and len(e.args) >= 2
                    and isinstance(e.args[1], ast.Constant) and e.args[1].value == "alias")
            sites = []
            for node in walk_no_nested(f.node):
                tests = []
                if isinstance(node, (ast.If, ast.While, ast.IfExp, ast.Assert)):
                    tests.append(node.test)
                elif isinstance(node, ast.comprehension):
                    tests += node.ifs
                for t in tests:
                    for a in _truthy_atoms(t):
                        if is_alias(a):
                            sites.append((a, f"tested for truthiness in `{txt(t)[:50]}`"))
                if isinstance(node, ast.BoolOp) and not any(node is t or any(node is x for x in ast.walk(t)) for t in tests):
                    # value position: `alias or default`, `alias and ...`
                    for v in node.values[:-1]:
                        if is_alias(v):
                            sites.append((v, f"used as the left operand of `{txt(node)[:50]}`"))
                if isinstance(node, ast.Compare) and len(node.ops) == 1 and isinstance(node.ops[0], (ast.Is, ast.IsNot)) and is_alias(node.left):
                    n += 1
            for a, how in sites:
                bad_n += 1
                ctx.ob("R9", f, f"{f.short}: whether an alias was given is decided by `is None` only", False,
                       f"`{txt(a)}` is {how}: the legal aliases 0 / '' count as missing, so the field is compiled under its attribute name "
                       "(Field(alias=0) no longer equals DataFrameSchema({0: Column(...)}))", f.loc(a))
    if n < 1 and not bad_n:
        raise AnalysisError("no `alias is (not) None` decision found in the model component modules")
    ctx.ob("R9", ix.module("pandera/api/base/model_components.py").all_functions[0], "alias presence is decided by None tests", not bad_n,
           f"{n} `alias is (not) None` decisions, no truthiness use" if not bad_n else f"{bad_n} truthiness use(s)")
    ctx.stats["alias_none_tests"] = n


def r10_field_check_options(ctx):
    """`Field(ge=0, ignore_na=False, ...)` must build Check.ge(0, ignore_na=False, ...): every Check option among Field's
    parameters reaches every check constructor call whatever its value.  Forwarding `only the options that were set`
    by truthiness drops `ignore_na=False` - the one value that differs from Check's default."""
    from ..util import Expander
    ix = ctx.ix
    m = ix.module("pandera/api/dataframe/model_components.py")
    f = m.functions.get("Field")
    if f is None:
        raise AnalysisError("model_components.Field missing")
    ctx.touched(f)
    check_init = None
    for q in ("pandera/api/checks.py::Check", "pandera/api/base/checks.py::BaseCheck"):
        try:
            c = ix.cls(q)
        except Exception:
            continue
        g = c.lookup("__init__")
        if g is not None and check_init is None:
            check_init = g
    if check_init is None:
        raise AnalysisError("Check.__init__ not found")
    check_params = {a.arg for a in check_init.node.args.args + check_init.node.args.kwonlyargs} - {"self", "check_fn", "name", "error", "title", "description", "statistics"}
    field_params = {a.arg for a in f.node.args.args + f.node.args.kwonlyargs}
    options = sorted(check_params & field_params)
    if len(options) < 3:
        raise AnalysisError(f"Field/Check common options: {options}")
    ex = Expander(f.node)
    splats = []
    from ..util import same_module_helpers
    # every use of a check constructor taken from the dispatch table - called directly, or handed to a local helper that
    # calls it - carries the options
    # the dispatch table: a local bound to the registry of check constructors (a `*dispatch*` helper, possibly inlined by the
    # normaliser into the dict of Check.<builtin> attributes it returns)
    dispatch = {t.id for st in walk_no_nested(f.node) if isinstance(st, ast.Assign) for t in st.targets if isinstance(t, ast.Name) and (
        (isinstance(st.value, ast.Call) and "dispatch" in callee_last(st.value)) or
        (isinstance(st.value, ast.Dict) and sum(1 for v in st.value.values if isinstance(v, ast.Attribute) and txt(v.value) == "Check") >= 5))}
    ctors = set()
    for lp in [x for x in walk_no_nested(f.node) if isinstance(x, ast.For)]:
        if isinstance(lp.iter, ast.Call) and callee_last(lp.iter) == "items" and txt(lp.iter.func.value) in dispatch and isinstance(lp.target, ast.Tuple) \
                and len(lp.target.elts) == 2 and isinstance(lp.target.elts[1], ast.Name):
            ctors.add(lp.target.elts[1].id)

    def is_ctor(e):
        return (isinstance(e, ast.Name) and e.id in ctors) or (isinstance(e, ast.Subscript) and isinstance(e.value, ast.Name) and e.value.id in dispatch)

    for c in calls_in(f.node):
        if is_ctor(c.func) or any(is_ctor(a) for a in c.args):
            has = any(k.arg is None and isinstance(k.value, ast.Name) and k.value.id not in ("kwargs", "arg_value") for k in c.keywords)
            if not has:
                ctx.ob("R10", f, f"`{txt(c)[:50]}` receives every check option of Field unfiltered", False,
                       "a check constructor from the dispatch table is used without the check options (ignore_na / raise_warning / n_failure_cases): "
                       "Field(between={...}, raise_warning=True) builds a check that raises where the equivalent Column only warns", f.loc(c))
    for c in calls_in(f.node):
        for k in c.keywords:
            if k.arg is None and isinstance(k.value, ast.Name) and k.value.id not in ("kwargs", "arg_value"):
                splats.append((c, k.value))
    if not splats:
        ctx.ob("R10", f, "Field forwards its check options to the check constructors", False, "no `**<options>` splat into a check constructor call")
        return
    for c, name in splats:
        defs = ex.defs.get(name.id) or []
        probs = []
        if len(defs) != 1:
            probs.append(f"`{name.id}` has {len(defs)} definitions")
        else:
            d = defs[0]
            if isinstance(d, ast.Dict):
                keys = {k.value for k in d.keys if isinstance(k, ast.Constant)}
                missing = [o for o in options if o not in keys]
                if missing:
                    probs.append(f"options {missing} are not forwarded")
                for k, v in zip(d.keys, d.values):
                    if isinstance(k, ast.Constant) and k.value in options and not (isinstance(v, ast.Name) and v.id == k.value):
                        probs.append(f"`{k.value}` is forwarded as `{txt(v)[:30]}`")
            elif isinstance(d, ast.DictComp):
                conds = [c2 for g in d.generators for c2 in g.ifs]
                tgt = {x.id for g in d.generators for x in ast.walk(g.target) if isinstance(x, ast.Name)}
                val_names = {x.id for x in ast.walk(d.value) if isinstance(x, ast.Name)} & tgt
                for c2 in conds:
                    used = {x.id for x in ast.walk(c2) if isinstance(x, ast.Name)}
                    if used & val_names:
                        probs.append(f"the forward is filtered by value (`if {txt(c2)[:40]}`): a falsy option such as ignore_na=False is dropped")
                srcs = {e.value for g in d.generators for x in ast.walk(g.iter) for e in ([x] if isinstance(x, ast.Constant) and isinstance(x.value, str) else [])}
                missing = [o for o in options if o not in srcs]
                if missing:
                    probs.append(f"options {missing} are not forwarded")
            else:
                probs.append(f"`{name.id} = {txt(d)[:40]}` is not a mapping of the options")
        ctx.ob("R10", f, f"`{txt(c)[:50]}` receives every check option of Field unfiltered", not probs,
               f"{options} forwarded as given" if not probs else "; ".join(probs) + ": the compiled Check differs from the one "
               "DataFrameSchema users write (e.g. nulls ignored although ignore_na=False was requested)", f.loc(c))


def r11_config_merge_direction(ctx):
    """Config options and extras are collected from the root model down to the class: what a more derived model declares
    overrides what has been accumulated (`acc.update(new)` / `acc = {**acc, **new}`).  The transposed spelling
    `{**new, **acc}` lets the most basic model win - a child that re-declares a dataframe-level check keeps its parent's."""
    model = ctx.ix.cls(MODEL)
    f = model.method("_collect_config_and_extras")
    if f is None:
        raise AnalysisError("_collect_config_and_extras missing")
    ctx.touched(f)
    n = 0
    for lp in [x for x in walk_no_nested(f.node) if isinstance(x, ast.For)]:
        for st in ast.walk(lp):
            if isinstance(st, ast.Assign) and len(st.targets) == 1 and isinstance(st.targets[0], ast.Name) and isinstance(st.value, ast.Dict) \
                    and st.value.keys and all(k is None for k in st.value.keys):
                acc = st.targets[0].id
                parts = [txt(v) for v in st.value.values]
                if acc in parts:
                    n += 1
                    ok = parts[0] == acc
                    ctx.ob("R11", f, f"`{acc}` is overridden by the more derived model", ok,
                           f"{{**{acc}, **new}}" if ok else f"`{txt(st)}` keeps the accumulated (less derived) values: the base model's declaration wins over the subclass's", f.loc(st))
            if isinstance(st, ast.Expr) and isinstance(st.value, ast.Call) and callee_last(st.value) == "update" and isinstance(st.value.func, ast.Attribute):
                n += 1
                recv = txt(st.value.func.value)
                loop_locals = {t.id for x in ast.walk(lp) if isinstance(x, ast.Assign) for tt in x.targets for t in ast.walk(tt) if isinstance(t, ast.Name)}
                ok = recv not in loop_locals
                ctx.ob("R11", f, f"`{recv}` is overridden by the more derived model", ok,
                       f"{recv}.update(new)" if ok else f"`{txt(st)}` updates the per-model value with the accumulator: precedence is reversed", f.loc(st))
    if n < 2:
        raise AnalysisError(f"_collect_config_and_extras: merge statements found: {n}")


def r12_checks_keyed_like_fields(ctx):
    """`__checks__` / `__parsers__` are keyed like `__fields__` (by the field's public name, i.e. its alias).  The column
    builders therefore look the custom checks of a field up with the very key of the fields mapping they iterate - with
    `field.original_name` an aliased field silently loses its @check methods."""
    n = 0
    for mp in ("pandera/api/pandas/model.py", "pandera/api/polars/model.py"):
        m = ctx.ix.module(mp)
        for f in m.all_functions:
            if not f.name.startswith("_build_columns"):
                continue
            for lp in [x for x in walk_no_nested(f.node) if isinstance(x, ast.For)]:
                it = lp.iter
                keyvar = None
                if isinstance(it, ast.Call) and callee_last(it) == "items" and isinstance(lp.target, ast.Tuple) and isinstance(lp.target.elts[0], ast.Name):
                    keyvar = lp.target.elts[0].id
                for c in [x for x in ast.walk(lp) if isinstance(x, ast.Call) and callee_last(x) == "get" and isinstance(x.func, ast.Attribute)
                          and txt(x.func.value) in ("checks", "parsers") and x.args]:
                    n += 1
                    ok = keyvar is not None and isinstance(c.args[0], ast.Name) and c.args[0].id == keyvar
                    ctx.ob("R12", f, f"{f.short}: `{txt(c)[:40]}` uses the key of the fields mapping", ok,
                           f"looked up by `{keyvar}`" if ok else
                           f"looked up by `{txt(c.args[0])}`, not by the key the fields are stored under (the alias): a field with alias= loses its @check / @parser methods", f.loc(c))
    if n < 3:
        raise AnalysisError(f"model column builders: check / parser look-ups found: {n}")


_HASHING = ("set", "frozenset")


def r13_designations_not_hashed_before_named(ctx):
    """`@pa.check(a, b)` / `@pa.parser(a, b)` may be given the class-scope Field objects.  The decorator runs while the
    class body executes, i.e. before `__set_name__` gave the fields their names; FieldInfo hashes and compares by `name`
    (None for all of them at that time), so any hash-based container built from the designations *at decoration time*
    collapses distinct fields into one and the check silently applies to the first field only.  Decided: as long as
    BaseFieldInfo's `__hash__` / `__eq__` read `name`, the factories hand the designations to the *Info object without
    passing them through set / frozenset / dict keys / a set comprehension (the extractors de-duplicate by name later,
    after the names exist)."""
    ix = ctx.ix
    base = ix.cls("pandera/api/base/model_components.py::BaseFieldInfo")
    name_based = False
    for mname in ("__hash__", "__eq__"):
        f = base.lookup(mname)
        if f is not None and any(isinstance(x, ast.Attribute) and x.attr in ("name", "alias", "original_name") for x in ast.walk(f.node)):
            name_based = True
    n = 0
    for mp in ("pandera/api/dataframe/model_components.py", "pandera/api/pyspark/model_components.py"):
        m = ix.module(mp)
        for f in m.functions.values():
            va = f.node.args.vararg
            if va is None:
                continue
            ctors = [c for c in calls_in(f.node, nested=True) if callee_last(c).endswith("Info") and c.args
                     and any(isinstance(x, ast.Name) and x.id == va.arg for x in ast.walk(c.args[0]))]
            # the designations may also reach the constructor through a local
            local = {}
            for st in ast.walk(f.node):
                if isinstance(st, ast.Assign) and len(st.targets) == 1 and isinstance(st.targets[0], ast.Name) \
                        and any(isinstance(x, ast.Name) and x.id == va.arg for x in ast.walk(st.value)):
                    local[st.targets[0].id] = st.value
            for c in calls_in(f.node, nested=True):
                if callee_last(c).endswith("Info") and c.args and isinstance(c.args[0], ast.Name) and c.args[0].id in local and c not in ctors:
                    ctors.append(c)
            for c in ctors:
                n += 1
                ctx.touched(f)
                expr = local.get(c.args[0].id, c.args[0]) if isinstance(c.args[0], ast.Name) else c.args[0]
                hashed = [x for x in ast.walk(expr) if (isinstance(x, ast.Call) and callee_last(x) in _HASHING)
                          or isinstance(x, (ast.SetComp, ast.Set, ast.DictComp))
                          or (isinstance(x, ast.Call) and callee_last(x) == "fromkeys")]
                ok = not (name_based and hashed)
                ctx.ob("R13", f, f"{f.short}: the designations reach `{callee_last(c)}` without being hashed at decoration time", ok,
                       "kept in order as given" if ok else
                       f"`{txt(hashed[0])[:40]}` hashes Field objects whose name is still None while the class body runs: `@pa.{f.name}(a, b)` with two class-scope "
                       "fields keeps only `a`, column `b` silently has no check (the same model written with names, and the object-API schema, reject the frame)",
                       f.loc(c))
    if n < 3:
        raise AnalysisError(f"field check / parser decorator factories found: {n}")


def r14_override_hides_whatever_its_kind(ctx):
    """The collectors of @check / @dataframe_check / @parser methods walk the MRO from the most derived class and keep
    a set of the names already seen, so that a subclass attribute hides the parent's method as Python's attribute lookup
    does.  Python hides by *name*: `Child.rule` is the child's attribute whatever it is bound to (a check of another kind,
    a plain classmethod).  The name therefore has to be recorded for every attribute - if the recording is only reached
    after the `isinstance(info, <Kind>Info)` filter, a parent's column check overridden by a frame-level check (or by a
    plain method) of the same name stays in the child's schema, bound to the parent's function."""
    from ..cfg import cfg_of
    n = 0
    per_module = {}
    for mp in ("pandera/api/dataframe/model.py", "pandera/api/pyspark/model.py"):
        m = ctx.ix.module(mp)
        per_module[mp] = 0
        for f in m.all_functions:
            loops = [lp for lp in walk_no_nested(f.node) if isinstance(lp, ast.For) and any(
                isinstance(c, ast.Call) and isinstance(c.func, ast.Name) and c.func.id == "vars" for c in ast.walk(lp.iter))
                and isinstance(lp.target, ast.Tuple) and lp.target.elts and isinstance(lp.target.elts[0], ast.Name)]
            if not loops:
                continue
            cfg = None
            for lp in loops:
                key = lp.target.elts[0].id
                adds = [c for c in ast.walk(lp) if isinstance(c, ast.Call) and callee_last(c) == "add" and len(c.args) == 1
                        and isinstance(c.args[0], ast.Name) and c.args[0].id == key]
                for c in adds:
                    cfg = cfg or cfg_of(f.node)
                    st = c
                    while not isinstance(st, ast.stmt):
                        st = st._parent
                    node = cfg.node_of(st)
                    kind_filters = [t for t, pol in (cfg.guards(node.id) if node is not None else [])
                                    if any(isinstance(x, ast.Call) and isinstance(x.func, ast.Name) and x.func.id == "isinstance"
                                           and len(x.args) == 2 and txt(x.args[0]) != key for x in ast.walk(t))]
                    n += 1
                    per_module[mp] += 1
                    ctx.touched(f)
                    ok = not kind_filters
                    ctx.ob("R14", f, f"{f.short}: a name seen in a more derived class hides the inherited method whatever it is bound to", ok,
                           f"`{txt(c)}` reached for every attribute" if ok else
                           f"`{txt(c)}` is reached only when `{txt(kind_filters[0])[:60]}`: a subclass attribute of another kind (a @dataframe_check or plain method "
                           "named like the parent's @check) does not hide the parent's method, whose check stays in the child's schema", f.loc(c))
    if not all(per_module.values()):
        raise AnalysisError(f"model collectors with a seen-names set found: {per_module}")


def r15_extras_value_dispatch(ctx):
    """`class Config: my_check = <value>` means `Check.my_check(...)` on the dataframe, and the documented reading of
    `<value>` is: a tuple is the positional arguments, a dict the keyword arguments, anything else THE argument.  The same
    check written on the object API (`Check.my_check(value)`) therefore receives a list as one argument.  Decided on the
    conversion function (the one that calls `getattr(Check, name)(*args, **kwargs)`): the value is splatted positionally
    exactly under `isinstance(value, tuple)` and as keywords exactly under `isinstance(value, dict)`."""
    from ..cfg import cfg_of
    m = ctx.ix.module("pandera/api/dataframe/model.py")
    n = 0
    for f in m.all_functions:
        star_calls = [c for c in calls_in(f.node) if any(isinstance(a, ast.Starred) for a in c.args) and any(k.arg is None for k in c.keywords)
                      and isinstance(c.func, ast.Call) and callee_last(c.func) == "getattr" and c.func.args and txt(c.func.args[0]) == "Check"]
        if not star_calls:
            continue
        c0 = star_calls[0]
        a_name = next(a.value.id for a in c0.args if isinstance(a, ast.Starred) and isinstance(a.value, ast.Name))
        k_name = next(k.value.id for k in c0.keywords if k.arg is None and isinstance(k.value, ast.Name))
        loops = [lp for lp in walk_no_nested(f.node) if isinstance(lp, ast.For) and isinstance(lp.target, ast.Tuple) and len(lp.target.elts) == 2]
        if not loops:
            raise AnalysisError(f"{f.short}: loop over the extras not found")
        val = loops[0].target.elts[1].id
        cfg = cfg_of(f.node)
        ctx.touched(f)
        for st in function_stmts(f):
            if not isinstance(st, ast.Assign):
                continue
            pairs = {}
            for t in st.targets:
                if isinstance(t, ast.Tuple) and isinstance(st.value, ast.Tuple) and len(t.elts) == len(st.value.elts):
                    pairs.update({e.id: v for e, v in zip(t.elts, st.value.elts) if isinstance(e, ast.Name)})
                elif isinstance(t, ast.Name):
                    pairs[t.id] = st.value
            if a_name not in pairs and k_name not in pairs:
                continue
            node = cfg.node_of(st)
            classes = set()
            for t, pol in (cfg.guards(node.id) if node is not None else []):
                if pol and isinstance(t, ast.Call) and isinstance(t.func, ast.Name) and t.func.id == "isinstance" and len(t.args) == 2 and txt(t.args[0]) == val:
                    classes |= {x.id for x in ast.walk(t.args[1]) if isinstance(x, ast.Name)}

            def is_splat(e):
                return (isinstance(e, ast.Name) and e.id == val) or (isinstance(e, ast.Call) and isinstance(e.func, ast.Name) and e.func.id in ("tuple", "list", "dict")
                                                                      and e.args and txt(e.args[0]) == val)
            if a_name in pairs and is_splat(pairs[a_name]):
                n += 1
                ok = classes == {"tuple"}
                ctx.ob("R15", f, f"{f.short}: the extras value is the positional arguments exactly when it is a tuple", ok,
                       "isinstance(value, tuple)" if ok else
                       f"`{txt(st)[:60]}` splats the value under {sorted(classes) or 'no type test'}: Config `my_check = ['a', 'b']` calls Check.my_check('a', 'b') where "
                       "the object API and the documentation pass the list as the one argument - the registered check silently sees only its first statistic", f.loc(st))
            if k_name in pairs and is_splat(pairs[k_name]):
                n += 1
                ok = classes == {"dict"}
                ctx.ob("R15", f, f"{f.short}: the extras value is the keyword arguments exactly when it is a dict", ok,
                       "isinstance(value, dict)" if ok else f"`{txt(st)[:60]}` uses the value as keyword arguments under {sorted(classes) or 'no type test'}", f.loc(st))
    if n < 2:
        raise AnalysisError(f"Config extras conversion: splat sites found: {n}")


def r16_annotated_parameters_before_raw_resolution(ctx):
    """`col: Annotated[<dtype>, *params]` declares `<dtype>(*params)`.  The engines resolve the raw annotation by its
    origin (`Annotated[pl.Datetime, "ms", "UTC"]` -> the registered Datetime with default unit and zone), silently
    dropping the parameters.  The column builders therefore consult `annotation.metadata` first and hand the raw
    annotation to `Engine.dtype` only when there is none - as the pandas builder does; the polars builder that tries the
    raw annotation first validates `datetime[us]` where the equivalent schema demands `datetime[ms, UTC]`."""
    from ..cfg import cfg_of
    from ..util import Expander
    n = 0
    per_module = {}
    for mp in ("pandera/api/pandas/model.py", "pandera/api/polars/model.py"):
        m = ctx.ix.module(mp)
        per_module[mp] = 0
        for f in m.all_functions:
            sites = [c for c in calls_in(f.node) if callee_last(c) == "dtype" and c.args and txt(c.args[0]).endswith(".raw_annotation")]
            if not sites:
                continue
            cfg = cfg_of(f.node)
            for c in sites:
                n += 1
                per_module[mp] += 1
                ctx.touched(f)
                st = c
                while not isinstance(st, ast.stmt):
                    st = st._parent
                node = cfg.node_of(st)
                pc = path_condition(cfg, node.id, keep=lambda t, nn: t.endswith(".metadata")) if node is not None else ((), frozenset())
                ok = len(pc[0]) == 1 and pc[1] == frozenset({(False,)})
                ctx.ob("R16", f, f"{mp.split('/')[-2]} {f.short}: the raw annotation is resolved by the engine only when it carries no Annotated parameters", ok,
                       "reached only when annotation.metadata is empty" if ok else
                       f"`{txt(c)[:60]}` is tried before / regardless of annotation.metadata ({show_condition(pc)}): `ts: Annotated[pl.Datetime, 'ms', 'UTC']` resolves by its origin to "
                       "Datetime('us', None) and the parameters are dropped without an error (the pandas builder and Column(pl.Datetime('ms', 'UTC')) keep them)", f.loc(c))
    if not all(per_module.values()):
        raise AnalysisError(f"model column builders: resolutions of the raw annotation found: {per_module}")


def r17_config_options_read_through_lookup(ctx):
    """`Model.Config.strict` is whatever attribute lookup finds - also an option inherited from a plain base class of the
    Config (a shared settings mixin) or from another model's Config.  The collector that turns a Config into schema options
    therefore has to enumerate the Config through its MRO (`dir`, `inspect.getmembers`, a walk over `__mro__`); `vars(config)`
    sees the class's own namespace only, and the defaults of BaseConfig then shadow every inherited option:
    `class Config(StrictCoercing): ordered = True` builds a schema with strict=False, coerce=False."""
    m = ctx.ix.module("pandera/api/dataframe/model.py")
    n = 0
    for f in m.all_functions:
        if "config" not in f.params or "extract" not in f.name:
            continue
        own_only = [c for c in calls_in(f.node) if isinstance(c.func, ast.Name) and c.func.id == "vars" and c.args and txt(c.args[0]) == "config"] + \
                   [x for x in ast.walk(f.node) if isinstance(x, ast.Attribute) and x.attr == "__dict__" and txt(x.value) == "config"]
        through_mro = [x for x in ast.walk(f.node) if (isinstance(x, ast.Attribute) and x.attr in ("__mro__",)) or
                       (isinstance(x, ast.Call) and callee_last(x) in ("getmro", "getmembers", "dir"))]
        n += 1
        ctx.touched(f)
        ok = bool(through_mro) or not own_only
        ctx.ob("R17", f, f"{f.short}: the options of a Config are enumerated through attribute lookup (its MRO)", ok,
               "walks the MRO" if ok else
               f"`{txt(own_only[0])}` enumerates the Config's own namespace only: options inherited from a plain base class of the Config (or from another model's Config) "
               "are visible as Model.Config.strict but never reach to_schema() - the model accepts frames that the equivalent DataFrameSchema rejects", f.loc(own_only[0]))
    if n < 1:
        raise AnalysisError("model.py: the Config option extractor not found")


def run(ctx):
    from ..defassign import check_modules
    check_modules(ctx, "R8", ('pandera/api/dataframe/model.py', 'pandera/api/dataframe/model_components.py', 'pandera/api/pandas/model.py', 'pandera/api/polars/model.py', 'pandera/api/base/model.py', 'pandera/api/base/model_components.py'), "escapes to_schema()/validate of the model")
    r6_declaration_order(ctx)
    r7_own_namespace(ctx)
    r9_alias_by_none_only(ctx)
    r10_field_check_options(ctx)
    r11_config_merge_direction(ctx)
    r12_checks_keyed_like_fields(ctx)
    r13_designations_not_hashed_before_named(ctx)
    r14_override_hides_whatever_its_kind(ctx)
    r15_extras_value_dispatch(ctx)
    r16_annotated_parameters_before_raw_resolution(ctx)
    r17_config_options_read_through_lookup(ctx)
    r1_twins(ctx)
    r2_config(ctx)
    r3_dispatch(ctx)
    r4_field_props(ctx)
    r5_hidden_state(ctx)
    ctx.assume("check<->parser renaming covers identifiers containing check/Check/CHECK/parses")
